// Random interpolation tables drawn from the quantifier of C01/C08/C09, and the
// projection of real arguments to position codes (see spec/Locate.tla).
#ifndef VERIF_TABLES_HPP
#define VERIF_TABLES_HPP
#include "common.hpp"

namespace vf
{
struct Table
{
	std::vector<double> x, y;
	int N() const { return (int)x.size(); }
};

// style: 0 uniform-ish, 1 wild spacing ratios (up to 1e9), 2 log-spaced, 3 integer grid
inline Table random_table(Rng& g, int N, int style = -1, int ystyle = -1)
{
	Table t;
	if(style < 0)
		style = (int)g.range(0, 3);
	if(ystyle < 0)
		ystyle = (int)g.range(0, 6);
	t.x.resize(N);
	t.y.resize(N);
	double x0 = g.coin(0.3) ? 0.0 : g.gauss() * std::pow(10.0, g.uni(-3, 3));
	if(style == 2)
		x0 = std::pow(10.0, g.uni(-10, 2));
	t.x[0]	 = x0;
	double h = std::pow(10.0, g.uni(-2, 2));
	for(int i = 1; i < N; i++)
	{
		double hi;
		if(style == 0)
			hi = h * g.uni(0.8, 1.25);
		else if(style == 1)
		{
			double lr = g.coin(0.2) ? g.uni(-9, 9) : g.uni(-1, 1);	 // ratio to previous spacing
			h *= std::pow(10.0, lr);
			if(h < 1e-6)
				h = 1e-6 * g.uni(1, 10);
			if(h > 1e6)
				h = 1e6 * g.uni(0.1, 1);
			hi = h;
		}
		else if(style == 2)
			hi = t.x[i - 1] * g.uni(0.05, 0.6) * std::min(1.0, 40.0 / N);
		else
			hi = (double)g.range(1, 3);
		double nx = t.x[i - 1] + hi;
		if(!(nx > t.x[i - 1]))
			nx = std::nextafter(t.x[i - 1], INFINITY) + std::fabs(t.x[i - 1]) * 1e-12;
		t.x[i] = nx;
	}
	if(style == 3)
		for(int i = 0; i < N; i++)
			t.x[i] = std::floor(t.x[0]) + (t.x[i] - t.x[0]);
	double mag = std::pow(10.0, g.uni(-20, 20));
	if(g.coin(0.5))
		mag = std::pow(10.0, g.uni(-2, 2));
	double phase = g.uni(0, 6.28), freq = g.uni(0.05, 1.5);
	double walk = 0;
	// ystyle 6: samples of a parabola whose vertex lies just outside the table, inside a 1% extrapolation zone (the edge cubic of
	// such a table has a leading coefficient that is only a rounding residue)
	bool right	  = g.coin();
	double vertex = right ? t.x[N - 1] + 0.5e-2 * (t.x[N - 1] - t.x[N - 2]) * g.uni(0.02, 0.6) : t.x[0] - 0.5e-2 * (t.x[1] - t.x[0]) * g.uni(0.02, 0.6);
	double curv	  = (g.coin() ? 1 : -1) * g.uni(0.1, 5.0) / std::pow(t.x[N - 1] - t.x[0], 2);
	for(int i = 0; i < N; i++)
	{
		double v;
		switch(ystyle)
		{
			case 0: v = g.gauss(); break;											// noise, mixed sign
			case 1: v = std::sin(phase + freq * i); break;							// smooth oscillation
			case 2: walk += g.coin(0.3) ? 0.0 : g.gauss(); v = walk; break;			// random walk with plateaus
			case 3: v = g.coin(0.08) ? g.gauss() * 1e3 : 1.0 + 1e-3 * g.gauss(); break;	// isolated spikes
			case 4: v = g.gauss() * std::pow(10.0, g.uni(-6, 6)); break;				// mixed magnitudes
			case 6: v = curv * (t.x[i] - vertex) * (t.x[i] - vertex); break;			// parabola, vertex in a zone
			default: v = (double)g.range(-3, 3); break;								// small integers, many ties
		}
		t.y[i] = v * mag;
	}
	return t;
}

// position code of x relative to the table; -1 / 2N+1 when outside the 1% zones
inline int code_of(const Table& t, double x)
{
	int N = t.N();
	if(x < t.x[0])
		return (t.x[0] - x) < 1e-2 * (t.x[1] - t.x[0]) ? 0 : -1;
	if(x > t.x[N - 1])
		return (x - t.x[N - 1]) < 1e-2 * (t.x[N - 1] - t.x[N - 2]) ? 2 * N : 2 * N + 1;
	auto it = std::lower_bound(t.x.begin(), t.x.end(), x);
	int k	= (int)(it - t.x.begin());
	if(*it == x)
		return 2 * k + 1;
	return 2 * (k - 1) + 2;
}

// a representative argument for code p; `flavour` selects where inside an open interval
inline double point_of(const Table& t, int p, int flavour, Rng* g = nullptr)
{
	int N = t.N();
	if(p == 0)
		return t.x[0] - 0.5e-2 * (t.x[1] - t.x[0]) * (g ? g->uni(0.1, 1.0) : 1.0);
	if(p == 2 * N)
		return t.x[N - 1] + 0.5e-2 * (t.x[N - 1] - t.x[N - 2]) * (g ? g->uni(0.1, 1.0) : 1.0);
	if(p == -1)
		return t.x[0] - 2e-2 * (t.x[1] - t.x[0]);
	if(p == 2 * N + 1)
		return t.x[N - 1] + 2e-2 * (t.x[N - 1] - t.x[N - 2]);
	if(p % 2 == 1)
		return t.x[(p - 1) / 2];
	int k = (p - 2) / 2;
	double a = t.x[k], b = t.x[k + 1], r;
	switch(flavour % 4)
	{
		case 0: r = a + 0.5 * (b - a); break;
		case 1: r = std::nextafter(a, INFINITY); break;
		case 2: r = std::nextafter(b, -INFINITY); break;
		default: r = a + (b - a) * (g ? g->uni(0.01, 0.99) : 0.3); break;
	}
	if(!(r > a))
		r = std::nextafter(a, INFINITY);
	if(!(r < b))
		r = std::nextafter(b, -INFINITY);
	if(!(r > a && r < b))
		r = a;	 // adjacent doubles: no interior point; fall back to the knot (caller re-derives the code)
	return r;
}
}	// namespace vf
#endif
