// C13 — named 1D methods and nested multi-dimensional integrals.   run <vectors> <seed> <tier> <trace>
//   Nest : the separable polynomial cases exported by MC_Nested (exact rational integral per axis) through
//          Integrate / Integrate_2D / Integrate_3D; the integrand wrapper checks that argument k lies in the
//          range of axis k (disjoint ranges) and counts evaluations.
//   One  : non-polynomial smooth families with closed forms (damped oscillation, rational, Gaussian), every method,
//          both orientations, equal limits.
//   Sph  : the spherical overload of Integrate_3D with f(|r|) = r^k on shells and angular sub-ranges.
#include "common.hpp"
#include <complex>
#include "libphysica/Integration.hpp"
#include "libphysica/Linear_Algebra.hpp"

using namespace vf;
using namespace libphysica;
static const double EPS = 2.220446049250313e-16;
static const char* METHODS[6] = {"Trapezoidal", "Gauss-Legendre", "Gauss-Kronrod", "Tanh-Sinh", "Gauss-Legendre_2", "Adaptive-Simpson"};
static double tol_of(const std::string& m) { return m == "Trapezoidal" ? 1e-6 : 1e-9; }

static double poly(const std::vector<int>& c, double x)
{
	double v = 0;
	for(int k = (int)c.size() - 1; k >= 0; k--)
		v = v * x + c[k];
	return v;
}

int main(int argc, char** argv)
{
	guard_install(3300);
	if(argc != 6 || std::string(argv[1]) != "run")
	{
		finished();
		return 3;
	}
	auto cases = read_ndjson(argv[2]);
	Rng g(std::strtoull(argv[3], nullptr, 10));
	bool quick = std::string(argv[4]) == "quick";
	Trace T(argv[5]);
	Quiet* quiet = new Quiet();	  // boost / the library may print warnings; stderr is restored before exit
	// ---------------------------------------------------------------- Nest
	for(auto& c : cases)
	{
		if(c["k"] != "nest")
			continue;
		std::string m = c["meth"];
		int dim = c["dim"], par = c["par"];
		bool slow = (m == "Tanh-Sinh" || m == "Adaptive-Simpson" || m == "Gauss-Kronrod");
		if(dim == 3 && m == "Trapezoidal")
			continue;	// boost's trapezoidal rule refines to ~2000 points per level: 8.6e9 evaluations per nested 3D integral (not run; 1D and 2D are)
		if(quick && dim == 3 && slow && (c["salt"].get<int>() != 0 || (c["orient"].get<int>() != 0 && c["orient"].get<int>() != 5)))
			continue;
		if(quick && dim == 2 && m == "Trapezoidal" && c["salt"].get<int>() != 0)
			continue;
		std::vector<std::vector<int>> co;
		std::vector<double> lo, hi, rlo, rhi;
		long double exact = 1, scale = 1;
		for(auto& a : c["axes"])
		{
			co.push_back(a["c"].get<std::vector<int>>());
			lo.push_back(a["lo"]);
			hi.push_back(a["hi"]);
			rlo.push_back(std::min(lo.back(), hi.back()));
			rhi.push_back(std::max(lo.back(), hi.back()));
			exact *= (long double)a["num"].get<int>() / (long double)a["den"].get<int>();
			scale *= (long double)a["anum"].get<int>() / (long double)a["aden"].get<int>();
		}
		long nleaf = 0, nwrong = 0;
		auto inr = [&](int k, double v) { return v >= rlo[k] && v <= rhi[k]; };
		double v = 0;
		intent(m + " dim " + std::to_string(dim));
		if(dim == 1)
			v = Integrate([&](double x) { nleaf++; if(!inr(0, x)) nwrong++; return poly(co[0], x); }, lo[0], hi[0], m, par);
		else if(dim == 2)
			v = Integrate_2D([&](double x, double y) { nleaf++; if(!inr(0, x) || !inr(1, y)) nwrong++; return poly(co[0], x) * poly(co[1], y); }, lo[0], hi[0], lo[1], hi[1], m, par);
		else
			v = Integrate_3D([&](double x, double y, double z) { nleaf++; if(!inr(0, x) || !inr(1, y) || !inr(2, z)) nwrong++; return poly(co[0], x) * poly(co[1], y) * poly(co[2], z); },
							 lo[0], hi[0], lo[1], hi[1], lo[2], hi[2], m, par);
		T.emit({{"e", "Nest"}, {"meth", m}, {"dim", dim}, {"orient", c["orient"]}, {"par", par}, {"tol", c["tol"]}, {"leaves", c["leaves"]}, {"nleaf", nleaf}, {"nwrong", nwrong},
				{"errq", quant((double)(v - exact), tol_of(m) * (double)scale)}, {"sgnok", exact == 0 || (v > 0) == (exact > 0)}, {"salt", c["salt"]}});
	}
	// ---------------------------------------------------------------- One: smooth non-polynomial families, closed forms
	int none = quick ? 40 : 400;
	const int NFIX = 150;	// a fixed stream first (independent of the seed), so that listed findings are exercised by every run
	Rng gfix(424242), &gseed = g;
	for(int ii = 0; ii < NFIX + none; ii++)
	{
		Rng& g = ii < NFIX ? gfix : gseed;
		int i  = ii;
		int fam = ii < NFIX ? 0 : i % 3;
		double a, b;
		std::function<double(double)> f;
		std::function<long double(long double)> F;	 // antiderivative
		if(fam == 0)
		{	// exponentially damped oscillation, up to two periods over the interval
			double w = g.uni(1.0, 6.0), ph = g.uni(0, 6.28), periods = g.uni(0.3, 2.0);
			a = g.uni(-1.0, 1.0);
			b = a + periods * 6.283185307179586 / w;
			double lam = g.uni(0.2, std::min(2.0, 5.0 / (b - a)));
			f = [=](double x) { return std::exp(-lam * x) * std::cos(w * x + ph); };
			F = [=](long double x) { long double l = lam, ww = w, p = ph; return expl(-l * x) * (-l * cosl(ww * x + p) + ww * sinl(ww * x + p)) / (l * l + ww * ww); };
		}
		else if(fam == 1)
		{	// rational 1/(1+(x-c)^2/s^2); the poles c +- i s stay outside the Bernstein ellipse of parameter 1.6 of the interval (regular for fixed-order rules)
			double cc, s;
			for(;;)
			{
				cc = g.uni(-1, 1);
				s  = g.uni(0.5, 3.0);
				a  = g.uni(-3, 0);
				b  = g.uni(0.5, 4);
				std::complex<double> z((cc - 0.5 * (a + b)) / (0.5 * (b - a)), s / (0.5 * (b - a)));
				std::complex<double> r = std::sqrt(z * z - 1.0);
				double rho = std::max(std::abs(z + r), std::abs(z - r));
				if(rho >= 1.6)
					break;
			}
			f = [=](double x) { double t = (x - cc) / s; return 1.0 / (1.0 + t * t); };
			F = [=](long double x) { return (long double)s * atanl((x - cc) / s); };
		}
		else
		{	// Gaussian over a window of at most six standard deviations
			double mu = g.uni(-1, 1), s = g.uni(0.4, 2.0);
			a = mu - s * g.uni(0.5, 3);
			b = mu + s * g.uni(0.5, 3);
			f = [=](double x) { double t = (x - mu) / s; return std::exp(-0.5 * t * t); };
			F = [=](long double x) { return (long double)s * sqrtl(1.5707963267948966192L) * erfl((x - mu) / (s * 1.41421356237309504880L)); };
		}
		// the same integrand in other units (amplitude 1e-45 .. 1e20): every method's accuracy is relative
		if(ii >= NFIX && g.coin(0.3))
		{
			double amp = std::pow(10.0, g.uni(-45, 20));
			auto f0 = f;
			auto F0 = F;
			f		= [f0, amp](double x) { return amp * f0(x); };
			F		= [F0, amp](long double x) { return (long double)amp * F0(x); };
		}
		long double exact = F(b) - F(a);
		// scale: integral of |f| is at most (b-a) max|f| <= (b-a) e^{lam}...; use (b-a) * max sampled |f|
		double l1 = 0;	 // L1 norm of the integrand (midpoint rule, 4096 panels): the accuracy of every method is relative to it
		for(int k = 0; k < 4096; k++)
			l1 += std::fabs(f(a + (b - a) * (k + 0.5) / 4096.0));
		l1 *= (b - a) / 4096.0;
		for(int mi = 0; mi < 6; mi++)
		{
			std::string m = METHODS[mi];
			int par		  = (i % 2) ? 0 : (m == "Gauss-Kronrod" ? 6 : (m == "Gauss-Legendre_2" ? ((i % 4) ? 40 : 31) : 3));
			long nout = 0;
			auto wf	  = [&](double x) { if(x < a || x > b) nout++; return f(x); };
			intent(m + " 1D");
			double v1 = Integrate(wf, a, b, m, par);
			double v2 = Integrate(wf, b, a, m, par);
			double v0 = Integrate(wf, a, a, m, par);
			if(getenv("VERIF_DEBUG") && m != "Trapezoidal" && quant((double)(v1 - exact), tol_of(m) * (m == "Adaptive-Simpson" ? std::max(l1, std::fabs((b - a) / 6.0 * (f(a) + 4.0 * f(0.5 * (a + b)) + f(b)))) : l1)) > 1)
				dprintf(errfd_ref(), "DBGONE ii=%d fam=%d meth=%s a=%.17g b=%.17g v1=%.17g exact=%.17Lg l1=%.17g coarse=%.17g f(a)=%g f(mid)=%g f(b)=%g\n", ii, fam, m.c_str(), a, b, v1, exact, l1, (b - a) / 6.0 * (f(a) + 4.0 * f(0.5 * (a + b)) + f(b)), f(a), f(0.5 * (a + b)), f(b));
			T.emit({{"e", "One"}, {"meth", m}, {"fam", fam}, {"par", par}, {"tol", m == "Trapezoidal" ? "1e-6" : "1e-9"},
					// unit: the method's stated accuracy relative to the L1 norm (Adaptive-Simpson: to max(L1, |three-point estimate|), which is what its tolerance is derived from)
					{"errq", quant((double)(v1 - exact), tol_of(m) * (m == "Adaptive-Simpson" ? std::max(l1, std::fabs((b - a) / 6.0 * (f(a) + 4.0 * f(0.5 * (a + b)) + f(b)))) : l1))},
					{"gross", !(std::fabs((double)(v1 - exact)) <= 100.0 * tol_of(m) * std::max(l1, std::fabs((b - a) / 6.0 * (f(a) + 4.0 * f(0.5 * (a + b)) + f(b)))))},
					{"neg", bits(v2) == bits(-v1)}, {"zero", v0 == 0.0}, {"nout", nout}});
		}
	}
	// ---------------------------------------------------------------- Sph: f(|r|) = r^k over shells and angular sub-ranges
	int nsph = quick ? 10 : 80;
	for(int i = 0; i < nsph; i++)
	{
		static const char* SM[3] = {"Gauss-Legendre", "Gauss-Legendre_2", "Gauss-Kronrod"};
		std::string m = SM[i % 3];
		int k		  = (int)g.range(0, 3);
		double r1 = g.uni(0.2, 1.0), r2 = r1 + g.uni(0.3, 2.0);
		bool full = (i % 4 == 0);
		double c1 = full ? -1.0 : g.uni(-1.0, 0.5), c2 = full ? 1.0 : g.uni(c1 + 0.1, 1.0);
		double p1 = full ? 0.0 : g.uni(0.0, 3.0), p2 = full ? 6.283185307179586 : p1 + g.uni(0.2, 3.0);
		long nev = 0, badnorm = 0, badcos = 0, badphi = 0;
		auto f = [&](Vector r) {
			nev++;
			double n = r.Norm();
			if(!(n >= r1 * (1 - 1e-12) && n <= r2 * (1 + 1e-12)))
				badnorm++;
			double ct = r[2] / n;
			if(!(ct >= c1 - 1e-12 && ct <= c2 + 1e-12))
				badcos++;
			if(std::fabs(ct) < 1.0 - 1e-9)
			{
				double ph = std::atan2(r[1], r[0]);
				if(ph < 0)
					ph += 6.283185307179586;
				// accept phi modulo 2 pi
				bool ok = (ph >= p1 - 1e-9 && ph <= p2 + 1e-9) || (ph + 6.283185307179586 >= p1 - 1e-9 && ph + 6.283185307179586 <= p2 + 1e-9);
				if(!ok)
					badphi++;
			}
			return std::pow(n, k);
		};
		intent("Integrate_3D spherical " + m);
		double v		  = Integrate_3D(f, r1, r2, c1, c2, p1, p2, m, 0);
		long double exact = ((long double)c2 - c1) * ((long double)p2 - p1) * (powl(r2, k + 3) - powl(r1, k + 3)) / (k + 3.0L);
		T.emit({{"e", "Sph"}, {"meth", m}, {"full", full}, {"k", k}, {"nev", nev}, {"badnorm", badnorm}, {"badcos", badcos}, {"badphi", badphi},
				{"errq", quant((double)((v - exact) / exact), 1e-9)}});
	}
	T.flush();
	delete quiet;
	finished();
	return 0;
}
