// C16 — rotations and spherical coordinates.   run <vectors> <seed> <tier> <trace>
//   Rot  : exact rational Rodrigues matrices exported by MC_Geometry, compared entry by entry (the axis is passed
//          with an arbitrary positive length, the angle as atan2(s, c) plus a multiple of 2 pi)
//   Obs  : relations on random angles / axes / lengths (recorded from the real functions), quantised
#include "common.hpp"
#include "libphysica/Linear_Algebra.hpp"

using namespace vf;
using namespace libphysica;
static const double EPS = 2.220446049250313e-16;
static const double PI	= 3.14159265358979323846;

static long double LD(const json& q) { return (long double)q[0].get<int>() / (long double)q[1].get<int>(); }
static double dot3(const Vector& a, const Vector& b) { return a[0] * b[0] + a[1] * b[1] + a[2] * b[2]; }
static Vector cross3(const Vector& a, const Vector& b) { return Vector({a[1] * b[2] - a[2] * b[1], a[2] * b[0] - a[0] * b[2], a[0] * b[1] - a[1] * b[0]}); }

// beyond the listed properties: Angle, Normalize, Normalized (anchored next to the spherical coordinates, no clause of their own)
static int record_aux(Rng& g, bool quick, Trace& T)
{
	int n = quick ? 1500 : 20000;
	for(int i = 0; i < n; i++)
	{
		int dim = (int)g.range(1, 6);
		std::vector<double> c(dim);
		double mag = std::pow(10.0, g.uni(-100, 100));
		for(auto& x : c)
			x = g.gauss() * mag;
		if(g.coin(0.2))
			c[(int)g.range(0, dim - 1)] = 0.0;
		Vector v(c), w(c);
		if(v.Norm() == 0.0)
			continue;
		intent("Normalize / Normalized");
		Vector u = v.Normalized();
		bool kept = true, same = true;
		for(int k = 0; k < dim; k++)
			kept = kept && bits(v[k]) == bits(c[k]);
		w.Normalize();
		for(int k = 0; k < dim; k++)
			same = same && bits(w[k]) == bits(u[k]);
		double worst = std::fabs(u.Norm() - 1.0);
		for(int k = 0; k < dim; k++)
			worst = std::max(worst, std::fabs(u[k] * v.Norm() - c[k]) / v.Norm());	 // parallel to the original
		// Angle: between a vector and its image under a rotation about a perpendicular axis it is |alpha| (alpha in [0.3, pi-0.3], where acos is well conditioned)
		intent("Angle");
		double r = g.logu(1e-6, 1e6), th = g.uni(0.3, PI - 0.3), ph = g.uni(0, 2 * PI);
		Vector axis({g.gauss(), g.gauss(), g.gauss()});
		axis = g.logu(1e-6, 1e6) * axis;
		double a1 = Angle(Spherical_Coordinates(r, th, ph, axis), axis), a2 = Angle(axis, Spherical_Coordinates(r, th, ph, axis));
		T.emit({{"e", "Aux"}, {"dim", dim}, {"normq", quant(worst, 8 * EPS)}, {"kept", kept}, {"same", same}, {"angq", quant(a1 - th, 1e-11)}, {"sym", bits(a1) == bits(a2)}, {"size", (int)u.Size() == dim && (int)w.Size() == dim}});
	}
	T.flush();
	finished();
	return 0;
}

int main(int argc, char** argv)
{
	guard_install(1500);
	if(argc == 5 && std::string(argv[1]) == "aux")
	{
		Rng g(std::strtoull(argv[2], nullptr, 10));
		Trace T(argv[4]);
		return record_aux(g, std::string(argv[3]) == "quick", T);
	}
	if(argc != 6 || std::string(argv[1]) != "run")
	{
		finished();
		return 3;
	}
	auto cases = read_ndjson(argv[2]);
	Rng g(std::strtoull(argv[3], nullptr, 10));
	bool quick = std::string(argv[4]) == "quick";
	Trace T(argv[5]);
	auto obs = [&](const std::string& kind, const std::string& cls, double resid, double unit, bool finite = true) {
		T.emit({{"e", "Obs"}, {"kind", kind}, {"cls", cls}, {"q", finite ? quant(resid, unit) : (1 << 30)}, {"fin", finite}});
	};
	// ---------------------------------------------------------------- replay of exact matrices
	for(auto& c : cases)
	{
		long double cc = LD(c["c"]), ss = LD(c["s"]);
		double alpha   = (double)atan2l(ss, cc) + 2.0 * PI * (double)g.range(-1, 1);
		double len	   = g.logu(1e-6, 1e6);
		Vector axis({(double)(LD(c["n"][0]) * len), (double)(LD(c["n"][1]) * len), (double)(LD(c["n"][2]) * len)});
		intent("Rotation_Matrix exact");
		Matrix Rm = Rotation_Matrix(alpha, 3, axis);
		long double worst = 0;
		for(int i = 0; i < 3; i++)
			for(int j = 0; j < 3; j++)
				worst = std::max(worst, fabsl((long double)Rm[i][j] - LD(c["m"][i][j])));
		T.emit({{"e", "Rot"}, {"q", quant((double)worst, 16 * EPS)}, {"shape", Rm.Rows() == 3 && Rm.Columns() == 3}});
	}
	// ---------------------------------------------------------------- recorded relations
	int nrot = quick ? 1500 : 30000;
	for(int i = 0; i < nrot; i++)
	{
		double alpha = g.uni(-4 * PI, 4 * PI), beta = g.uni(-4 * PI, 4 * PI);
		if(i % 10 == 0)
			alpha = (PI / 2) * (double)g.range(-8, 8);
		// axes: random on the sphere, coordinate directions, within 1e-12 of +-z, exactly +-z; any length
		Vector n(3);
		int kind		= (int)g.range(0, 5);
		std::string cls = "sphere";
		if(kind == 0)
		{
			int a = (int)g.range(0, 2);
			n	  = Vector({0.0, 0.0, 0.0});
			n[a]  = g.coin() ? 1.0 : -1.0;
			cls	  = "coordinate";
		}
		else if(kind == 1)
		{
			n	= Vector({g.uni(-1, 1) * 1e-12, g.uni(-1, 1) * 1e-12, g.coin() ? 1.0 : -1.0});
			cls = "nearz";
		}
		else
			n = Vector({g.gauss(), g.gauss(), g.gauss()});
		double len = g.logu(1e-6, 1e6);
		n		   = (len / n.Norm()) * n;
		Vector nh  = n.Normalized();
		intent("Rotation_Matrix " + cls);
		Matrix Rm = Rotation_Matrix(alpha, 3, n), Rb = Rotation_Matrix(beta, 3, n), Rab = Rotation_Matrix(alpha + beta, 3, n);
		bool fin  = true;
		for(int a = 0; a < 3; a++)
			for(int b = 0; b < 3; b++)
				fin = fin && std::isfinite(Rm[a][b]);
		// R^T R = I, det = 1
		Matrix P	 = Rm.Transpose() * Rm;
		double ortho = 0;
		for(int a = 0; a < 3; a++)
			for(int b = 0; b < 3; b++)
				ortho = std::max(ortho, std::fabs(P[a][b] - (a == b)));
		obs("orthogonal", cls, ortho, 16 * EPS, fin);
		obs("det", cls, Rm.Determinant() - 1.0, 16 * EPS, fin);
		// axis fixed
		Vector Rn = Rm * nh;
		obs("axisfixed", cls, (Rn - nh).Norm(), 16 * EPS, fin);
		// composition
		Matrix C = Rm * Rb;
		double comp = 0;
		for(int a = 0; a < 3; a++)
			for(int b = 0; b < 3; b++)
				comp = std::max(comp, std::fabs(C[a][b] - Rab[a][b]));
		obs("compose", cls, comp, 64 * EPS, fin);
		// perpendicular vectors turn by alpha, right-handed
		Vector v({g.gauss(), g.gauss(), g.gauss()});
		v		  = g.logu(1e-3, 1e3) * v;
		Vector vp = v - dot3(v, nh) * nh;
		double vv = dot3(vp, vp);
		if(vv > 1e-6 * dot3(v, v))
		{
			Vector w = Rm * vp;
			obs("turncos", cls, dot3(w, vp) - vv * std::cos(alpha), 64 * EPS * vv, fin);
			obs("turnsin", cls, dot3(nh, cross3(vp, w)) - vv * std::sin(alpha), 64 * EPS * vv, fin);
		}
		// 2D rotation
		Matrix R2 = Rotation_Matrix(alpha, 2);
		double c2 = std::fabs(R2[0][0] * R2[0][0] + R2[1][0] * R2[1][0] - 1.0) + std::fabs(R2[0][0] * R2[0][1] + R2[1][0] * R2[1][1]) + std::fabs(R2.Determinant() - 1.0);
		// counter-clockwise: (1,0) -> (cos, sin)
		c2 += std::fabs(R2[0][0] - std::cos(alpha)) + std::fabs(R2[1][0] - std::sin(alpha));
		obs("rot2d", cls, c2, 16 * EPS);
	}
	int nsph = quick ? 3000 : 60000;
	for(int i = 0; i < nsph; i++)
	{
		double r = g.logu(1e-6, 1e6), th = g.uni(0, PI), ph = g.uni(0, 2 * PI);
		if(i % 9 == 0)
			th = (i % 2) ? 0.0 : PI;
		if(i % 11 == 0)
			th = PI / 2;
		// plain
		intent("Spherical_Coordinates plain");
		Vector x = Spherical_Coordinates(r, th, ph);
		double pl = std::fabs(x[0] - r * std::sin(th) * std::cos(ph)) + std::fabs(x[1] - r * std::sin(th) * std::sin(ph)) + std::fabs(x[2] - r * std::cos(th));
		obs("plain", "plain", pl, 8 * EPS * r);
		// with axis
		Vector n(3);
		int kind		= (int)g.range(0, 6);
		std::string cls = "sphere";
		if(kind == 0)
		{
			int a = (int)g.range(0, 2);
			n	  = Vector({0.0, 0.0, 0.0});
			n[a]  = g.coin() ? 1.0 : -1.0;
			cls	  = "coordinate";
		}
		else if(kind == 1)
		{
			double e = g.logu(1e-16, 1e-6);
			n		 = Vector({g.uni(-1, 1) * e, g.uni(-1, 1) * e, g.coin() ? 1.0 : -1.0});
			cls		 = "nearz";
		}
		else if(kind == 2)
		{
			n	= Vector({0.0, 0.0, g.coin() ? 1.0 : -1.0});
			cls = "exactz";
		}
		else
			n = Vector({g.gauss(), g.gauss(), g.gauss()});
		n		  = (g.logu(1e-6, 1e6) / n.Norm()) * n;
		Vector nh = n.Normalized();
		intent("Spherical_Coordinates axis " + cls);
		Vector v  = Spherical_Coordinates(r, th, ph, n);
		bool fin  = std::isfinite(v[0]) && std::isfinite(v[1]) && std::isfinite(v[2]);
		obs("norm", cls, v.Norm() / r - 1.0, 1e-12, fin);
		obs("polar", cls, dot3(v, nh) / r - std::cos(th), 1e-12, fin);
		// right-handed advance in phi
		if(std::sin(th) > 1e-3)
		{
			double d  = 0.3;
			Vector v2 = Spherical_Coordinates(r, th, ph + d, n);
			bool fin2 = fin && std::isfinite(v2[0]);
			double tr = dot3(nh, cross3(v, v2)) / (r * r);	 // = sin^2(theta) sin(d)
			obs("handed", cls, tr - std::sin(th) * std::sin(th) * std::sin(d), 1e-11, fin2);
		}
	}
	T.flush();
	finished();
	return 0;
}
