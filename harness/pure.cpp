// Pure calls (spec/Pure.tla, Trace_Pure.tla): every free function of the library that takes only values is a function of its
// arguments -- the result of a call does not depend on the calls made before it in the same process.
//     pure <group> <seed> <tier> <trace>
// The parent process never calls the library.  For every (function, argument tuple) of the group
//   Fresh : the call made as the FIRST library call of a forked child            -> the reference value
//   Call  : the same calls in a long random interleaving inside ONE child         -> must reproduce the reference bit for bit
// A group is the set of functions one property talks about (plus the functions they are built on).
#include <complex>

#include "common.hpp"
#include "libphysica/Integration.hpp"
#include "libphysica/Linear_Algebra.hpp"
#include "libphysica/Natural_Units.hpp"
#include "libphysica/Numerics.hpp"
#include "libphysica/Special_Functions.hpp"
#include "libphysica/Statistics.hpp"
#include "libphysica/Utilities.hpp"

using namespace vf;
using namespace libphysica;
using namespace libphysica::natural_units;
typedef std::vector<double> V;

struct Entry
{
	std::string fn;							  // name of the function (and spelling)
	std::string groups;						  // property ids it belongs to, e.g. "C06 C07"; a trailing "@family" names functions that may share hidden state
	int nargs;								  // number of argument tuples
	std::function<V(int)> call;				  // evaluates argument tuple k
};

static V cv(std::complex<double> z) { return {z.real(), z.imag()}; }
static V cvv(const std::vector<std::complex<double>>& z)
{
	V o;
	for(auto& c : z)
	{
		o.push_back(c.real());
		o.push_back(c.imag());
	}
	return o;
}
static V mv(const Matrix& M)
{
	V o = {(double)M.Rows(), (double)M.Columns()};
	for(unsigned i = 0; i < M.Rows(); i++)
		for(unsigned j = 0; j < M.Columns(); j++)
			o.push_back(M[i][j]);
	return o;
}
static V vv(const Vector& v)
{
	V o;
	for(unsigned i = 0; i < v.Size(); i++)
		o.push_back(v[i]);
	return o;
}
static Matrix testmat(int k)
{
	static const std::vector<std::vector<std::vector<double>>> M = {
		// symmetric, eigenvalues well separated in magnitude (graded diagonals)
		{{2, 1}, {1, -0.5}},
		{{8, 1, 0}, {1, 2, 0.5}, {0, 0.5, -0.4}},
		{{20, 2, 1, 0}, {2, 5, 0, 0.5}, {1, 0, -1.2, 0.2}, {0, 0.5, 0.2, 0.25}},
		{{1, 0.5, 0.25}, {0.5, 4, 0.125}, {0.25, 0.125, 16}},
		{{50, 1, 2, 0.5, 0.1}, {1, -12, 1, 0.2, 0.3}, {2, 1, 3, 0.1, 0.2}, {0.5, 0.2, 0.1, 0.7, 0.05}, {0.1, 0.3, 0.2, 0.05, -0.15}}};
	return Matrix(M[k % M.size()]);
}

static std::vector<Entry> table()
{
	std::vector<Entry> T;
	auto add = [&](const char* fn, const char* groups, int n, std::function<V(int)> f) { T.push_back({fn, groups, n, f}); };
	// ---------------------------------------------------------------- gamma family (C06), used by the distributions (C07)
	static const unsigned FN[] = {0, 1, 5, 20, 21, 100, 170};
	add("Factorial", "C06 C07 @fact", 7, [](int k) { return V{Factorial(FN[k])}; });
	static const int BN[][2] = {{5, 2}, {30, 15}, {67, 30}, {170, 85}, {171, 3}, {400, 200}, {10, 0}, {10, 10}, {6, 3}, {21, 10}, {22, 11}, {101, 50}};
	add("Binomial_Coefficient", "C06 C07 @fact", 12, [](int k) { return V{Binomial_Coefficient(BN[k][0], BN[k][1])}; });
	static const double GX[] = {0.5, 1.0, 3.5, 15.0, 17.5, 29.0, 31.5, 43.0, 150.0, 164.0, 1.0e-3};
	add("GammaLn", "C06 C07 @gamma", 11, [](int k) { return V{GammaLn(GX[k])}; });
	add("Gamma", "C06 C07 @gamma", 9, [](int k) { return V{Gamma(GX[k])}; });
	static const double PA[][2] = {{0.5, 0.5}, {2.0, 3.0}, {30.0, 3.0}, {2.0, 30.0}, {105.0, 101.0}, {90.0, 101.0}, {150.0, 150.0}, {99.0, 100.0}, {101.0, 100.5}, {400.0, 380.0}, {1e-3, 2.0}};
	add("GammaP", "C06 C07 @gamma", 11, [](int k) { return V{GammaP(PA[k][0], PA[k][1])}; });
	add("GammaQ", "C06 C07 @gamma", 11, [](int k) { return V{GammaQ(PA[k][0], PA[k][1])}; });
	add("Upper_Incomplete_Gamma", "C06", 4, [](int k) { return V{Upper_Incomplete_Gamma(PA[k][0], PA[k][1])}; });
	add("Lower_Incomplete_Gamma", "C06", 4, [](int k) { return V{Lower_Incomplete_Gamma(PA[k][0], PA[k][1])}; });
	static const double IP[][2] = {{0.5, 0.5}, {0.1, 3.0}, {0.9, 3.0}, {0.99999, 2.0}, {1e-6, 30.0}, {0.5, 101.0}, {0.3, 0.7}};
	add("Inv_GammaP", "C06 C07 @gamma", 7, [](int k) { return V{Inv_GammaP(IP[k][0], IP[k][1])}; });
	add("Inv_GammaQ", "C06 C07 @gamma", 7, [](int k) { return V{Inv_GammaQ(IP[k][0], IP[k][1])}; });
	static const double EP[] = {-0.999, -0.5, 0.0, 1e-8, 0.3, 0.9, 0.999999};
	add("Inv_Erf", "C06 C07 C17", 7, [](int k) { return V{Inv_Erf(EP[k])}; });
	// ---------------------------------------------------------------- scalars and harmonics (C17)
	static const double DX[] = {-3.0, -1.3, -0.21, -0.05, 0.0, 0.05, 0.19, 0.21, 0.4, 1.3, 3.0, 12.0};   // +-pairs: same magnitude, other sign
	add("Dawson_Integral", "C17 @dawson", 12, [](int k) { return V{Dawson_Integral(DX[k])}; });
	add("Erfi", "C17 @dawson", 12, [](int k) { return V{Erfi(DX[k])}; });
	static const double RN[][2] = {{2.5, 1}, {-2.5, 1}, {123456.789, 3}, {-0.000123456, 2}, {0.0, 3}, {9.9995, 4}, {1e-300, 2}, {-19.1, 1}};
	add("Round", "C17 C20", 8, [](int k) { return V{Round(RN[k][0], (unsigned)RN[k][1])}; });
	add("Sign/Step/RelDiff", "C17", 8, [](int k) { return V{(double)Sign(RN[k][0]), Sign(RN[k][0], -RN[k][1]), StepFunction(RN[k][0]), Relative_Difference(RN[k][0], RN[k][1]), (double)Floats_Equal(RN[k][0], RN[k][1])}; });
	static const int LM[][2] = {{0, 0}, {1, 0}, {1, 1}, {1, -1}, {2, 1}, {3, -3}, {4, 2}, {5, -3}, {6, 6}};
	add("Spherical_Harmonics", "C17", 9, [](int k) { return cv(Spherical_Harmonics(LM[k][0], LM[k][1], 0.7 + 0.1 * k, 1.9 - 0.2 * k)); });
	add("Vector_Spherical_Harmonics_Y", "C17", 9, [](int k) { return cvv(Vector_Spherical_Harmonics_Y(LM[k][0], LM[k][1], 0.7 + 0.1 * k, 1.9 - 0.2 * k)); });
	add("Vector_Spherical_Harmonics_Psi", "C17", 9, [](int k) { return cvv(Vector_Spherical_Harmonics_Psi(LM[k][0], LM[k][1], 0.7 + 0.1 * k, 1.9 - 0.2 * k)); });
	// ---------------------------------------------------------------- distributions (C07)
	static const double XS[] = {-2.0, -0.3, 0.0, 0.4, 1.0, 2.5, 7.0, 40.0};
	add("Uniform", "C07", 8, [](int k) { return V{PDF_Uniform(XS[k], -1.0, 2.5), CDF_Uniform(XS[k], -1.0, 2.5)}; });
	add("Gauss", "C07", 8, [](int k) { return V{PDF_Gauss(XS[k], 0.5, 1.5), CDF_Gauss(XS[k], 0.5, 1.5)}; });
	add("Quantile_Gauss", "C07", 7, [](int k) { return V{Quantile_Gauss(0.5 * (EP[k] + 1.0), 0.5, 1.5)}; });
	static const unsigned BT[][2] = {{0, 0}, {5, 2}, {30, 30}, {170, 85}, {170, 0}, {100, 37}};
	add("Binomial", "C07 @fact", 6, [](int k) { return V{PMF_Binomial(BT[k][0], 0.3, BT[k][1]), CDF_Binomial(BT[k][0], 0.3, BT[k][1])}; });
	static const double PM[][2] = {{0.5, 0}, {3.0, 2}, {3.0, 10}, {50.0, 100}, {90.0, 101}, {120.0, 101}, {300.0, 260}, {1e-3, 1}};
	add("Poisson", "C07", 8, [](int k) { return V{PMF_Poisson(PM[k][0], (unsigned)PM[k][1]), CDF_Poisson(PM[k][0], (unsigned)PM[k][1])}; });
	static const double IC[][2] = {{0, 0.1}, {3, 0.05}, {3, 0.95}, {99, 0.5}, {100, 0.5}, {150, 0.1}, {5, 1e-9}};
	add("Inv_CDF_Poisson", "C07", 7, [](int k) { return V{Inv_CDF_Poisson((unsigned)IC[k][0], IC[k][1])}; });
	static const double CS[][2] = {{0.5, 1}, {3.0, 2}, {10.0, 7.5}, {190.0, 201}, {210.0, 201}, {400.0, 390}, {1e-3, 0.5}};
	add("Chi_Square", "C07", 7, [](int k) { return V{PDF_Chi_Square(CS[k][0], CS[k][1]), CDF_Chi_Square(CS[k][0], CS[k][1])}; });
	add("Chi_Bar_Square", "C07", 7, [](int k) { std::vector<double> w = {0.2, 0.5, 0.3}; return V{PDF_Chi_Bar_Square(CS[k][0], w), CDF_Chi_Bar_Square(CS[k][0], w)}; });
	add("Exponential/MB", "C07", 8, [](int k) { return V{PDF_Exponential(XS[k], 2.0), CDF_Exponential(XS[k], 2.0), PDF_Maxwell_Boltzmann(XS[k], 1.3), CDF_Maxwell_Boltzmann(XS[k], 1.3)}; });
	static const double LK[][3] = {{3.0, 0, 0.2}, {3.0, 5, 0.0}, {0.5, 2, 1.5}, {40.0, 37, 3.0}};
	add("Likelihood_Poisson", "C07", 4, [](int k) { return V{Likelihood_Poisson(LK[k][0], (unsigned long)LK[k][1], LK[k][2]), Log_Likelihood_Poisson(LK[k][0], (unsigned long)LK[k][1], LK[k][2])}; });
	add("Likelihood_Poisson_Binned", "C07", 3, [](int k) {
		std::vector<double> s = {1.0 + k, 2.5, 0.3}, b = {0.2, 0.0, 1.0 * k};
		std::vector<unsigned long> o = {2, 3, (unsigned long)k};
		return V{Likelihood_Poisson_Binned(s, o, b), Log_Likelihood_Poisson_Binned(s, o, b), Likelihood_Poisson_Binned(s, o), Log_Likelihood_Poisson_Binned(s, o)};
	});
	// ---------------------------------------------------------------- quadrature (C03, C12, C13)
	// (order, interval): the same order on several intervals, several orders on the same interval, intervals of equal length elsewhere
	static const double GI[][3] = {{1, -1, 1}, {2, -1, 1}, {3, -1, 1}, {4, -1, 1}, {7, -1, 1}, {8, -1, 1}, {30, -1, 1}, {31, -1, 1}, {6, 0, 1}, {6, 2, 3}, {6, 0, 2}, {30, 0, 1}, {30, 2, 3},
								   {40, 0, 1}, {5, 0, 1}, {64, -3, 5}, {65, -3, 5}, {6, 1e-20, 3e-20}, {6, 1e6, 3e6},
								   {6, -1, 0}, {6, -1, 2}, {30, -1, 0}, {30, -1, 1}, {30, 0, 0}};	// (limits equal to 0: the value a "last argument" static starts with)
	add("Compute_Gauss_Legendre_Roots_and_Weights", "C12 C13 @gl", 23, [](int k) {
		V o;
		for(auto& r : Compute_Gauss_Legendre_Roots_and_Weights((unsigned)GI[k][0], GI[k][1], GI[k][2]))
			for(double x : r)
				o.push_back(x);
		return o;
	});
	add("Integrate_Gauss_Legendre(n)", "C12 C13 @gl", 24, [](int k) { return V{Integrate_Gauss_Legendre([](double x) { return 1.0 / (1.0 + x * x); }, GI[k][1], GI[k][2], (unsigned)GI[k][0])}; });
	static const char* ME[] = {"Trapezoidal", "Gauss-Legendre", "Gauss-Kronrod", "Tanh-Sinh", "Gauss-Legendre_2", "Adaptive-Simpson"};
	static const int MP[] = {0, 5, 6, 31, 40, 3};
	add("Integrate(method)", "C13 C12", 36, [](int k) {
		int m = k % 6, p = MP[(k / 6) % 6];
		if(m == 0 && p > 20)
			p = 6;
		return V{Integrate([](double x) { return std::exp(-0.5 * x) * std::cos(x); }, -0.5 + 0.1 * (k % 5), 2.0 + 0.3 * (k % 3), std::string(ME[m]), p)};
	});
	add("Integrate(GL2, intervals)", "C13 C12 @gl", 12, [](int k) {
		static const double IV[][3] = {{0, 1, 0}, {2, 3, 0}, {0, 1, 6}, {2, 3, 6}, {0, 2, 6}, {5, 6, 0}, {-1, 0, 40}, {0, 1, 40}, {-1, 2, 0}, {-1, 0, 0}, {-1, 2, 6}, {-1, 0, 6}};
		return V{Integrate([](double x) { return 1.0 / (1.0 + x * x); }, IV[k][0], IV[k][1], "Gauss-Legendre_2", (int)IV[k][2]),
				 Integrate([](double x) { return 1e-30 / (1.0 + x * x); }, IV[k][0], IV[k][1], "Adaptive-Simpson", 0)};
	});
	add("Integrate_2D(method)", "C13", 12, [](int k) {
		int m = 1 + (k % 5), p = MP[(k / 5) % 3];
		return V{Integrate_2D([](double x, double y) { return std::exp(-0.3 * x) * (1.0 + y * y); }, 0.0, 1.0 + 0.2 * (k % 3), -1.0, 0.5, std::string(ME[m]), p)};
	});
	add("Integrate_3D(method)", "C13", 6, [](int k) {
		static const char* M3[] = {"Gauss-Legendre", "Gauss-Legendre_2", "Gauss-Kronrod"};
		return V{Integrate_3D([](double x, double y, double z) { return x * x + y * z + 1.0; }, 0.0, 1.0, -1.0, 0.5 + 0.1 * k, 2.0, 3.0, std::string(M3[k % 3]), k < 3 ? 0 : 6)};
	});
	add("Integrate(eps)", "C03", 8, [](int k) {
		double eps = std::pow(10.0, -3.0 - k);
		return V{Integrate([](double x) { return 1.0 / (1.0 + x * x); }, -1.0 + 0.1 * k, 2.0, eps), Find_Epsilon([](double x) { return std::sin(x) + 2.0; }, 0.0, 1.0 + k, 1e-6)};
	});
	// ---------------------------------------------------------------- root finding and minimisation (C02, C11)
	add("Find_Root", "C02", 8, [](int k) {
		double c = 0.3 + 0.4 * k;
		return V{Find_Root([c](double x) { return x * x * x - c; }, 0.0, 3.0 + k, std::pow(10.0, -4.0 - k)), Find_Root([c](double x) { return std::atan(x - c); }, -5.0, 8.0, 1e-9)};
	});
	add("Find_Minimum/Maximum", "C11", 6, [](int k) {
		double c = -1.0 + 0.7 * k;
		return V{Find_Minimum([c](double x) { return std::cosh(0.5 * (x - c)); }, c - 3.0, c + 0.5 + k, 1e-8), Find_Maximum([c](double x) { return -(x - c) * (x - c) * (x - c) * (x - c); }, c - 1.0, c + 2.0, 1e-6)};
	});
	// ---------------------------------------------------------------- linear algebra (C04, C05, C15, C16)
	add("Determinant/Inverse", "C05 C04", 5, [](int k) {
		Matrix M = testmat(k);
		V o		 = mv(M.Inverse());
		o.push_back(M.Determinant());
		return o;
	});
	add("Product/Transpose/Trace", "C04", 5, [](int k) {
		Matrix M = testmat(k);
		V o		 = mv(M.Product(M.Transpose()));
		o.push_back(M.Trace());
		o.push_back(M.Norm());
		return o;
	});
	add("QR_Decomposition", "C15", 5, [](int k) {
		auto qr = QR_Decomposition(testmat(k));
		V o		= mv(qr.first), r = mv(qr.second);
		o.insert(o.end(), r.begin(), r.end());
		return o;
	});
	add("Eigenvalues", "C15", 5, [](int k) { return Eigenvalues(testmat(k)); });
	add("Eigensystem", "C15", 5, [](int k) {
		Matrix M = testmat(k);
		auto es	 = Eigensystem(M);
		V o		 = es.first;
		for(auto& v : es.second)
		{
			V c = vv(v);
			o.insert(o.end(), c.begin(), c.end());
		}
		return o;
	});
	static const double AX[][3] = {{0, 0, 1}, {0, 0, -1}, {1, 0, 0}, {1, 2, 3}, {1e-6, 0, 0}, {0, -2, 1e-9}, {1e3, 1e3, -1e3}};
	add("Rotation_Matrix", "C16", 7, [](int k) { return mv(Rotation_Matrix(0.3 + 0.9 * k, 3, Vector({AX[k][0], AX[k][1], AX[k][2]}))); });
	add("Rotation_Matrix(2D)", "C16", 4, [](int k) { return mv(Rotation_Matrix(-1.0 + 0.8 * k, 2)); });
	add("Spherical_Coordinates", "C16", 7, [](int k) {
		V o = vv(Spherical_Coordinates(2.0, 0.4 + 0.3 * k, 1.0 - 0.5 * k, Vector({AX[k][0], AX[k][1], AX[k][2]}))), p = vv(Spherical_Coordinates(1.5, 0.4 + 0.3 * k, 1.0 - 0.5 * k));
		o.insert(o.end(), p.begin(), p.end());
		return o;
	});
	// ---------------------------------------------------------------- helpers (C19) and units (C20)
	static const double SP[][3] = {{1, 100, 3}, {1, 100, 5}, {1, 1e4, 5}, {0.1, 100, 5}, {1, 100, 2}, {-3, 3, 7}, {-3, 3, 4}, {2, 2, 3}};
	add("Linear_Space", "C19", 8, [](int k) { return Linear_Space(SP[k][0], SP[k][1], (unsigned)SP[k][2]); });
	add("Log_Space", "C19", 5, [](int k) { return Log_Space(SP[k][0], SP[k][1], (unsigned)SP[k][2]); });
	static const int RG[][3] = {{0, 9, 1}, {0, 9, 2}, {0, 10, 2}, {13, 6, 2}, {13, 6, 1}, {-39, -40, 2}, {-3, 9, 3}, {9, -3, 3}, {5, 5, 1}};
	add("Range", "C19", 9, [](int k) {
		V o;
		for(int x : Range(RG[k][0], RG[k][1], RG[k][2]))
			o.push_back(x);
		return o;
	});
	static const unsigned WT[][2] = {{3, 17}, {3, 18}, {4, 17}, {16, 0}, {1, 5}, {128, 1024}, {7, 6}};
	add("Workload_Distribution", "C19", 7, [](int k) {
		V o;
		for(int x : Workload_Distribution(WT[k][0], WT[k][1]))
			o.push_back(x);
		return o;
	});
	add("Mean/Median/Variance/Weighted_Average", "C19", 5, [](int k) {
		std::vector<double> d = {3.0, -1.5, 2.25, 8.0, 0.5 * k, 4.0 - k, 1.0};
		d.resize(3 + k);
		std::vector<double> c = d;
		std::vector<DataPoint> w;
		for(size_t i = 0; i < d.size(); i++)
			w.push_back(DataPoint(d[i], 1.0 + 0.5 * (i % 3)));
		V wa = Weighted_Average(w);
		return V{Arithmetic_Mean(d), Median(c), Variance(d), Standard_Deviation(d), wa[0], wa[1]};
	});
	add("In_Units", "C20", 12, [](int k) {
		static const double Q[] = {1.0, 13.368461, 2.5e-7, 1e12, 0.333333333, 3.14159265};
		double q  = Q[k % 6];
		int dg	  = 1 + k / 2;
		V o		  = {In_Units(q * GeV, MeV), In_Units(q * meter, cm, true, dg), In_Units(q * sec, year), Reduced_Mass(q * GeV, 2.0 * GeV),
					 In_Units(q * GeV, GeV, true, dg), In_Units(q * GeV, GeV, false, dg), In_Units(q, 1.0, true, dg), In_Units(q * GeV * GeV, GeV * GeV, true, dg)};
		std::vector<std::vector<double>> me = {{q * kg, 2.0 * kg}, {3.0 * kg, q * gram}};
		Matrix M  = In_Units(Matrix(me), gram, true, dg);
		V m		  = mv(M);
		o.insert(o.end(), m.begin(), m.end());
		V l = In_Units(std::vector<double> {q * km, 2 * q * km}, meter, true, dg);
		o.insert(o.end(), l.begin(), l.end());
		return o;
	});
	return T;
}

static std::string bitsof(const V& v)
{
	std::string s;
	for(double x : v)
		s += hexbits(x);
	return s;
}

int main(int argc, char** argv)
{
	if(argc != 5)
	{
		std::cerr << "usage: pure <group> <seed> <tier> <trace>" << std::endl;
		return 3;
	}
	std::string group = argv[1];
	Rng g(std::strtoull(argv[2], nullptr, 10));
	bool quick = std::string(argv[3]) == "quick";
	Trace T(argv[4]);
	std::vector<Entry> all = table(), E;
	for(auto& e : all)
		if(group == "all" || e.groups.find(group) != std::string::npos)
			E.push_back(e);
	if(E.empty())
	{
		std::cerr << "no function in group " << group << std::endl;
		return 4;
	}
	// reference values: each call as the first library call of its own process
	long npairs = 0;
	for(size_t f = 0; f < E.size(); f++)
		for(int k = 0; k < E[f].nargs; k++)
		{
			ChildResult r = run_child([&]() { return bitsof(E[f].call(k)); }, 30);
			T.emit({{"e", "Fresh"}, {"fn", E[f].fn}, {"a", k}, {"ret", r.returned}, {"out", r.returned ? r.result : outcome(r)}});
			npairs++;
		}
	// two-call histories: every ordered pair of calls of the same function, and of functions of the same family (those that may
	// share a table or a cache), each pair in its own process: the second call must give the reference value
	{
		auto fam = [&](const Entry& e) { size_t p = e.groups.find('@'); return p == std::string::npos ? "=" + e.fn : e.groups.substr(p); };
		for(size_t f1 = 0; f1 < E.size(); f1++)
			for(size_t f2 = 0; f2 < E.size(); f2++)
			{
				if(fam(E[f1]) != fam(E[f2]))
					continue;
				for(int k1 = 0; k1 < E[f1].nargs; k1++)
					for(int k2 = 0; k2 < E[f2].nargs; k2++)
					{
						if(f1 == f2 && k1 == k2)
							continue;
						if(quick && fam(E[f1])[0] != '@' && ((k1 * 7 + k2 * 3 + (int)f1) % 3) != 0)
							continue;	// quick tier: a third of the same-function pairs, all pairs inside the named families
						ChildResult r = run_child([&]() { E[f1].call(k1); return bitsof(E[f2].call(k2)); }, 30);
						if(r.returned)
							T.emit({{"e", "Call"}, {"h", -1}, {"fn", E[f2].fn}, {"a", k2}, {"out", r.result}, {"after", E[f1].fn + "#" + std::to_string(k1)}});
						else
							T.emit({{"e", "Died"}, {"h", -1}, {"fn", E[f2].fn}, {"a", k2}, {"status", r.signal ? 128 + r.signal : r.status}, {"after", E[f1].fn + "#" + std::to_string(k1)}});
					}
			}
	}
	// histories: long random interleavings in one process each; a call that ends the process ends the history (logged as Died)
	int nhist = quick ? 3 : 12, len = quick ? 1200 : 4000;
	for(int h = 0; h < nhist; h++)
	{
		uint64_t hseed = g.next();
		std::string path = std::string(argv[4]) + ".h" + std::to_string(h);
		std::fflush(nullptr);
		pid_t pid		 = fork();
		if(pid == 0)
		{
			Quiet q;
			Rng r(hseed);
			Trace H(path);
			alarm(600);
			// the first history visits every pair once in a random order first (so that every pair is seen after some history)
			std::vector<std::pair<int, int>> order;
			if(h == 0)
			{
				for(size_t f = 0; f < E.size(); f++)
					for(int k = 0; k < E[f].nargs; k++)
						order.push_back({(int)f, k});
				for(size_t i = order.size(); i > 1; i--)
					std::swap(order[i - 1], order[r.range(0, (int)i - 1)]);
			}
			for(int i = 0; i < len; i++)
			{
				int f, k;
				if(i < (int)order.size())
				{
					f = order[i].first;
					k = order[i].second;
				}
				else
				{
					f = (int)r.range(0, (int)E.size() - 1);
					// histories dwell on one function for a while with probability 1/2 (caches keyed on the previous argument)
					static int lastf = 0;
					if(r.coin(0.5))
						f = lastf;
					lastf = f;
					k	  = (int)r.range(0, E[f].nargs - 1);
				}
				H.emit({{"e", "Intent"}, {"fn", E[f].fn}, {"a", k}});
				H.flush();
				std::string out = bitsof(E[f].call(k));
				H.emit({{"e", "Call"}, {"h", h}, {"fn", E[f].fn}, {"a", k}, {"out", out}});
			}
			H.flush();
			_exit(0);
		}
		int st = 0;
		waitpid(pid, &st, 0);
		// merge: Call events as they are; an Intent without its Call is a call that did not return
		std::ifstream in(path);
		std::string line, pending;
		while(std::getline(in, line))
		{
			if(line.find("\"e\":\"Intent\"") != std::string::npos)
			{
				pending = line;
				continue;
			}
			pending.clear();
			json ev = json::parse(line);
			T.emit(ev);
		}
		if(!pending.empty())
		{
			json iv = json::parse(pending);
			T.emit({{"e", "Died"}, {"h", h}, {"fn", iv["fn"]}, {"a", iv["a"]}, {"status", WIFEXITED(st) ? WEXITSTATUS(st) : 128 + WTERMSIG(st)}});
		}
		std::remove(path.c_str());
	}
	T.flush();
	return 0;
}
