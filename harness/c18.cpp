// C18 — samplers.  record <seed> <tier> <trace>
//   Sample : one call of a sampling function on a caller-owned std::mt19937 with the digests of the generator state
//            before and after and of the outputs; every call is issued twice (on a copy of the generator, possibly
//            at another point of the run, after other samplers were interleaved), so that the memo of
//            spec/Samplers.tla is consulted.
//   Count  : the (sample, thinning, burn-in) grid of Sample_Metropolis / _2D.
//   Law    : goodness of fit of large samples (KS / chi-square), p-value exponent.
#include "common.hpp"
#include "libphysica/Statistics.hpp"

#include <boost/math/distributions/poisson.hpp>
#include <boost/math/special_functions/gamma.hpp>
#include <random>

using namespace vf;
using namespace libphysica;

static uint64_t fnv(const std::string& s)
{
	uint64_t h = 1469598103934665603ULL;
	for(unsigned char c : s)
	{
		h ^= c;
		h *= 1099511628211ULL;
	}
	return h;
}
static std::string gdig(const std::mt19937& g)
{
	std::ostringstream o;
	o << g;
	char buf[24];
	std::snprintf(buf, sizeof buf, "%016" PRIx64, fnv(o.str()));
	return buf;
}
static std::string vdig(const std::vector<double>& v)
{
	std::string s;
	for(double x : v)
		s += hexbits(x);
	char buf[24];
	std::snprintf(buf, sizeof buf, "%016" PRIx64, fnv(s));
	return buf;
}

struct Call
{
	std::string fn, par;
	int nreq;
	std::function<std::vector<double>(std::mt19937&)> run;	 // returns the outputs (flattened)
	std::function<bool(const std::vector<double>&)> insup;
	int per = 1;	// doubles per sample
};

static Call make_call(Rng& g)
{
	Call C;
	int k = (int)g.range(0, 8);
	std::ostringstream p;
	if(k == 0)
	{
		double a = g.uni(-10, 10), b = a + g.logu(1e-3, 1e3);
		C.fn = "Uniform";
		p << hexbits(a) << hexbits(b);
		C.nreq	= 1;
		C.run	= [a, b](std::mt19937& G) { return std::vector<double>{Sample_Uniform(G, a, b)}; };
		C.insup = [a, b](const std::vector<double>& v) { return v[0] >= a && v[0] <= b; };
	}
	else if(k == 1)
	{
		double m = g.uni(-5, 5), s = g.logu(1e-3, 1e3);
		C.fn = "Gauss";
		p << hexbits(m) << hexbits(s);
		C.nreq	= 1;
		C.run	= [m, s](std::mt19937& G) { return std::vector<double>{Sample_Gauss(G, m, s)}; };
		C.insup = [](const std::vector<double>& v) { return std::isfinite(v[0]); };
	}
	else if(k == 2)
	{
		double mu = g.coin(0.2) ? g.uni(500, 5000) : g.logu(1e-2, 600);
		C.fn = "Poisson";
		p << hexbits(mu);
		C.nreq	= 1;
		C.run	= [mu](std::mt19937& G) { return std::vector<double>{(double)Sample_Poisson(G, mu)}; };
		C.insup = [](const std::vector<double>& v) { return v[0] >= 0 && v[0] == std::floor(v[0]); };
	}
	else if(k == 3)
	{
		int n = (int)g.range(1, 5);
		std::vector<double> mus;
		for(int i = 0; i < n; i++)
			mus.push_back(g.logu(1e-2, 100));
		C.fn = "PoissonVec";
		for(double m : mus)
			p << hexbits(m);
		C.nreq	= n;
		C.run	= [mus](std::mt19937& G) { auto r = Sample_Poisson(G, mus); return std::vector<double>(r.begin(), r.end()); };
		C.insup = [](const std::vector<double>& v) { for(double x : v) if(x < 0) return false; return true; };
	}
	else if(k == 4)
	{	// inverse transform: exponential CDF truncated to [0, xmax]
		double lam = g.logu(0.1, 10), xmax = g.uni(1, 8) / lam;
		C.fn = "InvTransform";
		p << hexbits(lam) << hexbits(xmax);
		C.nreq = 1;
		C.run  = [lam, xmax](std::mt19937& G) {
			 double nrm = 1.0 - std::exp(-lam * xmax);
			 std::function<double(double)> cdf = [lam, nrm](double x) { return (1.0 - std::exp(-lam * x)) / nrm; };
			 return std::vector<double>{Inverse_Transform_Sampling(cdf, 0.0, xmax, G)};
		};
		C.insup = [xmax](const std::vector<double>& v) { return v[0] >= 0 && v[0] <= xmax; };
	}
	else if(k == 5)
	{	// rejection sampling: triangular / parabolic density, envelope tight or loose
		double a = g.uni(-3, 3), w = g.logu(0.1, 10), loose = g.coin() ? 1.0 : g.uni(1.0, 5.0);
		C.fn = "Rejection";
		p << hexbits(a) << hexbits(w) << hexbits(loose);
		C.nreq = 1;
		C.run  = [a, w, loose](std::mt19937& G) {
			 std::function<double(double)> pdf = [a, w](double x) { double t = (x - a) / w; return 6.0 * t * (1.0 - t) / w; };
			 return std::vector<double>{Rejection_Sampling(pdf, a, a + w, loose * 1.5 / w, G)};
		};
		C.insup = [a, w](const std::vector<double>& v) { return v[0] >= a && v[0] <= a + w; };
	}
	else if(k == 6)
	{
		double a = g.uni(-3, 3), w = g.logu(0.1, 10), c = g.uni(-3, 3), h = g.logu(0.1, 10);
		C.fn = "Rejection2D";
		p << hexbits(a) << hexbits(w) << hexbits(c) << hexbits(h);
		C.nreq = 1;
		C.per  = 2;
		C.run  = [a, w, c, h](std::mt19937& G) {
			 std::function<double(double, double)> pdf = [a, w, c, h](double x, double y) { double t = (x - a) / w, u = (y - c) / h; return 4.0 * t * u / (w * h); };
			 auto r = Rejection_Sampling_2D(G, pdf, a, a + w, c, c + h, 4.0 / (w * h));
			 return std::vector<double>{r.first, r.second};
		};
		C.insup = [a, w, c, h](const std::vector<double>& v) { return v[0] >= a && v[0] <= a + w && v[1] >= c && v[1] <= c + h; };
	}
	else if(k == 7)
	{
		unsigned sample = (unsigned)g.range(0, 30), thin = (unsigned)g.range(1, 6), burn = (unsigned)g.range(0, 20);
		bool bounded = g.coin();
		double sig = g.logu(0.2, 3.0), lo = g.uni(-3, 0), hi = g.uni(0.5, 3);
		// target: 0 smooth and positive everywhere; 1 compact support inside the domain (zero density at most starting points);
		// 2 a narrow peak whose tails underflow to zero
		int pv = (int)g.range(0, 2);
		double pc = lo + (hi - lo) * g.uni(0.3, 0.7), pw = (hi - lo) * g.uni(0.05, 0.2);
		C.fn = "Metropolis";
		p << sample << "/" << thin << "/" << burn << "/" << bounded << hexbits(sig) << hexbits(lo) << hexbits(hi) << "/" << pv << hexbits(pc) << hexbits(pw);
		C.nreq = (int)sample;
		C.run  = [=](std::mt19937& G) {
			 std::function<double(double)> pdf = [=](double x) {
				 if(pv == 1)
					 return std::max(0.0, 1.0 - std::fabs(x - pc) / pw);
				 if(pv == 2)
					 return std::exp(-0.5 * (x - pc) * (x - pc) / (1e-4 * pw * pw));
				 return std::exp(-0.5 * x * x) + 0.3 * std::exp(-2.0 * (x - 1.5) * (x - 1.5));
			 };
			 return Sample_Metropolis(G, pdf, sig, sample, thin, burn, bounded ? std::vector<double>{lo, hi} : std::vector<double>{});
		};
		C.insup = [=](const std::vector<double>& v) { for(double x : v) if(!std::isfinite(x) || (bounded && (x < lo || x > hi))) return false; return true; };
	}
	else
	{
		unsigned sample = (unsigned)g.range(0, 20), thin = (unsigned)g.range(1, 5), burn = (unsigned)g.range(0, 15);
		bool bounded = g.coin();
		double s1 = g.logu(0.2, 3.0), s2 = g.logu(0.2, 3.0);
		int pv = (int)g.range(0, 1);	// 1: compact support (a disc of radius 0.4 around (0.5, 0.3)) inside the domain
		C.fn = "Metropolis2D";
		p << sample << "/" << thin << "/" << burn << "/" << bounded << hexbits(s1) << hexbits(s2) << "/" << pv;
		C.nreq = (int)sample;
		C.per  = 2;
		C.run  = [=](std::mt19937& G) {
			 std::function<double(double, double)> pdf = [=](double x, double y) {
				 if(pv == 1)
					 return std::max(0.0, 0.16 - (x - 0.5) * (x - 0.5) - (y - 0.3) * (y - 0.3));
				 return std::exp(-0.5 * (x * x + (y - 0.5) * (y - 0.5) / 0.25));
			 };
			 auto r = Sample_Metropolis_2D(G, pdf, {s1, s2}, sample, thin, burn, bounded ? std::vector<double>{-2, 2, -1, 2} : std::vector<double>{});
			 std::vector<double> o;
			 for(auto& q : r)
			 {
				 o.push_back(q.first);
				 o.push_back(q.second);
			 }
			 return o;
		};
		C.insup = [=](const std::vector<double>& v) {
			for(size_t i = 0; i + 1 < v.size(); i += 2)
				if(!std::isfinite(v[i]) || (bounded && (v[i] < -2 || v[i] > 2 || v[i + 1] < -1 || v[i + 1] > 2)))
					return false;
			return true;
		};
	}
	C.par = p.str();
	return C;
}

static json do_call(const Call& C, std::mt19937& G)
{
	std::string before = gdig(G);
	intent(C.fn);
	std::vector<double> out = C.run(G);
	return {{"e", "Sample"}, {"fn", C.fn}, {"par", C.par}, {"before", before}, {"after", gdig(G)}, {"out", vdig(out)},
			{"n", (int)(out.size() / C.per)}, {"nreq", C.nreq}, {"insup", C.insup(out)}, {"consumes", !(C.fn.find("Metropolis") == 0 && false)}};
}

// ---- goodness of fit
static int pexp_of(double p) { return p <= 0 ? -400 : (int)std::floor(std::log10(p)); }
static double ks_p(std::vector<double> u)	// u = CDF(sample) should be uniform on [0,1]
{
	std::sort(u.begin(), u.end());
	double n = (double)u.size(), d = 0;
	for(size_t i = 0; i < u.size(); i++)
		d = std::max(d, std::max(std::fabs((i + 1) / n - u[i]), std::fabs(u[i] - i / n)));
	double lam = (std::sqrt(n) + 0.12 + 0.11 / std::sqrt(n)) * d, s = 0;
	for(int j = 1; j <= 100; j++)
		s += 2.0 * ((j % 2) ? 1 : -1) * std::exp(-2.0 * j * j * lam * lam);
	return std::min(1.0, std::max(0.0, s));
}
static double chi2_p(double chi2, double dof) { return boost::math::gamma_q(0.5 * dof, 0.5 * chi2); }
static double Phi(double z) { return 0.5 * std::erfc(-z / 1.4142135623730951); }

int main(int argc, char** argv)
{
	guard_install(3300);
	if(argc != 5 || std::string(argv[1]) != "record")
	{
		finished();
		return 3;
	}
	Rng g(std::strtoull(argv[2], nullptr, 10));
	bool quick = std::string(argv[3]) == "quick";
	Trace T(argv[4]);
	Quiet* quiet = new Quiet();
	// ---- (1) reproducibility: interleavings of different samplers on one generator; every call repeated on a copy of the generator
	int nseq = quick ? 300 : 3000;
	for(int s = 0; s < nseq; s++)
	{
		std::mt19937 G((unsigned)g.range(1, 2000000000));
		int warm = (int)g.range(0, 700);
		G.discard(warm);
		std::vector<std::pair<Call, std::mt19937>> later;
		int len = (int)g.range(3, 12);
		for(int i = 0; i < len; i++)
		{
			Call C			 = make_call(g);
			std::mt19937 cpy = G;	  // same state
			T.emit(do_call(C, G));
			if(g.coin(0.5))
				T.emit(do_call(C, cpy));	// immediately, on the copy
			else
				later.push_back({C, cpy});	  // later, after other samplers have run
		}
		for(auto& pr : later)
			T.emit(do_call(pr.first, pr.second));
	}
	// ---- (2) burn-in / thinning grid
	{
		std::function<double(double)> pdf			= [](double x) { return std::exp(-0.5 * x * x); };
		std::function<double(double, double)> pdf2 = [](double x, double y) { return std::exp(-0.5 * (x * x + y * y)); };
		std::mt19937 G(12345);
		auto one = [&](unsigned sample, unsigned thin, unsigned burn) {
			intent("Sample_Metropolis grid");
			bool bounded = (sample + thin + burn) % 2;
			auto r1		 = Sample_Metropolis(G, pdf, 1.0, sample, thin, burn, bounded ? std::vector<double>{-1.0, 2.0} : std::vector<double>{});
			auto r2		 = Sample_Metropolis_2D(G, pdf2, {1.0, 0.7}, sample, thin, burn, bounded ? std::vector<double>{-1.0, 2.0, -3.0, 0.5} : std::vector<double>{});
			bool in		 = true;
			if(bounded)
			{
				for(double x : r1)
					in = in && x >= -1.0 && x <= 2.0;
				for(auto& q : r2)
					in = in && q.first >= -1.0 && q.first <= 2.0 && q.second >= -3.0 && q.second <= 0.5;
			}
			T.emit({{"e", "Count"}, {"sample", sample}, {"thin", thin}, {"burn", burn}, {"n", r1.size()}, {"n2", r2.size()}, {"insup", in}});
		};
		unsigned GM = quick ? 8 : 12;
		for(unsigned sample = 0; sample <= GM; sample++)
			for(unsigned thin = 1; thin <= GM; thin++)
				for(unsigned burn = 0; burn <= GM; burn++)
					one(sample, thin, burn);
		int nsparse = quick ? 150 : 3000;
		for(int i = 0; i < nsparse; i++)
			one((unsigned)g.range(0, quick ? 60 : 200), (unsigned)g.range(1, quick ? 40 : 200), (unsigned)g.range(0, 200));
	}
	// ---- (3) laws
	{
		int N = quick ? 100000 : 1000000;
		std::mt19937 G((unsigned)g.range(1, 2000000000));
		auto law = [&](const std::string& fn, double p, int n) { T.emit({{"e", "Law"}, {"fn", fn}, {"pexp", pexp_of(p)}, {"nsamp", n}}); };
		{	// uniform
			double a = -2.5, b = 7.25;
			std::vector<double> u;
			for(int i = 0; i < N; i++)
				u.push_back((Sample_Uniform(G, a, b) - a) / (b - a));
			law("Uniform", ks_p(u), N);
		}
		{	// gauss
			double m = 1.5, s = 0.3;
			std::vector<double> u;
			for(int i = 0; i < N; i++)
				u.push_back(Phi((Sample_Gauss(G, m, s) - m) / s));
			law("Gauss", ks_p(u), N);
		}
		for(double mu : {0.05, 3.7, 48.0, 700.0, 2300.0})
		{	// Poisson: chi-square against the mass function (bins merged to expected >= 10)
			int n = mu > 500 ? N / 4 : N;
			std::map<long, long> cnt;
			for(int i = 0; i < n; i++)
				cnt[(long)Sample_Poisson(G, mu)]++;
			boost::math::poisson_distribution<double> P(mu);
			long kmax = (long)(mu + 12 * std::sqrt(mu) + 20);
			double chi2 = 0, accE = 0;
			long accO = 0;
			int bins  = 0;
			for(long k = 0; k <= kmax; k++)
			{
				accE += n * boost::math::pdf(P, (double)k);
				accO += cnt.count(k) ? cnt[k] : 0;
				if(accE >= 10.0)
				{
					chi2 += (accO - accE) * (accO - accE) / accE;
					bins++;
					accE = 0;
					accO = 0;
				}
			}
			// tail beyond kmax and leftovers
			long rest = 0;
			for(auto& kv : cnt)
				if(kv.first > kmax)
					rest += kv.second;
			accO += rest;
			accE += n * (1.0 - boost::math::cdf(P, (double)kmax));
			if(accE > 0)
			{
				chi2 += (accO - accE) * (accO - accE) / std::max(accE, 1.0);
				bins++;
			}
			law("Poisson", bins > 1 ? chi2_p(chi2, bins - 1) : 1.0, n);
		}
		{	// inverse transform: truncated exponential
			double lam = 1.7, xmax = 3.0, nrm = 1.0 - std::exp(-lam * xmax);
			std::function<double(double)> cdf = [=](double x) { return (1.0 - std::exp(-lam * x)) / nrm; };
			std::vector<double> u;
			for(int i = 0; i < N / 4; i++)
				u.push_back(cdf(Inverse_Transform_Sampling(cdf, 0.0, xmax, G)));
			law("InvTransform", ks_p(u), N / 4);
		}
		for(double loose : {1.0, 4.0})
		{	// rejection 1D: density 6 t (1-t) on [a, a+w]; CDF 3t^2 - 2t^3
			double a = -1.0, w = 2.5;
			std::function<double(double)> pdf = [=](double x) { double t = (x - a) / w; return 6.0 * t * (1.0 - t) / w; };
			std::vector<double> u;
			for(int i = 0; i < N / 2; i++)
			{
				double t = (Rejection_Sampling(pdf, a, a + w, loose * 1.5 / w, G) - a) / w;
				u.push_back(3 * t * t - 2 * t * t * t);
			}
			law("Rejection", ks_p(u), N / 2);
		}
		{	// rejection 1D with a window wider than the support: triangular density on [0,2] sampled on [-1,3] (the density is exactly
			// zero on half of the window: an ordinary rejection, not an error)
			std::function<double(double)> pdf = [](double x) { return std::max(0.0, 1.0 - std::fabs(x - 1.0)); };
			auto cdf = [](double x) { return x <= 1.0 ? 0.5 * x * x : 1.0 - 0.5 * (2.0 - x) * (2.0 - x); };
			std::vector<double> u;
			bool insup = true;
			intent("Rejection_Sampling on a window wider than the support");
			for(int i = 0; i < N / 4; i++)
			{
				double x = Rejection_Sampling(pdf, -1.0, 3.0, 1.0, G);
				insup	 = insup && x >= 0.0 && x <= 2.0;
				u.push_back(cdf(std::min(2.0, std::max(0.0, x))));
			}
			law("RejectionZeros", insup ? ks_p(u) : 0.0, N / 4);
		}
		{	// Metropolis 1D, target with compact support [-1,1] inside the domain [-4,4]: most chains start where the density is zero
			std::function<double(double)> pdf = [](double x) { return std::max(0.0, 1.0 - std::fabs(x)); };
			auto cdf = [](double x) { return x <= 0.0 ? 0.5 * (1.0 + x) * (1.0 + x) : 1.0 - 0.5 * (1.0 - x) * (1.0 - x); };
			std::vector<double> u;
			bool insup = true;
			unsigned nper = quick ? 300 : 2000;
			intent("Sample_Metropolis with a compact-support target");
			for(int chain = 0; chain < 10; chain++)
				// (a step width small against the distance to the support: the chain has to walk there through the zero-density region)
				for(double x : Sample_Metropolis(G, pdf, 0.25, nper, 40, 4000, std::vector<double> {-4.0, 4.0}))
				{
					insup = insup && x >= -1.0 && x <= 1.0;	  // after the burn-in the chain is inside the support
					u.push_back(cdf(std::min(1.0, std::max(-1.0, x))));
				}
			law("MetropolisCompact", insup ? ks_p(u) : 0.0, (int)(10 * nper));
		}
		{	// rejection 2D: density 4 t u: marginals have CDF t^2, u^2
			double a = 0.5, w = 2.0, c = -1.0, h = 0.5;
			std::function<double(double, double)> pdf = [=](double x, double y) { double t = (x - a) / w, u = (y - c) / h; return 4.0 * t * u / (w * h); };
			std::vector<double> u1, u2;
			for(int i = 0; i < N / 2; i++)
			{
				auto r	 = Rejection_Sampling_2D(G, pdf, a, a + w, c, c + h, 4.0 / (w * h));
				double t = (r.first - a) / w, u = (r.second - c) / h;
				u1.push_back(t * t);
				u2.push_back(u * u);
			}
			law("Rejection2D", std::min(ks_p(u1), ks_p(u2)), N / 2);
		}
		for(int bounded = 0; bounded < 2; bounded++)
		{	// Metropolis 1D: standard normal (truncated to [-1, 2] when bounded); heavy thinning makes the draws nearly independent
			std::function<double(double)> pdf = [](double x) { return std::exp(-0.5 * x * x); };
			unsigned n = quick ? 30000 : 150000;
			auto r	   = Sample_Metropolis(G, pdf, 2.0, n, 30, 500, bounded ? std::vector<double>{-1.0, 2.0} : std::vector<double>{});
			std::vector<double> u;
			double lo = bounded ? Phi(-1.0) : 0.0, hi = bounded ? Phi(2.0) : 1.0;
			for(double x : r)
				u.push_back((Phi(x) - lo) / (hi - lo));
			law(bounded ? "MetropolisBounded" : "Metropolis", ks_p(u), (int)n);
		}
		for(int bounded = 0; bounded < 2; bounded++)
		{	// Metropolis 2D: independent normals with different widths
			// (enough draws to see a stationary law that is depleted by a few per cent near the edges of the domain: a proposal that is
			// redrawn until it falls inside, instead of being rejected, shifts the marginals by D = 0.02..0.04)
			std::function<double(double, double)> pdf = [](double x, double y) { return std::exp(-0.5 * (x * x + y * y / 0.25)); };
			unsigned n = quick ? 30000 : 150000;
			auto r	   = Sample_Metropolis_2D(G, pdf, {1.5, 0.8}, n, 30, 500, bounded ? std::vector<double>{-1.0, 2.0, -0.5, 1.0} : std::vector<double>{});
			std::vector<double> u1, u2;
			double l1 = bounded ? Phi(-1.0) : 0, h1 = bounded ? Phi(2.0) : 1, l2 = bounded ? Phi(-1.0) : 0, h2 = bounded ? Phi(2.0) : 1;
			for(auto& q : r)
			{
				u1.push_back((Phi(q.first) - l1) / (h1 - l1));
				u2.push_back((Phi(q.second / 0.5) - l2) / (h2 - l2));
			}
			law(bounded ? "Metropolis2DBounded" : "Metropolis2D", std::min(ks_p(u1), ks_p(u2)), (int)n);
		}
	}
	T.flush();
	delete quiet;
	finished();
	return 0;
}
