// C09 — conformance harness for the index search / history independence of Interpolation.
//   replay <vectors.ndjson> : every transition of the TLC state graph of MC_Locate is driven
//                             through the public Locate() of a real object (spec -> code)
//   record <seed> <tier> <out.ndjson> : long random call histories on used objects, each answer
//                             compared with a freshly constructed object (code -> spec)
#include "libphysica/Numerics.hpp"
#include "tables.hpp"

using namespace vf;
using libphysica::Interpolation;
using libphysica::Interpolation_2D;

static bool segok(int N, int p, int j)
{
	if(j < 0 || j > N - 2)
		return false;
	if(p == 0)
		return j == 0;
	if(p == 2 * N)
		return j == N - 2;
	return 2 * j + 1 <= p && p <= 2 * j + 3;
}

static int replay(const std::string& path)
{
	guard_install(600);
	auto cases = read_ndjson(path);
	Rng g(12345);
	long n = 0, sfail = 0, drift = 0;
	json fails = json::array(), drifts = json::array();
	for(auto& c : cases)
	{
		int N = c["N"];
		for(int variant = 0; variant < 2; variant++)
		{
			Table t;
			t.x.resize(N);
			t.y.resize(N);
			if(variant == 0)
				for(int i = 0; i < N; i++)
				{
					t.x[i] = i;
					t.y[i] = (i * 7) % 5 - 2;
				}
			else
				t = random_table(g, N, 1, 4);
			intent("replay N=" + std::to_string(N) + " path=" + c["path"].dump());
			Interpolation I(t.x, t.y);
			int j = -1, p = -1;
			size_t k = 0;
			for(auto& pc : c["path"])
			{
				p		 = pc;
				double x = point_of(t, p, (int)(n + k), &g);
				p		 = code_of(t, x);	// (adjacent doubles may leave no interior point)
				j		 = (int)I.Locate(x);
				k++;
				// every call on the way is an S-check as well
				if(!segok(N, p, j) && fails.size() < 50)
					fails.push_back({{"N", N}, {"path", c["path"]}, {"at", k}, {"p", p}, {"j", j}, {"variant", variant}});
				if(!segok(N, p, j))
					sfail++;
			}
			n++;
			if(p == (int)c["p"] && j != (int)c["j"])
			{
				drift++;
				if(drifts.size() < 20)
					drifts.push_back({{"N", N}, {"path", c["path"]}, {"p", p}, {"j", j}, {"model_j", c["j"]}});
			}
		}
	}
	finished();
	json out = {{"cases", n}, {"sfail", sfail}, {"drift", drift}, {"fails", fails}, {"drifts", drifts}};
	std::cout << out.dump() << std::endl;
	return 0;
}

// ------------------------------------------------------------------------------------------- recorder
struct PfOp
{
	bool set;
	double f;
};
struct Obj
{
	Interpolation I;
	std::vector<PfOp> ops;
	int sg = 1;
};

static double query(Interpolation& I, const std::string& kind, double x, double x2)
{
	if(kind == "I")
		return I.Interpolate(x);
	if(kind == "Op")
		return I(x);
	if(kind == "D0")
		return I.Derivative(x, 0);
	if(kind == "D1")
		return I.Derivative(x, 1);
	if(kind == "D2")
		return I.Derivative(x, 2);
	if(kind == "D3")
		return I.Derivative(x, 3);
	if(kind == "D4")
		return I.Derivative(x, 4);
	if(kind == "Int")
		return I.Integrate(x, x2);
	if(kind == "LMin")
		return I.Local_Minimum(x, x2);
	if(kind == "LMax")
		return I.Local_Maximum(x, x2);
	if(kind == "GMin")
		return I.Global_Minimum();
	if(kind == "GMax")
		return I.Global_Maximum();
	std::cerr << "bad kind " << kind << std::endl;
	std::_Exit(3);
}

static Interpolation fresh_of(const Table& t, const std::vector<PfOp>& ops)
{
	Interpolation F(t.x, t.y);
	for(auto& o : ops)
		if(o.set)
			F.Set_Prefactor(o.f);
		else
			F.Multiply(o.f);
	return F;
}

// relation of u to the unit-prefactor answer f1: u == sg * 2^ex * f1 exactly ?
static void pow2_relation(double u, double f1, int& sg, int& ex)
{
	if(f1 == 0.0 && u == 0.0)
	{
		sg = 0;
		ex = 0;
		return;
	}
	if(std::fabs(f1) < 1e-280 || std::fabs(u) < 1e-280)
	{
		sg = 0;	  // zero / subnormal range: scaling by a power of two is no longer exact (or says nothing)
		ex = 0;
		return;
	}
	if(std::isnan(u) || std::isnan(f1) || std::isinf(u) || std::isinf(f1))
	{
		sg = 2;
		ex = 0;
		return;
	}
	double ratio = u / f1;
	sg			 = ratio > 0 ? 1 : -1;
	ex			 = std::ilogb(std::fabs(ratio));
	if(u != sg * std::ldexp(f1, ex))
		sg = 2;
}

static double local_scale(const Table& t, const std::string& kind, int p, int p2, double pfabs)
{
	int N		= t.N();
	auto seg_of = [&](int q) { int k = (q <= 1) ? 0 : (q - 1) / 2; return std::min(std::max(k, 0), N - 2); };
	int a = seg_of(std::min(p, p2)), b = seg_of(std::max(p, p2));
	int lo = std::max(a - 1, 0), hi = std::min(b + 2, N - 1);
	double ym = 0, hmin = INFINITY, width = t.x[hi] - t.x[lo];
	for(int i = lo; i <= hi; i++)
		ym = std::max(ym, std::fabs(t.y[i]));
	for(int i = lo; i < hi; i++)
		hmin = std::min(hmin, t.x[i + 1] - t.x[i]);
	if(ym == 0)
		ym = 1e-300;
	double s = ym;
	if(kind == "D1")
		s = ym / hmin;
	else if(kind == "D2")
		s = ym / hmin / hmin;
	else if(kind == "D3")
		s = ym / hmin / hmin / hmin;
	else if(kind == "Int")
		s = ym * width;
	return s * pfabs;
}

static void one_execution(Trace& T, Rng& g, int N, int steps, bool is2d)
{
	const int K = 3;
	if(is2d)
	{
		int Nx = std::max(2, N), Ny = (int)g.range(2, std::max(2, std::min(N, 40)));
		if(g.coin())
			std::swap(Nx, Ny);	 // wide and tall tables alike
		if(Nx < 3)
			Nx = 3;	  // the helper 1D objects need three points on the pinned tree
		if(Ny < 3)
			Ny = 3;
		Table tx = random_table(g, Nx, -1, 0), ty = random_table(g, Ny, -1, 0);
		std::vector<std::vector<double>> f(Nx, std::vector<double>(Ny));
		double mag = std::pow(10.0, g.uni(-5, 5));
		for(auto& r : f)
			for(auto& v : r)
				v = g.gauss() * mag;
		T.emit({{"e", "Reset"}, {"N", Nx}, {"K", K}, {"dim", 2}, {"Ny", Ny}});
		std::vector<Interpolation_2D> objs;
		std::vector<std::vector<PfOp>> ops(K);
		intent("construct 2D");
		for(int o = 0; o < K; o++)
			objs.emplace_back(tx.x, ty.x, f);
		int px = 2, py = 2;
		for(int s = 0; s < steps; s++)
		{
			int o	 = (int)g.range(0, K - 1);
			double r = g.u01();
			if(r < 0.04)
			{
				int d = (int)g.range(0, K - 1);
				if(d != o)
				{
					objs[d] = objs[o];
					ops[d]	= ops[o];
					T.emit({{"e", "Copy"}, {"src", o + 1}, {"dst", d + 1}});
				}
				continue;
			}
			if(r < 0.08)
			{
				int e	 = (int)g.range(-6, 6);
				int sg	 = g.coin(0.3) ? -1 : 1;
				bool set = g.coin();
				double f_ = sg * std::ldexp(1.0, e);
				if(set)
					objs[o].Set_Prefactor(f_);
				else
					objs[o].Multiply(f_);
				ops[o].push_back({set, f_});
				T.emit({{"e", set ? "SetPf" : "Mul"}, {"o", o + 1}, {"sg", sg}, {"ex", e}});
				continue;
			}
			auto move = [&](int p, int n) {
				double m = g.u01();
				if(m < 0.25)
					return (int)g.range(0, 2 * n);
				if(m < 0.55)
					return (int)std::min<int64_t>(2 * n, p + g.range(0, 3));
				if(m < 0.8)
					return (int)std::max<int64_t>(0, p - g.range(0, 3));
				if(m < 0.9)
					return (int)(2 * g.range(0, n - 1) + 1);
				return g.coin() ? (g.coin() ? 0 : 1) : (g.coin() ? 2 * n : 2 * n - 1);
			};
			if(g.coin(0.08))
			{	// the extrema over the whole domain scale with the prefactor as well (a negative one exchanges minimum and maximum)
				bool wantmax = g.coin();
				intent("2D global extremum");
				double u = wantmax ? objs[o].Global_Maximum() : objs[o].Global_Minimum();
				Interpolation_2D F(tx.x, ty.x, f);
				double umin = F.Global_Minimum(), umax = F.Global_Maximum();
				double pfac = 1.0;
				for(auto& op : ops[o])
				{
					if(op.set)
					{
						F.Set_Prefactor(op.f);
						pfac = op.f;
					}
					else
					{
						F.Multiply(op.f);
						pfac *= op.f;
					}
				}
				double fr = wantmax ? F.Global_Maximum() : F.Global_Minimum();
				double f1 = (pfac < 0) == wantmax ? umin : umax;	 // the extremum of the unscaled table that becomes this one
				int sg, ex;
				pow2_relation(fr, f1, sg, ex);
				T.emit({{"e", "Q"}, {"o", o + 1}, {"kind", wantmax ? "GMax2" : "GMin2"}, {"p", 0}, {"q", 0}, {"knot", false}, {"same", bits(u) == bits(fr)}, {"r", 0}, {"sg", sg}, {"ex", ex}});
				continue;
			}
			if(g.coin(0.12))
			{	// a jump between two cells that a flattened cell number with a wrong stride (N_x, N_y, or one less, in either role) would
				// identify: one cell up in one direction, a stride down in the other
				int strides[4] = {Nx, Ny, Nx - 1, Ny - 1};
				int st = strides[g.range(0, 3)], sgn1 = g.coin() ? 1 : -1;
				int npx = px, npy = py;
				if(g.coin())
				{
					npx = px + 2 * sgn1;
					npy = py - 2 * sgn1 * st;
				}
				else
				{
					npy = py + 2 * sgn1;
					npx = px - 2 * sgn1 * st;
				}
				if(npx >= 1 && npx <= 2 * Nx - 1 && npy >= 1 && npy <= 2 * Ny - 1)
				{
					px = npx;
					py = npy;
				}
				else
				{
					px = move(px, Nx);
					py = move(py, Ny);
				}
			}
			else
			{
				px = move(px, Nx);
				py = move(py, Ny);
			}
			double x = point_of(tx, px, (int)g.range(0, 3), &g), y = point_of(ty, py, (int)g.range(0, 3), &g);
			px = code_of(tx, x);
			py = code_of(ty, y);
			intent("2D Interpolate px=" + std::to_string(px) + " py=" + std::to_string(py));
			double u = g.coin() ? objs[o].Interpolate(x, y) : objs[o](x, y);
			Interpolation_2D F(tx.x, ty.x, f);
			double f1 = F.Interpolate(x, y);
			for(auto& op : ops[o])
				if(op.set)
					F.Set_Prefactor(op.f);
				else
					F.Multiply(op.f);
			double fr = F.Interpolate(x, y);
			int sg, ex;
			pow2_relation(fr, f1, sg, ex);
			double pfabs = (f1 != 0 && fr != 0) ? std::fabs(fr / f1) : 1.0;
			bool knot	 = (px % 2 == 1) || (py % 2 == 1);
			T.emit({{"e", "Q"}, {"o", o + 1}, {"kind", "I2"}, {"p", px}, {"q", py}, {"knot", knot}, {"same", bits(u) == bits(fr)},
					{"r", quant(u - fr, 64 * 2.2e-16 * mag * 4 * pfabs)}, {"sg", sg}, {"ex", ex}});
		}
		return;
	}

	Table t = random_table(g, N);
	T.emit({{"e", "Reset"}, {"N", N}, {"K", K}, {"dim", 1}});
	std::vector<Obj> objs;
	intent("construct 1D N=" + std::to_string(N));
	for(int o = 0; o < K; o++)
	{
		if(o == 1)
		{
			std::vector<std::vector<double>> rows;
			for(int i = 0; i < N; i++)
				rows.push_back({t.x[i], t.y[i]});
			objs.push_back({Interpolation(rows), {}, 1});
		}
		else
			objs.push_back({Interpolation(t.x, t.y), {}, 1});
	}
	static const std::vector<std::string> kinds = {"I", "I", "I", "Op", "D0", "D1", "D1", "D2", "D3", "D4", "Int", "Int", "LMin", "LMax", "GMin", "GMax"};
	std::vector<int> pos(K, 2);
	for(int s = 0; s < steps; s++)
	{
		int o	 = (int)g.range(0, K - 1);
		double r = g.u01();
		if(r < 0.03)
		{
			int d = (int)g.range(0, K - 1);
			if(d != o)
			{
				intent("copy");
				int variant = (int)g.range(0, 2);
				if(variant == 0)
					objs[d] = objs[o];
				else
				{
					Obj c(objs[o]);
					if(variant == 2)
					{	// c is built from the table itself (an original, not a copy) and brought to the state of objs[o] ...
						c.I = Interpolation(t.x, t.y);
						for(auto& op : objs[o].ops)
						{
							if(op.set)
								c.I.Set_Prefactor(op.f);
							else
								c.I.Multiply(op.f);
						}
					}
					objs[d] = c;
					if(variant == 2)
					{	// the object copied from then gets ANOTHER table of the same size (its storage is reused in place) and is destroyed:
						// a copy is independent of what happens to its source afterwards
						std::vector<double> x2 = t.x, y2 = t.y;
						for(int i = 0; i < N; i++)
						{
							x2[i] = t.x[i] + (i + 1 < N ? 0.5 * (t.x[i + 1] - t.x[i]) : 0.5 * (t.x[i] - t.x[i - 1]));
							y2[i] = -3.0 * t.y[N - 1 - i] + 1.0;
						}
						Interpolation other(x2, y2);
						c.I = other;
						volatile double touch = c.I.Interpolate(x2[N / 2]);
						(void)touch;
					}
				}
				pos[d] = pos[o];
				T.emit({{"e", "Copy"}, {"src", o + 1}, {"dst", d + 1}});
			}
			continue;
		}
		if(r < 0.06)
		{
			int e	  = (int)g.range(-20, 20);
			int sg	  = g.coin(0.3) ? -1 : 1;
			bool set  = g.coin();
			double f_ = sg * std::ldexp(1.0, e);
			if(set)
			{
				objs[o].I.Set_Prefactor(f_);
				objs[o].sg = sg;
			}
			else
			{
				objs[o].I.Multiply(f_);
				objs[o].sg *= sg;
			}
			objs[o].ops.push_back({set, f_});
			T.emit({{"e", set ? "SetPf" : "Mul"}, {"o", o + 1}, {"sg", sg}, {"ex", e}});
			continue;
		}
		// a request outside the domain (beyond the 1% tolerance) stops the program whatever the object went through before: asked of the
		// object as it is now, in a child process
		if(g.coin(0.02))
		{
			bool upper = g.coin();
			double h   = upper ? t.x[N - 1] - t.x[N - 2] : t.x[1] - t.x[0];
			double xo  = upper ? t.x[N - 1] + h * g.uni(0.011, 0.5) : t.x[0] - h * g.uni(0.011, 0.5);
			if(std::fabs(xo) > 1e-3 * 0 && ((upper && !(xo > t.x[N - 1] + 0.0105 * h)) || (!upper && !(xo < t.x[0] - 0.0105 * h))))
				continue;	// (rounding ate the margin)
			int what   = (int)g.range(0, 2);
			ChildResult rr = run_child([&]() {
				double v = what == 0 ? objs[o].I.Interpolate(xo) : (what == 1 ? objs[o].I.Derivative(xo, 1) : (double)objs[o].I.Locate(xo));
				return std::to_string(v);
			}, 10);
			std::string oc = outcome(rr);
			T.emit({{"e", "Outside"}, {"o", o + 1}, {"upper", upper}, {"what", what}, {"ret", rr.returned}, {"diag", oc == "exit_diag"}, {"mem", oc == "signal" || oc == "memerror" || oc == "timeout"}});
			continue;
		}
		// next position: far jump / correlated steps in both directions / knots / ends / zones
		int p	 = pos[o];
		double m = g.u01();
		if(m < 0.15)
			p = (int)g.range(0, 2 * N);
		else if(m < 0.5)
			p = (int)std::min<int64_t>(2 * N, p + g.range(0, 4));
		else if(m < 0.8)
			p = (int)std::max<int64_t>(0, p - g.range(0, 4));
		else if(m < 0.9)
			p = (int)(2 * g.range(0, N - 1) + 1);
		else if(m < 0.95)
			p = g.coin() ? 1 : 2 * N - 1;
		else
			p = g.coin() ? 0 : 2 * N;
		double x = point_of(t, p, (int)g.range(0, 3), &g);
		p		 = code_of(t, x);
		pos[o]	 = p;
		if(g.coin(0.25))
		{
			intent("Locate p=" + std::to_string(p) + " N=" + std::to_string(N));
			int j = (int)objs[o].I.Locate(x);
			T.emit({{"e", "Locate"}, {"o", o + 1}, {"p", p}, {"j", j}});
			continue;
		}
		std::string kind = g.pick(kinds);
		if((kind[0] == 'L' || kind[0] == 'G') && objs[o].sg < 0)
			kind = "I";	  // extrema under negative prefactors belong to C08
		int p2	  = p;
		double x2 = x;
		if(kind == "Int" || kind[0] == 'L')
		{
			p2 = g.coin(0.5) ? (int)g.range(0, 2 * N) : (int)std::min<int64_t>(2 * N, p + g.range(0, 6));
			x2 = point_of(t, p2, (int)g.range(0, 3), &g);
			p2 = code_of(t, x2);
			if(kind[0] == 'L' && x2 < x)
			{
				std::swap(x, x2);
				std::swap(p, p2);
			}
		}
		intent(kind + " p=" + std::to_string(p) + " q=" + std::to_string(p2) + " N=" + std::to_string(N));
		double u		= query(objs[o].I, kind, x, x2);
		Interpolation F = fresh_of(t, objs[o].ops);
		double fr		= query(F, kind, x, x2);
		Interpolation F1(t.x, t.y);
		double f1 = query(F1, kind, x, x2);
		int sg, ex;
		pow2_relation(fr, f1, sg, ex);
		double pfabs = 1.0;
		for(auto& op : objs[o].ops)
			pfabs = op.set ? std::fabs(op.f) : pfabs * std::fabs(op.f);
		bool knot = (p % 2 == 1) || ((kind == "Int" || kind[0] == 'L') && p2 % 2 == 1);
		T.emit({{"e", "Q"}, {"o", o + 1}, {"kind", kind}, {"p", p}, {"q", p2}, {"knot", knot}, {"same", bits(u) == bits(fr)},
				{"r", quant(u - fr, 64 * 2.2e-16 * local_scale(t, kind, p, p2, pfabs))}, {"sg", sg}, {"ex", ex}});
	}
}

static int record(uint64_t seed, const std::string& tier, const std::string& out)
{
	guard_install(1200);
	Trace T(out);
	Rng g(seed);
	bool quick = tier == "quick";
	int execs  = quick ? 60 : 400;
	for(int e = 0; e < execs; e++)
	{
		int N;
		double r = g.u01();
		if(r < 0.3)
			N = (int)g.range(3, 6);
		else if(r < 0.7)
			N = (int)g.range(7, 40);
		else if(r < 0.93)
			N = (int)g.range(41, 300);
		else
			N = (int)g.range(301, 2000);
		int steps = quick ? 250 : (int)g.range(300, 4000);
		if(N > 300)
			steps = std::min(steps, 600);
		one_execution(T, g, N, steps, e % 6 == 5);
		T.flush();
	}
	finished();
	return 0;
}

int main(int argc, char** argv)
{
	std::string mode = argc > 1 ? argv[1] : "";
	if(mode == "replay" && argc == 3)
		return replay(argv[2]);
	if(mode == "record" && argc == 5)
		return record(std::strtoull(argv[2], nullptr, 10), argv[3], argv[4]);
	std::cerr << "usage: c09 replay <vectors> | record <seed> <tier> <out>" << std::endl;
	return 3;
}
