// Prints every unit constant of libphysica::natural_units with the value of its defining product of base constants,
// computed at run time from kg, meter, sec, Coulomb, ... as seen by THIS build (compiler / optimisation level).
// Built several ways by checks/c20.py together with src/Natural_Units.cpp; output: name, bits, bits of the defining product.
#include <cinttypes>
#include <cmath>
#include <cstdio>
#include <cstring>
#include "libphysica/Natural_Units.hpp"
using namespace libphysica::natural_units;
static void out(const char* name, double v, double def)
{
	uint64_t a, b;
	std::memcpy(&a, &v, 8);
	std::memcpy(&b, &def, 8);
	std::printf("%s %016" PRIx64 " %016" PRIx64 "\n", name, a, b);
}
int main()
{
	// volatile copies: the defining products must be formed at run time from what the objects hold
	volatile double vkg = kg, vm = meter, vs = sec, vC = Coulomb, vg = gram, vcm = cm, vJ = Joule, vN = Newton, vV = Volt, vA = Ampere, vT = Tesla, vPa = Pa;
	double KG = vkg, M = vm, S = vs, C = vC, G = vg, CM = vcm, J = vJ, N = vN, V = vV, A = vA, Te = vT, P = vPa;
	out("kg", kg, 1.0e3 * G);
	out("meter", meter, 1.0e2 * CM);
	out("sec", sec, 299792458.0 * M);
	out("Joule", Joule, KG * std::pow(M / S, 2));
	out("erg", erg, G * std::pow(CM / S, 2));
	out("erg_SI", erg, 1.0e-7 * J);
	out("cal", cal, 4.184 * J);
	out("Newton", Newton, KG * M / S / S);
	out("dyne", dyne, 1.0e-5 * N);
	out("Watt", Watt, J / S);
	out("Pa", Pa, N / M / M);
	out("hPa", hPa, 1.0e2 * P);
	out("kPa", kPa, 1.0e3 * P);
	out("bar", bar, 1.0e5 * P);
	out("barye", barye, 0.1 * P);
	out("Volt", Volt, J / C);
	out("VoltCoulomb", Volt * Coulomb, J);
	out("Ampere", Ampere, C / S);
	out("Farad", Farad, C / V);
	out("Ohm", Ohm, V / A);
	out("Siemens", Siemens, 1.0 / (V / A));
	out("Tesla", Tesla, (N * S) / (C * M));
	out("Gauss", Gauss, 1.0e-4 * Te);
	out("Weber", Weber, Te * M * M);
	out("Hz", Hz, 1.0 / S);
	out("ms", ms, 1.0e-3 * S);
	out("ns", ns, 1.0e-9 * S);
	out("minute", minute, 60.0 * S);
	out("hr", hr, 3600.0 * S);
	out("day", day, 86400.0 * S);
	out("week", week, 604800.0 * S);
	out("year", year, 31557600.0 * S);
	out("mm", mm, 1.0e-3 * M);
	out("km", km, 1.0e3 * M);
	out("fm", fm, 1.0e-15 * M);
	out("inch", inch, 0.0254 * M);
	out("foot", foot, 0.3048 * M);
	out("yard", yard, 0.9144 * M);
	out("mile", mile, 1609.344 * M);
	out("Angstrom", Angstrom, 1.0e-10 * M);
	out("tonne", tonne, 1.0e3 * KG);
	out("barn", barn, 1.0e-28 * M * M);
	out("hectare", hectare, 1.0e4 * M * M);
	out("eV", eV, 1.0e-9 * GeV);
	out("MeV", MeV, 1.0e-3 * GeV);
	return 0;
}
