// C02 — Find_Root.  record <seed> <tier> <trace>
// Every call is made with a wrapped function that logs each evaluation. After the call the abscissae of the
// execution (ends, evaluations, returned point) are ranked; the trace carries ranks and signs, which is the
// vocabulary of spec/Ridder.tla (positions on an ordered grid, function known through its sign).
// The accuracy clause is witnessed by the function's own signs at x-acc and x+acc (clamped to the bracket)
// and, where the generator planted the roots, by the distance to the nearest planted root.
#include "common.hpp"
#include "libphysica/Numerics.hpp"
#include "libphysica/Special_Functions.hpp"

#include <map>

using namespace vf;
static const double EPS = 2.220446049250313e-16;

struct Problem
{
	std::string fam;
	std::function<double(double)> f;
	double lo, hi;
	std::vector<double> roots;	 // planted roots inside [lo,hi] (empty: unknown)
	bool exactroots = false;	 // f(root) == 0 exactly and root is the exact root of the computed function
	bool linear		= false;
};

static double ulp_of(double x) { return std::nextafter(std::fabs(x), INFINITY) - std::fabs(x); }

static Problem make_problem(Rng& g)
{
	Problem P;
	int fam = (int)g.range(0, 10);
	auto pick_bracket_around = [&](double r, double scale, double& lo, double& hi) {
		double wl = scale * g.logu(1e-6, 1.0), wr = scale * g.logu(1e-6, 1.0);
		if(g.coin(0.2))
			wl = scale * g.logu(1e-9, 1e-6);
		lo = r - wl;
		hi = r + wr;
	};
	if(fam == 0)
	{	// linear
		double m = (g.coin() ? 1 : -1) * g.logu(1e-6, 1e6), r = (g.coin() ? 1 : -1) * g.logu(1e-8, 1e8);
		if(g.coin(0.15))
			r = 0.0;
		P.fam = "linear";
		P.f	  = [m, r](double x) { return m * (x - r); };
		pick_bracket_around(r, std::max(1.0, std::fabs(r)) * g.logu(1e-3, 1e4), P.lo, P.hi);
		P.roots		 = {r};
		P.exactroots = true;
		P.linear	 = true;
	}
	else if(fam == 1)
	{	// power laws x^p - c on brackets spanning many decades
		static const double ps[] = {0.5, 2.0, 3.0, 5.0, 7.0, 12.0, 20.0, 1.5, 0.25, 0.05};
		double p				 = ps[g.range(0, 9)];
		double r				 = g.logu(1e-4, 1e3);
		double c				 = std::pow(r, p);
		P.fam					 = "power";
		P.f						 = [p, c](double x) { return std::pow(x, p) - c; };
		P.lo					 = g.coin(0.5) ? 0.0 : r * g.logu(1e-9, 0.9);
		P.hi					 = r * g.logu(1.1, 1e6);
		P.roots					 = {r};
	}
	else if(fam == 2)
	{	// monotone g(x) - g(r)
		int w	 = (int)g.range(0, 4);
		double k = g.logu(1e-3, 1e3), r = (g.coin() ? 1 : -1) * g.logu(1e-3, 1e3) / k;
		std::function<double(double)> gg;
		if(w == 0)
			gg = [k](double x) { return std::atan(k * x); };
		else if(w == 1)
			gg = [k](double x) { return std::tanh(k * x); };
		else if(w == 2)
			gg = [k](double x) { double t = k * x; return t * t * t; };
		else if(w == 3)
			gg = [k](double x) { return std::exp(std::min(k * x, 600.0)); };
		else
			gg = [k](double x) { return std::erf(k * x); };
		if((w == 1 || w == 4) && std::fabs(k * r) > 5.0)
			r = (g.coin() ? 1 : -1) * g.uni(0.01, 5.0) / k;	  // keep the root where tanh/erf are not flat to rounding
		if(w == 3 && std::fabs(k * r) > 500.0)
			r = g.uni(-500.0, 500.0) / k;
		double gr = gg(r);
		P.fam	  = "monotone" + std::to_string(w);
		P.f		  = [gg, gr](double x) { return gg(x) - gr; };
		pick_bracket_around(r, g.logu(1e-2, 1e3) / k, P.lo, P.hi);
		P.roots		 = {r};
		P.exactroots = true;
	}
	else if(fam == 3)
	{	// odd number of simple roots: product form
		int nr = g.coin() ? 3 : 5;
		std::vector<double> rs;
		double c = g.uni(-10, 10), s = g.logu(1e-2, 1e2);
		for(int i = 0; i < nr; i++)
			rs.push_back(c + s * g.uni(-1, 1));
		std::sort(rs.begin(), rs.end());
		P.fam = "multi";
		P.f	  = [rs](double x) { double v = 1; for(double r : rs) v *= (x - r); return v; };
		P.lo	= rs.front() - s * g.logu(1e-3, 10);
		P.hi	= rs.back() + s * g.logu(1e-3, 10);
		P.roots = rs;
		P.exactroots = true;
	}
	else if(fam == 4)
	{	// oscillating, several sign changes, roots unknown: only the sign witness applies
		double k = g.logu(0.1, 30), ph = g.uni(0, 6.28), d = g.uni(-0.5, 0.5);
		P.fam	 = "oscillating";
		P.f		 = [k, ph, d](double x) { return std::sin(k * x + ph) + d + 0.1 * x; };
		// look for a bracket with a sign change
		for(int tries = 0; tries < 200; tries++)
		{
			P.lo = g.uni(-10, 10);
			P.hi = P.lo + g.logu(1e-2, 20);
			if(P.f(P.lo) * P.f(P.hi) < 0)
				break;
		}
	}
	else if(fam == 5)
	{	// saturating CDF-like: 0.5 erfc(-(x-mu)/s) - q
		double mu = g.uni(-5, 5), s = g.logu(1e-2, 1e2), q = g.coin(0.3) ? g.logu(1e-10, 0.5) : g.uni(0.01, 0.99);
		P.fam = "cdf";
		P.f	  = [mu, s, q](double x) { return 0.5 * std::erfc(-(x - mu) / s / 1.4142135623730951) - q; };
		P.lo  = mu - s * g.logu(8, 1e3);
		P.hi  = mu + s * g.logu(8, 1e3);
	}
	else if(fam == 6)
	{	// convex / concave with inflection: x^3 + a x - b, root unknown
		double a = g.uni(-3, 3), b = g.uni(-20, 20);
		P.fam = "cubic";
		P.f	  = [a, b](double x) { return x * x * x + a * x - b; };
		P.lo  = -g.logu(4, 1e3);
		P.hi  = g.logu(4, 1e3);
	}
	else if(fam == 7)
	{	// end point is itself a zero
		double r = g.uni(-5, 5), w = g.logu(1e-3, 1e3);
		bool left = g.coin();
		bool cross = g.coin(0.3);	// with or without another sign change inside
		P.fam	   = "endzero";
		if(cross)
			P.f = [r, w, left](double x) { return (x - r) * (x - (left ? r + 0.5 * w : r - 0.5 * w)); };
		else
			P.f = [r](double x) { return (x - r) * (x - r) * ((x - r) >= 0 ? 1.0 : 1.0); };
		P.lo	= left ? r : r - w;
		P.hi	= left ? r + w : r;
		P.roots = {r};
	}
	else if(fam == 8)
	{	// flat near one end: x^p - tiny on [0, big]  (creeping iterates)
		static const double ps[] = {8.0, 12.0, 20.0, 30.0};
		double p				 = ps[g.range(0, 3)];
		double r				 = g.logu(1e-2, 1.0);
		double c				 = std::pow(r, p);
		P.fam					 = "flat";
		P.f						 = [p, c](double x) { return std::pow(x, p) - c; };
		P.lo					 = 0.0;
		P.hi					 = g.logu(2.0, 100.0);
		P.roots					 = {r};
	}
	else if(fam == 9)
	{	// wide brackets, root of order one: (x - r) / (1 + |x|)
		double r = (g.coin() ? 1 : -1) * g.logu(1e-3, 10);
		P.fam	 = "wide";
		P.f		 = [r](double x) { return (x - r) / (1.0 + std::fabs(x)); };
		P.lo	 = r - g.logu(1.0, 1e12);
		P.hi	 = r + g.logu(1.0, 1e12);
		P.roots	 = {r};
		P.exactroots = true;
	}
	else
	{	// Lennard-Jones-like / rational with a pole outside the bracket
		double r = g.logu(0.5, 5);
		P.fam	 = "rational";
		P.f		 = [r](double x) { return 1.0 / x - 1.0 / r; };
		P.lo	 = r * g.logu(1e-6, 0.9);
		P.hi	 = r * g.logu(1.1, 1e6);
		P.roots	 = {r};
		P.exactroots = true;
	}
	return P;
}

struct Exec
{
	std::vector<std::pair<double, double>> evals;	// (x, f(x)) in call order
	double ret = 0;
};

static void emit_exec(Trace& T, const Problem& P, double a, double b, double acc, const Exec& E, const std::string& bits_other, int order)
{
	double lo = std::min(a, b), hi = std::max(a, b);
	// ranks over all abscissae of the execution
	std::vector<double> xs = {lo, hi, E.ret};
	for(auto& e : E.evals)
		xs.push_back(e.first);
	std::sort(xs.begin(), xs.end());
	xs.erase(std::unique(xs.begin(), xs.end()), xs.end());
	auto rk = [&](double x) { return (int)(std::lower_bound(xs.begin(), xs.end(), x) - xs.begin()); };
	double flo = P.f(lo), fhi = P.f(hi);
	T.emit({{"e", "Call"}, {"fam", P.fam}, {"order", order}, {"n", (int)xs.size()}, {"rlo", rk(lo)}, {"rhi", rk(hi)}, {"sLo", sgn(flo)}, {"sHi", sgn(fhi)}});
	for(auto& e : E.evals)
		T.emit({{"e", "Eval"}, {"rk", rk(e.first)}, {"sg", sgn(e.second)}, {"inb", e.first >= lo && e.first <= hi}});
	// witnesses for the accuracy clause
	double x  = E.ret;
	double xl = std::max(lo, x - acc), xr = std::min(hi, x + acc);
	int sL = sgn(P.f(xl)), sR = sgn(P.f(xr)), sX = sgn(P.f(x));
	// does the function change sign (or vanish) within acc of x?  65 samples of the window [x-acc, x+acc] inside the bracket, and x itself
	bool chg = (sX == 0);
	{
		int prev = 2;
		for(int i = 0; i <= 64 && !chg; i++)
		{
			double t = xl + (xr - xl) * (i / 64.0);
			if(i == 64)
				t = xr;
			int s = sgn(P.f(t));
			if(s == 0 || (prev != 2 && s != prev) || s != sX)
				chg = true;
			prev = s;
		}
	}
	int64_t dq = -1;
	if(!P.roots.empty())
	{
		double d = INFINITY, rr = 0;
		for(double r : P.roots)
			if(std::fabs(x - r) < d)
			{
				d  = std::fabs(x - r);
				rr = r;
			}
		// planted roots are roots of the real function; the computed one may cross within a few ulps of them
		dq = quant(d, acc + (P.exactroots ? 4.0 : 64.0) * ulp_of(rr) + 4.0 * ulp_of(x));
	}
	int64_t linq = -1;
	if(P.linear)
		linq = quant(x - P.roots[0], 16.0 * ulp_of(std::max(std::fabs(lo), std::fabs(hi))));	 // exact up to the rounding of abscissae of the bracket's magnitude
	T.emit({{"e", "Return"}, {"rk", rk(x)}, {"inb", x >= lo && x <= hi}, {"sL", sL}, {"sR", sR}, {"sX", sX}, {"chg", chg}, {"dq", dq}, {"linq", linq},
			{"same", bits_other.empty() || bits_other == hexbits(x)}, {"retlo", bits(x) == bits(lo)}, {"rethi", bits(x) == bits(hi)}});
}

static Exec run_find_root(const Problem& P, double a, double b, double acc)
{
	Exec E;
	auto wrapped = [&](double x) {
		double v = P.f(x);
		E.evals.push_back({x, v});
		return v;
	};
	E.ret = libphysica::Find_Root(wrapped, a, b, acc);
	return E;
}

int main(int argc, char** argv)
{
	if(argc != 5 || std::string(argv[1]) != "record")
		return 3;
	Rng g(std::strtoull(argv[2], nullptr, 10));
	bool quick = std::string(argv[3]) == "quick";
	std::string path = argv[4];
	int ncalls = quick ? 6000 : 120000;
	{
		Trace T(path);
		T.flush();
	}
	int done = 0;
	while(done < ncalls)
	{
		int batch = std::min(500, ncalls - done);
		uint64_t bseed = g.next();
		auto body = [&](Trace& T, bool precise) {
			Rng h(bseed);
			for(int i = 0; i < batch; i++)
			{
				Problem P  = make_problem(h);
				if(h.coin(0.12))
				{	// the same function in other units: values of order 1e-200 ... 1e200 (products of two values leave the double range)
					double sc = std::pow(10.0, (h.coin() ? 1 : -1) * h.uni(100.0, 200.0));
					auto f0	  = P.f;
					double l0 = sc * f0(P.lo), h0 = sc * f0(P.hi);
					if(std::isfinite(l0) && std::isfinite(h0) && std::fabs(l0) > 1e-290 && std::fabs(h0) > 1e-290)
					{
						P.f	  = [f0, sc](double x) { return sc * f0(x); };
						P.fam = P.fam + "-scaled";
					}
				}
				double flo = P.f(P.lo), fhi = P.f(P.hi);
				if(!(P.lo < P.hi) || std::isnan(flo) || std::isnan(fhi) || sgn(flo) * sgn(fhi) > 0 || std::isinf(flo) || std::isinf(fhi))
					continue;	// not a meaningful request (rejections are exercised below and in C10)
				double width = P.hi - P.lo;
				double rootscale = P.roots.empty() ? std::max(std::fabs(P.lo), std::fabs(P.hi)) : std::fabs(P.roots[0]);
				double accmin = std::max(1e-14 * rootscale, 1e-300);
				if(!P.roots.empty() && P.roots[0] == 0.0)
					accmin = 1e-14 * width;
				double acc = h.coin(0.15) ? width * h.uni(0.1, 1.0) : h.logu(accmin, std::max(width, accmin * 2));
				if(h.coin(0.2))
					acc = accmin * h.uni(1.0, 10.0);
				int order = h.coin() ? 0 : 1;
				double a = order ? P.hi : P.lo, b = order ? P.lo : P.hi;
				auto one = [&]() {
					json out = json::array();
					Exec E1	 = run_find_root(P, a, b, acc);
					Exec E2	 = run_find_root(P, b, a, acc);
					json e1 = json::array(), e2 = json::array();
					for(auto& e : E1.evals)
						e1.push_back({hexbits(e.first), hexbits(e.second)});
					for(auto& e : E2.evals)
						e2.push_back({hexbits(e.first), hexbits(e.second)});
					out = {{"r1", hexbits(E1.ret)}, {"r2", hexbits(E2.ret)}, {"e1", e1}, {"e2", e2}};
					return out.dump();
				};
				auto unhex = [](const std::string& s) { uint64_t u = std::strtoull(s.c_str(), nullptr, 16); double d; std::memcpy(&d, &u, 8); return d; };
				if(!precise)
				{
					intent(P.fam);
					Exec E1 = run_find_root(P, a, b, acc);
					Exec E2 = run_find_root(P, b, a, acc);
					emit_exec(T, P, a, b, acc, E1, "", order);
					emit_exec(T, P, b, a, acc, E2, hexbits(E1.ret), 1 - order);
				}
				else
				{
					ChildResult r = run_child(one, 20);
					if(!r.returned)
					{
						// the library exited / crashed / hung on a bracket with a sign change: an Intent without Return
						T.emit({{"e", "Call"}, {"fam", P.fam}, {"order", order}, {"n", 2}, {"rlo", 0}, {"rhi", 1}, {"sLo", sgn(flo)}, {"sHi", sgn(fhi)}});
						T.emit({{"e", "Died"}, {"how", outcome(r)}, {"msg", (r.err + r.out).substr(0, 160)}});
						continue;
					}
					json j = json::parse(r.result);
					Exec E1, E2;
					E1.ret = unhex(j["r1"]);
					E2.ret = unhex(j["r2"]);
					for(auto& e : j["e1"])
						E1.evals.push_back({unhex(e[0]), unhex(e[1])});
					for(auto& e : j["e2"])
						E2.evals.push_back({unhex(e[0]), unhex(e[1])});
					emit_exec(T, P, a, b, acc, E1, "", order);
					emit_exec(T, P, b, a, acc, E2, hexbits(E1.ret), 1 - order);
				}
			}
		};
		if(!run_batch(path, [&](Trace& T) { body(T, false); }, 300))
		{
			Trace T(path + ".precise");
			body(T, true);
			T.flush();
			std::ifstream in(path + ".precise", std::ios::binary);
			std::ofstream out(path, std::ios::binary | std::ios::app);
			out << in.rdbuf();
			std::remove((path + ".precise").c_str());
		}
		done += batch;
	}
	// ---- rejections: no sign change, NaN ends (each in its own child)
	{
		std::ofstream out(path, std::ios::binary | std::ios::app);
		Rng h(g.next());
		int nrej = quick ? 60 : 400;
		for(int i = 0; i < nrej; i++)
		{
			int kind = (int)h.range(0, 5);
			double lo = h.uni(-10, 10), hi = lo + h.logu(1e-3, 1e3), c = h.logu(1e-3, 1e3) * (h.coin() ? 1 : -1);
			std::function<double(double)> f;
			std::string pat;
			if(kind == 0)
			{
				f	= [c](double x) { return c * (1.0 + x * x); };
				pat = c > 0 ? "++" : "--";
			}
			else if(kind == 1)
			{
				f	= [lo](double x) { return x == lo ? NAN : 1.0; };
				pat = "nan.";
			}
			else if(kind == 2)
			{
				f	= [hi](double x) { return x == hi ? NAN : -1.0; };
				pat = ".nan";
			}
			else if(kind == 3)
			{
				double m = 0.5 * (lo + hi);
				f		 = [m, c](double x) { return c * ((x - m) * (x - m) + 1e-3); };	  // dips towards zero inside, never crosses
				pat		 = c > 0 ? "++" : "--";
			}
			else if(kind == 4)
			{	// one end outside the domain of the function (NaN), the other end an exact zero: NaN ends stop the program
				f	= [lo, hi, c](double x) { return x == lo ? NAN : (x == hi ? 0.0 : c); };
				pat = "nan.0";
			}
			else
			{
				f	= [lo, hi, c](double x) { return x == hi ? NAN : (x == lo ? 0.0 : c); };
				pat = "0.nan";
			}
			bool sw = h.coin();
			ChildResult r = run_child([&]() { double v = libphysica::Find_Root(f, sw ? hi : lo, sw ? lo : hi, 1e-6); return std::to_string(v); }, 20);
			std::string o = outcome(r);
			json ev = {{"e", "Reject"}, {"pat", pat}, {"returned", r.returned}, {"status", r.status}, {"diag", o == "exit_diag"}, {"mem", o == "signal" || o == "memerror" || o == "timeout"}};
			out << ev.dump() << "\n";
		}
	}
	return 0;
}
