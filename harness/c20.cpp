// C20 — export / import round trip and In_Units.   record <seed> <tier> <trace> <scratch dir>
#include "common.hpp"
#include "libphysica/Linear_Algebra.hpp"
#include "libphysica/Natural_Units.hpp"
#include "libphysica/Numerics.hpp"
#include "libphysica/Special_Functions.hpp"
#include "libphysica/Utilities.hpp"

using namespace vf;
using namespace libphysica;
using namespace libphysica::natural_units;
static const double EPS = 2.220446049250313e-16;

static int count_lines(const std::string& p)
{
	std::ifstream f(p);
	std::string s;
	int n = 0;
	while(std::getline(f, s))
		n++;
	return n;
}
static double rnd_value(Rng& g, double unit)
{
	// value/unit stays inside the normal range of doubles; 600 decades of either sign, integers and fractions
	double lg = g.uni(-290.0, 290.0);
	int kind  = (int)g.range(0, 4);
	double v;
	if(kind == 0)
		v = (double)g.range(-1000, 1000);
	else if(kind == 1)
		v = g.uni(-10, 10);
	else
		v = (g.coin() ? 1 : -1) * std::pow(10.0, lg) * g.uni(1.0, 10.0) * unit;
	if(kind <= 1)
		v *= unit;
	double q = std::fabs(v / unit);
	if(v != 0 && (q < 1e-300 || q > 1e300))
		v = unit * g.uni(1, 2);
	return v;
}

// beyond the listed properties: Save_Function of both interpolation classes as exporters of the file machine
static int record_saved(Rng& g, bool quick, Trace& T, const std::string& dir)
{
	int ncase = quick ? 60 : 600;
	for(int c = 0; c < ncase; c++)
	{
		int dim = 1 + c % 2;
		int nx = (int)g.range(3, 9), ny = (int)g.range(3, 6);  // (both classes refuse fewer than three nodes per direction)
		std::vector<double> xs(nx), ys(ny);
		double x = g.uni(-5, 5), y = g.uni(-5, 5), mag = std::pow(10.0, g.uni(-30, 30));
		for(auto& v : xs)
			v = (x += g.logu(1e-2, 10));
		for(auto& v : ys)
			v = (y += g.logu(1e-2, 10));
		int xp = (int)g.range(2, 40), yp = dim == 1 ? 0 : (g.coin(0.3) ? 0 : (int)g.range(2, 12));
		std::string path = dir + "/s" + std::to_string(c) + ".txt";
		std::vector<std::vector<double>> tab;
		intent("Save_Function dim " + std::to_string(dim));
		if(dim == 1)
		{
			std::vector<double> f(nx);
			for(auto& v : f)
				v = g.gauss() * mag;
			Interpolation I(xs, f);
			if(g.coin(0.3))
				I.Multiply(-2.5);
			I.Save_Function(path, xp);
			for(double xx : Linear_Space(xs.front(), xs.back(), xp))
				tab.push_back({xx, I(xx)});
		}
		else
		{
			std::vector<std::vector<double>> f(nx, std::vector<double>(ny));
			for(auto& r : f)
				for(auto& v : r)
					v = g.gauss() * mag;
			Interpolation_2D I(xs, ys, f);
			if(yp == 0)
				I.Save_Function(path, xp);
			else
				I.Save_Function(path, xp, yp);
			for(double xx : Linear_Space(xs.front(), xs.back(), xp))
				for(double yy : Linear_Space(ys.front(), ys.back(), yp == 0 ? xp : yp))
					tab.push_back({xx, yy, I(xx, yy)});
		}
		T.emit({{"e", "Saved"}, {"dim", dim}, {"xp", xp}, {"yp", yp}, {"lines", count_lines(path)}});
		auto back = Import_Table(path);
		int rows = (int)tab.size(), cols = dim + 1;
		double worst = 0;
		bool signok	 = true;
		int brows = (int)back.size(), bcols = back.empty() ? 0 : (int)back[0].size();
		if(brows == rows && bcols == cols)
			for(int i = 0; i < rows; i++)
				for(int j = 0; j < cols; j++)
				{
					double a = tab[i][j], b = back[i][j];
					if(a == 0)
						worst = std::max(worst, std::fabs(b) > 0 ? 1.0 : 0.0);
					else
						worst = std::max(worst, std::fabs((b - a) / a));
					signok = signok && ((a > 0) == (b > 0) || a == 0);
				}
		T.emit({{"e", "Import"}, {"skipped", 0}, {"rows", brows}, {"cols", bcols}, {"maxrelq", quant(worst, 5.0e-6 * (1 + 1e-9) + 8 * EPS)}, {"signok", signok}});
		std::remove(path.c_str());
	}
	T.flush();
	finished();
	return 0;
}

int main(int argc, char** argv)
{
	guard_install(1500);
	if(argc == 6 && std::string(argv[1]) == "saved")
	{
		Rng g(std::strtoull(argv[2], nullptr, 10));
		Trace T(argv[4]);
		return record_saved(g, std::string(argv[3]) == "quick", T, argv[5]);
	}
	if(argc != 6 || std::string(argv[1]) != "record")
	{
		finished();
		return 3;
	}
	Rng g(std::strtoull(argv[2], nullptr, 10));
	bool quick		= std::string(argv[3]) == "quick";
	std::string dir = argv[5];
	Trace T(argv[4]);
	int ncase = quick ? 150 : 1500;
	for(int c = 0; c < ncase; c++)
	{
		int kind = c % 3;	// 0 table, 1 list, 2 function
		int rows = (int)g.range(1, g.coin(0.2) ? 200 : 20), cols = kind == 1 ? 1 : (kind == 2 ? 2 : (int)g.range(1, 12));
		int hl	 = (int)g.range(0, 3);
		std::string header;
		int hstyle = (int)g.range(0, 3);	 // 0: plain text lines; 1: some lines blank; 2: some lines whitespace only; 3: first line blank (header starts with a line break)
		for(int i = 0; i < hl; i++)
		{
			std::string line = std::string("# header line ") + std::to_string(i) + " with words and 3 numbers 1.5 2e3";
			if((hstyle == 1 && i % 2 == 1) || (hstyle == 3 && i == 0 && hl > 1))
				line = "";
			if(hstyle == 2 && i % 2 == 0 && hl > 1)
				line = "  \t ";
			if(hl == 1 && line.empty())
				line = "#";	  // an empty header string means "no header" for the writer
			header += (i ? "\n" : "") + line;
		}
		if(hl >= 1 && header.empty())
			header = "#";
		std::vector<double> dims;
		for(int j = 0; j < cols; j++)
			dims.push_back(g.coin(0.3) ? 1.0 : std::pow(10.0, g.uni(-30, 30)));
		bool nodims = kind == 0 && g.coin(0.25);
		std::vector<std::vector<double>> tab(rows, std::vector<double>(cols));
		for(auto& r : tab)
			for(int j = 0; j < cols; j++)
				r[j] = rnd_value(g, nodims ? 1.0 : dims[j]);
		std::string path = dir + "/f" + std::to_string(c) + ".txt";
		std::vector<std::vector<double>> back;
		intent("Export/Import kind " + std::to_string(kind));
		if(kind == 0)
		{
			Export_Table(path, tab, nodims ? std::vector<double>{} : dims, header);
			T.emit({{"e", "Export"}, {"kind", "table"}, {"rows", rows}, {"cols", cols}, {"hdr", hl}, {"lines", count_lines(path)}});
			back = Import_Table(path, nodims ? std::vector<double>{} : dims, hl);
		}
		else if(kind == 1)
		{
			std::vector<double> lst;
			for(auto& r : tab)
				lst.push_back(r[0]);
			Export_List(path, lst, dims[0], header);
			T.emit({{"e", "Export"}, {"kind", "list"}, {"rows", rows}, {"cols", 1}, {"hdr", hl}, {"lines", count_lines(path)}});
			auto b = Import_List(path, dims[0], hl);
			for(double x : b)
				back.push_back({x});
		}
		else
		{
			// a tabulated function: abscissae strictly increasing, ordinates arbitrary
			std::vector<double> xs;
			double x = g.uni(-5, 5) * dims[0];
			for(int i = 0; i < rows; i++)
			{
				x += g.logu(1e-3, 10) * dims[0];
				xs.push_back(x);
			}
			std::vector<double> ys;
			for(int i = 0; i < rows; i++)
				ys.push_back(rnd_value(g, dims[1]));
			std::function<double(double)> f = [&](double xx) { for(int i = 0; i < rows; i++) if(xs[i] == xx) return ys[i]; return 0.0; };
			for(int i = 0; i < rows; i++)
				tab[i] = {xs[i], ys[i]};
			Export_Function(path, f, xs, dims, header);
			T.emit({{"e", "Export"}, {"kind", "function"}, {"rows", rows}, {"cols", 2}, {"hdr", hl}, {"lines", count_lines(path)}});
			back = Import_Table(path, dims, hl);
		}
		double worst = 0;
		bool signok	 = true;
		int brows = (int)back.size(), bcols = back.empty() ? 0 : (int)back[0].size();
		if(brows == rows && bcols == cols)
			for(int i = 0; i < rows; i++)
				for(int j = 0; j < cols; j++)
				{
					double a = tab[i][j], b = back[i][j];
					if(a == 0)
						worst = std::max(worst, std::fabs(b) > 0 ? 1.0 : 0.0);
					else
						worst = std::max(worst, std::fabs((b - a) / a));
					signok = signok && ((a > 0) == (b > 0) || a == 0);
				}
		T.emit({{"e", "Import"}, {"skipped", hl}, {"rows", brows}, {"cols", bcols}, {"maxrelq", quant(worst, 5.0e-6 * (1 + 1e-9) + 8 * EPS)}, {"signok", signok}});
		std::remove(path.c_str());
	}
	// ---- In_Units: six overloads
	int nu = quick ? 300 : 5000;
	for(int c = 0; c < nu; c++)
	{
		double u = std::pow(10.0, g.uni(-40, 40)) * g.uni(1, 10);
		if(c % 5 == 0)
		{	// units whose numerical value is a round number (GeV = 1 exactly, powers of ten, powers of two): no shortcut may skip the rounding
			static const double RU[] = {1.0, 1.0, 1e3, 1e-3, 1e-9, 0.5, 1024.0};
			u = RU[(c / 5) % 7];
		}
		int n = (int)g.range(1, 6), m = (int)g.range(1, 5), digits = (int)g.range(1, 7);
		std::vector<double> xs(n);
		for(auto& x : xs)
			x = (g.coin() ? 1 : -1) * std::pow(10.0, g.uni(-200, 200)) * g.uni(1, 10);
		intent("In_Units");
		// scalar: undoes multiplication by the unit (2 ulp), rounding is Round of the quotient
		double worst = 0;
		bool same = true, roundok = true;
		for(double x : xs)
		{
			double q = In_Units(x * u, u);
			worst	 = std::max(worst, std::fabs((q - x) / x));
			roundok	 = roundok && bits(In_Units(x * u, u, true, digits)) == bits(Round(x * u / u, digits));
		}
		// list, table (one unit / per-column units), Vector, Matrix: element-wise identical to the scalar overload
		std::vector<double> scaled(n);
		for(int i = 0; i < n; i++)
			scaled[i] = xs[i] * u;
		auto lst = In_Units(scaled, u);
		for(int i = 0; i < n; i++)
			same = same && bits(lst[i]) == bits(In_Units(scaled[i], u));
		std::vector<std::vector<double>> tb(m, scaled);
		auto t1 = In_Units(tb, u);
		std::vector<double> us(n);
		for(auto& v : us)
			v = std::pow(10.0, g.uni(-30, 30));
		auto t2 = In_Units(tb, us, true, digits);
		for(int i = 0; i < m; i++)
			for(int j = 0; j < n; j++)
			{
				same = same && bits(t1[i][j]) == bits(In_Units(tb[i][j], u));
				same = same && bits(t2[i][j]) == bits(In_Units(tb[i][j], us[j], true, digits));
			}
		Vector V(scaled);
		Vector Vq = In_Units(V, u);
		Matrix M(tb);
		Matrix Mq = In_Units(M, u, true, digits);
		for(int j = 0; j < n; j++)
			same = same && bits(Vq[j]) == bits(In_Units(scaled[j], u));
		for(int i = 0; i < m; i++)
			for(int j = 0; j < n; j++)
				same = same && bits(Mq[i][j]) == bits(In_Units(tb[i][j], u, true, digits));
		// every overload with and without rounding (the flags are forwarded to the scalar overload)
		{
			auto lr = In_Units(scaled, u, true, digits);
			auto tr = In_Units(tb, u, true, digits);
			auto tn = In_Units(tb, us);
			Vector Vr = In_Units(V, u, true, digits);
			Matrix Mn = In_Units(M, u);
			for(int j = 0; j < n; j++)
			{
				same = same && bits(lr[j]) == bits(In_Units(scaled[j], u, true, digits));
				same = same && bits(Vr[j]) == bits(In_Units(scaled[j], u, true, digits));
			}
			for(int i = 0; i < m; i++)
				for(int j = 0; j < n; j++)
				{
					same = same && bits(tr[i][j]) == bits(In_Units(tb[i][j], u, true, digits));
					same = same && bits(tn[i][j]) == bits(In_Units(tb[i][j], us[j]));
					same = same && bits(Mn[i][j]) == bits(In_Units(tb[i][j], u));
				}
		}
		T.emit({{"e", "InUnits"}, {"q", quant(worst, 4 * EPS)}, {"same", same}, {"roundok", roundok}});
	}
	T.flush();
	finished();
	return 0;
}
