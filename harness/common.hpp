// Shared helpers for the conformance harnesses (recorders / replayers).
#ifndef VERIF_COMMON_HPP
#define VERIF_COMMON_HPP
#include <algorithm>
#include <cinttypes>
#include <cmath>
#include <cstdint>
#include <cstdio>
#include <cstdlib>
#include <cstring>
#include <fstream>
#include <functional>
#include <iostream>
#include <limits>
#include <sstream>
#include <string>
#include <vector>

#include <fcntl.h>
#include <signal.h>
#include <sys/types.h>
#include <sys/wait.h>
#include <unistd.h>

#include <nlohmann/json.hpp>

namespace vf
{
using json = nlohmann::json;

// ---------------------------------------------------------------- deterministic RNG (splitmix64 / xoshiro256**)
struct Rng
{
	uint64_t s[4];
	static uint64_t sm(uint64_t& x)
	{
		uint64_t z = (x += 0x9e3779b97f4a7c15ULL);
		z		   = (z ^ (z >> 30)) * 0xbf58476d1ce4e5b9ULL;
		z		   = (z ^ (z >> 27)) * 0x94d049bb133111ebULL;
		return z ^ (z >> 31);
	}
	explicit Rng(uint64_t seed)
	{
		for(int i = 0; i < 4; i++)
			s[i] = sm(seed);
	}
	static uint64_t rotl(uint64_t x, int k) { return (x << k) | (x >> (64 - k)); }
	uint64_t next()
	{
		uint64_t r = rotl(s[1] * 5, 7) * 9, t = s[1] << 17;
		s[2] ^= s[0];
		s[3] ^= s[1];
		s[1] ^= s[2];
		s[0] ^= s[3];
		s[2] ^= t;
		s[3] = rotl(s[3], 45);
		return r;
	}
	double u01() { return (next() >> 11) * (1.0 / 9007199254740992.0); }
	double uni(double a, double b) { return a + (b - a) * u01(); }
	int64_t range(int64_t lo, int64_t hi) { return lo + (int64_t)(next() % (uint64_t)(hi - lo + 1)); }	 // inclusive
	bool coin(double p = 0.5) { return u01() < p; }
	double logu(double a, double b) { return std::exp(uni(std::log(a), std::log(b))); }
	double gauss()
	{
		double u = u01(), v = u01();
		if(u < 1e-300)
			u = 1e-300;
		return std::sqrt(-2.0 * std::log(u)) * std::cos(6.283185307179586 * v);
	}
	template <class T>
	const T& pick(const std::vector<T>& v) { return v[next() % v.size()]; }
};

// ---------------------------------------------------------------- IEEE helpers
inline uint64_t bits(double x)
{
	uint64_t u;
	std::memcpy(&u, &x, 8);
	return u;
}
inline std::string hexbits(double x)
{
	char buf[32];
	std::snprintf(buf, sizeof buf, "%016" PRIx64, bits(x));
	return buf;
}
inline int64_t ordered(double x)
{
	int64_t i;
	std::memcpy(&i, &x, 8);
	return i < 0 ? std::numeric_limits<int64_t>::min() - i : i;
}
// distance in units in the last place, saturated
inline int64_t ulpdist(double a, double b, int64_t cap = (1 << 30))
{
	if(std::isnan(a) || std::isnan(b))
		return cap;
	if(a == b)
		return 0;
	int64_t ia = ordered(a), ib = ordered(b);
	__int128 d = (__int128)ia - (__int128)ib;
	if(d < 0)
		d = -d;
	return d > cap ? cap : (int64_t)d;
}
// ceil(|x|/unit) saturated at 2^30: the integer-quantised residual handed to the TLA+ side
// VERIF_UNIT_SCALE (default 1) shrinks every unit: used only to measure how much margin the stated allowances leave
inline double unit_scale()
{
	static double s = std::getenv("VERIF_UNIT_SCALE") ? std::atof(std::getenv("VERIF_UNIT_SCALE")) : 1.0;
	return s > 0 ? s : 1.0;
}
inline int64_t quant(double x, double unit, int64_t cap = (1 << 30))
{
	if(std::isnan(x) || std::isnan(unit))
		return cap;
	double q = std::ceil(std::fabs(x) / (unit * unit_scale()));
	if(!(q < (double)cap))
		return cap;
	return (int64_t)q;
}
inline int sgn(double x) { return (x > 0) - (x < 0); }

// ---------------------------------------------------------------- trace writer
struct Trace
{
	FILE* f;
	long n = 0;
	explicit Trace(const std::string& path)
	{
		f = std::fopen(path.c_str(), "w");
		if(!f)
		{
			std::perror("trace open");
			std::_Exit(3);
		}
	}
	void emit(const json& j)
	{
		std::string s = j.dump();
		std::fputs(s.c_str(), f);
		std::fputc('\n', f);
		n++;
		if((n & 63) == 0)
			std::fflush(f);
	}
	void flush() { std::fflush(f); }
	~Trace()
	{
		if(f)
			std::fclose(f);
	}
};

// ---------------------------------------------------------------- run one request in a child process
struct ChildResult
{
	bool returned  = false;	  // child reached the end of fn and wrote its result
	bool exited	   = false;	  // child terminated via exit() before that
	int status	   = 0;		  // exit status (if exited normally)
	int signal	   = 0;		  // terminating signal, if any
	bool timeout   = false;
	std::string out, err;	  // captured stdout / stderr of the library
	std::string result;		  // what fn returned (written through a private pipe)
};

inline std::string slurp_fd(int fd)
{
	std::string s;
	char buf[4096];
	ssize_t k;
	while((k = read(fd, buf, sizeof buf)) > 0)
		s.append(buf, (size_t)k);
	return s;
}

// fn runs in the child; its string result is piped back. Library chatter is captured.
inline ChildResult run_child(const std::function<std::string()>& fn, int timeout_s = 20)
{
	ChildResult R;
	int po[2], pe[2], pr[2];
	if(pipe(po) || pipe(pe) || pipe(pr))
	{
		std::perror("pipe");
		std::_Exit(3);
	}
	std::fflush(nullptr);
	pid_t pid = fork();
	if(pid == 0)
	{
		dup2(po[1], 1);
		dup2(pe[1], 2);
		close(po[0]);
		close(pe[0]);
		close(pr[0]);
		alarm((unsigned)timeout_s);
		std::string r = fn();
		std::fflush(nullptr);
		std::cout.flush();
		(void)!write(pr[1], "R", 1);
		(void)!write(pr[1], r.data(), r.size());
		std::_Exit(0);
	}
	close(po[1]);
	close(pe[1]);
	close(pr[1]);
	// read all three (small outputs; sequential reading is fine because the child's chatter is short;
	// to be safe against pipe-full deadlock use non-blocking round robin)
	int fds[3]			= {po[0], pe[0], pr[0]};
	std::string* dst[3] = {&R.out, &R.err, &R.result};
	bool open_[3]		= {true, true, true};
	for(int i = 0; i < 3; i++)
		fcntl(fds[i], F_SETFL, fcntl(fds[i], F_GETFL) | O_NONBLOCK);
	int nopen = 3;
	while(nopen > 0)
	{
		fd_set rs;
		FD_ZERO(&rs);
		int mx = 0;
		for(int i = 0; i < 3; i++)
			if(open_[i])
			{
				FD_SET(fds[i], &rs);
				mx = std::max(mx, fds[i]);
			}
		struct timeval tv = {timeout_s + 5, 0};
		int k			  = select(mx + 1, &rs, nullptr, nullptr, &tv);
		if(k <= 0)
		{
			kill(pid, SIGKILL);
			R.timeout = true;
			break;
		}
		for(int i = 0; i < 3; i++)
			if(open_[i] && FD_ISSET(fds[i], &rs))
			{
				char buf[4096];
				ssize_t n = read(fds[i], buf, sizeof buf);
				if(n > 0)
				{
					if(dst[i]->size() < (1u << 20))
						dst[i]->append(buf, (size_t)n);
				}
				else if(n == 0)
				{
					open_[i] = false;
					nopen--;
				}
			}
	}
	for(int i = 0; i < 3; i++)
		close(fds[i]);
	int st = 0;
	waitpid(pid, &st, 0);
	if(WIFSIGNALED(st))
	{
		R.signal = WTERMSIG(st);
		if(R.signal == SIGALRM)
			R.timeout = true;
	}
	else if(WIFEXITED(st))
		R.status = WEXITSTATUS(st);
	if(!R.result.empty() && R.result[0] == 'R' && !R.signal && !R.timeout)
	{
		R.returned = true;
		R.result   = R.result.substr(1);
	}
	else
	{
		R.result.clear();
		if(!R.signal && !R.timeout)
			R.exited = true;
	}
	return R;
}

// classify a child result for the C10 vocabulary
inline std::string outcome(const ChildResult& r)
{
	if(r.timeout)
		return "timeout";
	if(r.signal)
		return "signal";
	if(r.returned)
		return "returned";
	bool diag = false;
	for(char ch : r.out + r.err)
		if(!isspace((unsigned char)ch))
		{
			diag = true;
			break;
		}
	if(r.err.find("Assertion") != std::string::npos || r.err.find("AddressSanitizer") != std::string::npos || r.err.find("runtime error") != std::string::npos)
		return "memerror";
	if(r.status != 0 && diag)
		return "exit_diag";
	if(r.status != 0)
		return "exit_silent";
	return "exit_zero";
}

inline std::vector<json> read_ndjson(const std::string& path)
{
	std::vector<json> v;
	std::ifstream in(path);
	std::string line;
	while(std::getline(in, line))
	{
		if(line.empty())
			continue;
		v.push_back(json::parse(line));
	}
	return v;
}

// file descriptor on which crash attribution is reported (the real stderr even while Quiet redirects fd 2)
inline int& errfd_ref()
{
	static int fd = 2;
	return fd;
}
// silence the library's stdout chatter inside the current process (returns saved fd)
struct Quiet
{
	int saved_out, saved_err;
	Quiet()
	{
		std::fflush(nullptr);
		saved_out = dup(1);
		saved_err = dup(2);
		int dn	  = open("/dev/null", O_WRONLY);
		dup2(dn, 1);
		dup2(dn, 2);
		close(dn);
		errfd_ref() = saved_err;
	}
	~Quiet()
	{
		errfd_ref() = 2;
		std::fflush(nullptr);
		std::cout.flush();
		dup2(saved_out, 1);
		dup2(saved_err, 2);
		close(saved_out);
		close(saved_err);
	}
};


// ---------------------------------------------------------------- crash / exit attribution
// The recorder announces every library request before issuing it. If the library then
// aborts, crashes or calls exit(), the handlers below report which request was in flight;
// the orchestrator turns that into a violation (every recorded request is a meaningful one).
inline std::string& intent_ref()
{
	static std::string s;
	return s;
}
inline bool& finished_ref()
{
	static bool b = false;
	return b;
}
inline void intent(const std::string& s) { intent_ref() = s; }
inline void report_and_die(const char* how)
{
	std::fflush(nullptr);
	std::string msg = std::string("\nVERIF-DIED how=") + how + " intent=" + intent_ref() + "\n";
	(void)!write(errfd_ref(), msg.data(), msg.size());
	_exit(77);
}
inline void on_signal(int sig)
{
	report_and_die(sig == SIGABRT ? "abort" : sig == SIGSEGV ? "segv" : sig == SIGFPE ? "fpe" : sig == SIGALRM ? "timeout" : "signal");
}
inline void on_exit_hook()
{
	if(!finished_ref())
		report_and_die("exit");
}
inline void guard_install(unsigned alarm_s = 0)
{
	// construct the function-local statics before the exit hook is registered: destructors run in reverse order of
	// construction / registration, so the hook still finds the intent string alive
	intent_ref();
	finished_ref();
	errfd_ref();
	signal(SIGABRT, on_signal);
	signal(SIGSEGV, on_signal);
	signal(SIGFPE, on_signal);
	signal(SIGBUS, on_signal);
	signal(SIGALRM, on_signal);
	std::atexit(on_exit_hook);
	if(alarm_s)
		alarm(alarm_s);
}
inline void finished() { finished_ref() = true; }


// ---------------------------------------------------------------- batches of requests
// A batch of library requests is first run in one forked child that appends its events to `path`.
// If that child does not finish cleanly (the library exited, aborted, crashed or hung on some
// request), the events are discarded and the caller re-runs the batch in "precise" mode, where
// every single request gets its own child, so that one failing request costs one event only.
inline bool run_batch(const std::string& path, const std::function<void(Trace&)>& fn, int timeout_s = 120)
{
	std::string tmp = path + ".batch";
	std::fflush(nullptr);
	pid_t pid = fork();
	if(pid == 0)
	{
		int dn = open("/dev/null", O_WRONLY);
		dup2(dn, 1);
		dup2(dn, 2);
		alarm((unsigned)timeout_s);
		signal(SIGALRM, SIG_DFL);
		signal(SIGABRT, SIG_DFL);
		{
			Trace t(tmp);
			fn(t);
		}
		std::_Exit(42);
	}
	int st = 0;
	waitpid(pid, &st, 0);
	bool ok = WIFEXITED(st) && WEXITSTATUS(st) == 42;
	if(ok)
	{
		std::ifstream in(tmp, std::ios::binary);
		std::ofstream out(path, std::ios::binary | std::ios::app);
		out << in.rdbuf();
	}
	std::remove(tmp.c_str());
	return ok;
}


// capture what the library prints on stdout/stderr during a call (warnings are part of some properties)
struct Capture
{
	int saved_out, saved_err;
	FILE* tmp;
	Capture()
	{
		std::fflush(nullptr);
		std::cout.flush();
		std::cerr.flush();
		saved_out = dup(1);
		saved_err = dup(2);
		tmp		  = std::tmpfile();
		dup2(fileno(tmp), 1);
		dup2(fileno(tmp), 2);
	}
	std::string done()
	{
		std::fflush(nullptr);
		std::cout.flush();
		std::cerr.flush();
		dup2(saved_out, 1);
		dup2(saved_err, 2);
		close(saved_out);
		close(saved_err);
		std::string s;
		long n = std::ftell(tmp);
		(void)n;
		std::rewind(tmp);
		char buf[4096];
		size_t k;
		while((k = std::fread(buf, 1, sizeof buf, tmp)) > 0)
			s.append(buf, k);
		std::fclose(tmp);
		tmp = nullptr;
		return s;
	}
};

}	// namespace vf
#endif
