// C15 — QR factors and eigenpairs.   run <vectors> <seed> <tier> <trace>
//   QR   : random non-singular matrices (sizes 1..7, condition number up to 1e6)
//   Eig  : Eigenvalues and Eigensystem on the exact integer families exported by MC_Eigen (planted spectrum and
//          eigenvectors, incl. diagonal / block-diagonal matrices and eigenvectors with zero components) and on
//          random symmetric matrices Q diag(lambda) Q^T with planted spectrum; every call in a child process
//          with a time limit (termination is part of the property)
#include "common.hpp"
#include "libphysica/Linear_Algebra.hpp"

using namespace vf;
using namespace libphysica;
static const double EPS = 2.220446049250313e-16;

static std::vector<std::vector<double>> random_orthogonal(Rng& g, int n)
{
	std::vector<std::vector<double>> Q(n, std::vector<double>(n));
	for(int a = 0; a < n; a++)
	{
		for(int pass = 0; pass < 2; pass++)
		{
			if(pass == 0)
				for(int k = 0; k < n; k++)
					Q[a][k] = g.gauss();
			for(int b = 0; b < a; b++)
			{
				double d = 0;
				for(int k = 0; k < n; k++)
					d += Q[a][k] * Q[b][k];
				for(int k = 0; k < n; k++)
					Q[a][k] -= d * Q[b][k];
			}
		}
		double nr = 0;
		for(int k = 0; k < n; k++)
			nr += Q[a][k] * Q[a][k];
		nr = std::sqrt(nr);
		for(int k = 0; k < n; k++)
			Q[a][k] /= nr;
	}
	return Q;
}

// run Eigenvalues / Eigensystem of M in a child; compare with the planted spectrum lam (any order) and eigenvectors vec (or none)
static json eig_event(const std::vector<std::vector<double>>& m, const std::vector<double>& lam, const std::vector<std::vector<double>>& vec, const std::string& cls)
{
	int n = (int)m.size();
	double norm = 0;
	for(auto& r : m)
	{
		double s = 0;
		for(double x : r)
			s += std::fabs(x);
		norm = std::max(norm, s);
	}
	json ev = {{"e", "Eig"}, {"n", n}, {"cls", cls}};
	Matrix M(m);
	// ---- Eigenvalues
	ChildResult r1 = run_child([&]() {
		std::vector<double> v = Eigenvalues(M);
		std::string s;
		char b[40];
		for(double x : v)
		{
			std::snprintf(b, sizeof b, "%.17g ", x);
			s += b;
		}
		return s;
	}, 4);
	ev["valret"] = r1.returned;
	ev["valhow"] = outcome(r1);
	ev["valq"] = 0;
	ev["sumq"] = 0;
	ev["cnt"]	= true;
	if(r1.returned)
	{
		std::vector<double> v;
		std::istringstream is(r1.result);
		double x;
		while(is >> x)
			v.push_back(x);
		ev["cnt"] = (int)v.size() == n;
		if((int)v.size() == n)
		{
			std::vector<double> a = v, b = lam;
			std::sort(a.begin(), a.end());
			std::sort(b.begin(), b.end());
			double w = 0, tr = 0, trl = 0;
			for(int i = 0; i < n; i++)
			{
				w = std::max(w, std::fabs(a[i] - b[i]));
				tr += a[i];
				trl += m[i][i];
			}
			ev["valq"] = quant(w, 1e-10 * norm);						// the iteration stops at a relative off-diagonal mass of 1e-12
			ev["sumq"] = quant(tr - trl, 64 * n * EPS * norm + 1e-300);	// similarity transformations keep the trace
		}
	}
	// ---- Eigensystem
	// (every second case takes the vectors from the free function Eigenvectors, the other spelling the statement names)
	static int sys_calls = 0;
	bool via_free		 = (sys_calls++ % 2 == 1);
	ChildResult r2 = run_child([&]() {
		Matrix MM(m);
		auto sys = Eigensystem(MM);
		if(via_free)
		{
			Matrix M2(m);
			sys.second = Eigenvectors(M2);
		}
		std::string s;
		char b[40];
		for(size_t i = 0; i < sys.first.size(); i++)
		{
			std::snprintf(b, sizeof b, "%.17g ", sys.first[i]);
			s += b;
			for(unsigned k = 0; k < sys.second.at(i).Size(); k++)
			{
				std::snprintf(b, sizeof b, "%.17g ", sys.second.at(i)[k]);
				s += b;
			}
		}
		return s;
	}, 4);
	ev["sysret"] = r2.returned;
	ev["syshow"] = outcome(r2);
	ev["msg"]	 = (r2.err + r2.out).substr(0, 100);
	ev["normq"] = 0;
	ev["resq"]	= 0;
	ev["parq"]	= 0;
	ev["syscnt"] = true;
	ev["sysvalq"] = 0;
	if(r2.returned)
	{
		std::vector<double> all;
		std::istringstream is(r2.result);
		double x;
		while(is >> x)
			all.push_back(x);
		ev["syscnt"] = (int)all.size() == n * (n + 1);
		if((int)all.size() == n * (n + 1))
		{
			double wn = 0, wr = 0, wp = 0;
			for(int i = 0; i < n; i++)
			{
				double l  = all[i * (n + 1)];
				double* v = &all[i * (n + 1) + 1];
				double nn = 0;
				for(int k = 0; k < n; k++)
					nn += v[k] * v[k];
				wn = std::max(wn, std::fabs(std::sqrt(nn) - 1.0));
				double res = 0;
				for(int a = 0; a < n; a++)
				{
					double s = -l * v[a];
					for(int k = 0; k < n; k++)
						s += m[a][k] * v[k];
					res = std::max(res, std::fabs(s));
				}
				wr = std::max(wr, res);
				if(!vec.empty())
				{
					// parallel to the planted eigenvector of the nearest planted eigenvalue
					int best = 0;
					for(int e = 1; e < n; e++)
						if(std::fabs(lam[e] - l) < std::fabs(lam[best] - l))
							best = e;
					double d = 0, pn = 0;
					for(int k = 0; k < n; k++)
					{
						d += v[k] * vec[best][k];
						pn += vec[best][k] * vec[best][k];
					}
					wp = std::max(wp, std::fabs(std::fabs(d) / std::sqrt(pn * nn) - 1.0));
				}
			}
			// one pair per eigenvalue: the returned eigenvalues, as a multiset, are the planted spectrum
			{
				std::vector<double> got, want = lam;
				for(int i = 0; i < n; i++)
					got.push_back(all[i * (n + 1)]);
				std::sort(got.begin(), got.end());
				std::sort(want.begin(), want.end());
				double w = 0;
				for(int i = 0; i < n; i++)
					w = std::max(w, std::fabs(got[i] - want[i]));
				ev["sysvalq"] = quant(w, 1e-9 * norm);
			}
			ev["normq"] = quant(wn, 1e-12);
			ev["resq"]	= quant(wr, 1e-11 * norm);	  // after the refinement steps the residual is at rounding level (measured <= 1e-13 ||M||)
			ev["parq"]	= quant(wp, 1e-9);
			if(getenv("VERIF_DEBUG") && quant(wr, 1e-9 * norm) > 1)
			{
				fprintf(stderr, "DBGEIG n=%d wr=%g norm=%g\n", n, wr, norm);
				for(int a = 0; a < n; a++)
				{
					for(int k = 0; k < n; k++)
						fprintf(stderr, "%.17g,", m[a][k]);
					fprintf(stderr, "\n");
				}
				for(double l : lam)
					fprintf(stderr, "lam %.17g\n", l);
			}
		}
	}
	return ev;
}

int main(int argc, char** argv)
{
	if(argc != 6 || std::string(argv[1]) != "run")
		return 3;
	auto cases = read_ndjson(argv[2]);
	Rng g(std::strtoull(argv[3], nullptr, 10));
	bool quick = std::string(argv[4]) == "quick";
	Trace T(argv[5]);
	// ---------------------------------------------------------------- QR
	int nqr = quick ? 400 : 6000;
	for(int i = 0; i < nqr; i++)
	{
		int n = (int)g.range(1, 7);
		// M = U diag(s) V^T with singular values from 1 down to 1/cond
		auto U = random_orthogonal(g, n), V = random_orthogonal(g, n);
		double cond = g.logu(1.0, 1e6), scale = g.logu(1e-3, 1e3);
		std::vector<std::vector<double>> m(n, std::vector<double>(n, 0.0));
		for(int k = 0; k < n; k++)
		{
			double s = scale * std::pow(cond, n == 1 ? 0.0 : -(double)k / (n - 1));
			for(int a = 0; a < n; a++)
				for(int b = 0; b < n; b++)
					m[a][b] += U[k][a] * s * V[k][b];
		}
		if(i % 7 == 0)	 // integer matrices with zeros
			for(auto& r : m)
				for(auto& x : r)
					x = (double)g.range(-3, 3);
		ChildResult r = run_child([&]() {
			Matrix M(m);
			auto qr = QR_Decomposition(M);
			Matrix Q = qr.first, R = qr.second;
			double ortho = 0, res = 0, norm = 0;
			bool triu = Q.Rows() == (unsigned)n && R.Rows() == (unsigned)n && Q.Columns() == (unsigned)n && R.Columns() == (unsigned)n, fin = true;
			if(triu)
			{
				Matrix P = Q.Transpose() * Q, QR = Q * R;
				for(int a = 0; a < n; a++)
				{
					double rs = 0;
					for(int b = 0; b < n; b++)
					{
						ortho = std::max(ortho, std::fabs(P[a][b] - (a == b)));
						res	  = std::max(res, std::fabs(QR[a][b] - m[a][b]));
						rs += std::fabs(m[a][b]);
						if(a > b && R[a][b] != 0.0)
							triu = false;
						fin = fin && std::isfinite(Q[a][b]) && std::isfinite(R[a][b]);
					}
					norm = std::max(norm, rs);
				}
				json o = {{"orthoq", quant(ortho, 64 * n * EPS)}, {"resq", quant(res, 64 * n * EPS * norm + 1e-300)}, {"triu", triu}, {"fin", fin}};
				return o.dump();
			}
			json o = {{"orthoq", 1 << 30}, {"resq", 1 << 30}, {"triu", false}, {"fin", false}};
			return o.dump();
		}, 20);
		json ev = {{"e", "QR"}, {"n", n}, {"returned", r.returned}, {"how", outcome(r)}};
		if(r.returned)
		{
			json o = json::parse(r.result);
			for(auto it = o.begin(); it != o.end(); ++it)
				ev[it.key()] = it.value();
		}
		else
		{
			ev["orthoq"] = 1 << 30;
			ev["resq"]	 = 1 << 30;
			ev["triu"]	 = false;
			ev["fin"]	 = false;
		}
		// singular integer matrices are outside the statement
		bool singular = false;
		if(i % 7 == 0)
		{
			Matrix M(m);
			singular = std::fabs(M.Determinant()) < 0.5;
		}
		if(!singular)
			T.emit(ev);
	}
	// ---------------------------------------------------------------- exact integer families
	int step = quick ? 5 : 1;
	int idx = 0;
	for(auto& c : cases)
	{
		if(c["k"] != "eig" || (idx++ % step != 0 && !(c["diagonal"].get<bool>() && idx % 2 == 0)))
			continue;
		auto m	 = c["m"].get<std::vector<std::vector<double>>>();
		auto lam = c["lam"].get<std::vector<double>>();
		auto vec = c["vec"].get<std::vector<std::vector<double>>>();
		json ev	 = eig_event(m, lam, vec, c["diagonal"].get<bool>() ? "diagonal" : "block");
		ev["pat"] = c["pat"];
		ev["salt"] = c["salt"];
		T.emit(ev);
	}
	// ---------------------------------------------------------------- random symmetric matrices with planted spectrum
	int nsym = quick ? 150 : 3000;
	for(int i = 0; i < nsym; i++)
	{
		int n	 = (int)g.range(1, 7);
		auto Q	 = random_orthogonal(g, n);
		std::vector<double> lam(n);
		double mag = g.logu(1e-2, 1e3);
		bool wide = (i % 4 == 0);	// every fourth spectrum is as wide as the quantifier allows (ratios 0.1..0.15: |lambda_min| ~ 1e-6 |lambda_max| for n = 7)
		for(int k = 0; k < n; k++)
		{
			lam[k] = (g.coin() ? 1 : -1) * mag;
			mag *= wide ? g.uni(0.1, 0.15) : g.uni(0.1, 0.8);
		}
		std::vector<std::vector<double>> m(n, std::vector<double>(n, 0.0));
		for(int a = 0; a < n; a++)
			for(int b = 0; b <= a; b++)
			{
				double s = 0;
				for(int k = 0; k < n; k++)
					s += Q[k][a] * lam[k] * Q[k][b];
				m[a][b] = m[b][a] = s;
			}
		T.emit(eig_event(m, lam, {}, "random"));
	}
	T.flush();
	return 0;
}
