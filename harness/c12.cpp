// C12 — Gauss-Legendre rules.  record <seed> <tier> <trace> [<vectors>]
// One Rule event per (n, interval): structural flags and residuals of the rule computed by the real
// Compute_Gauss_Legendre_Roots_and_Weights, quantised in units stated next to each field
// (eps = 2^-52, L = |b-a|, M = max(|a|,|b|)).  Moment events replay the exact moments exported by MC_GL.
#include "common.hpp"
#include "libphysica/Integration.hpp"

using namespace vf;
using namespace libphysica;
static const long double EPSL = 2.220446049250313e-16L;
static const double EPS		  = 2.220446049250313e-16;

static long double big(const json& v)
{
	long double x = 0;
	for(int i = (int)v.size() - 1; i >= 0; i--)
		x = x * 10000.0L + (long double)v[i].get<int>();
	return x;
}

static json rule_event(unsigned n, double a, double b, const std::string& cls)
{
	intent("Compute_Gauss_Legendre_Roots_and_Weights(" + std::to_string(n) + "," + std::to_string(a) + "," + std::to_string(b) + ")");
	auto R = Compute_Gauss_Legendre_Roots_and_Weights(n, a, b);
	json ev = {{"e", "Rule"}, {"n", (int)n}, {"cls", cls}, {"rev", a > b}, {"len", (int)R.size()}, {"width2", R.empty() || R[0].size() == 2}};
	if(R.size() != n)
		return ev;
	double lo = std::min(a, b), hi = std::max(a, b), L = hi - lo, M = std::max(std::fabs(a), std::fabs(b));
	double sgn_o = a > b ? -1.0 : 1.0;
	// order, containment (in the direction of integration: ascending for a<b, descending for reversed limits)
	bool mono = true, inside = true, wsign = true, fin = true;
	for(unsigned i = 0; i < n; i++)
	{
		fin = fin && std::isfinite(R[i][0]) && std::isfinite(R[i][1]);
		if(i > 0)
			mono = mono && (sgn_o * (R[i][0] - R[i - 1][0]) > 0);
		inside = inside && R[i][0] > lo && R[i][0] < hi;
		wsign  = wsign && (sgn_o * R[i][1] > 0);
	}
	ev["fin"]	 = fin;
	ev["mono"]	 = mono;
	ev["inside"] = inside;
	ev["wsign"]	 = wsign;
	// symmetry about the midpoint, symmetry of weights, sum of weights
	long double symx = 0, symw = 0, sumw = 0, sumabs = 0;
	for(unsigned i = 0; i < n; i++)
	{
		symx = std::max(symx, fabsl((long double)R[i][0] + (long double)R[n - 1 - i][0] - ((long double)a + (long double)b)));
		symw = std::max(symw, fabsl((long double)R[i][1] - (long double)R[n - 1 - i][1]) / fabsl((long double)R[i][1]));
		sumw += R[i][1];
		sumabs += fabsl(R[i][1]);
	}
	ev["symxq"] = quant((double)symx, 8 * EPS * M + 4 * EPS * L);	// unit: 8 eps M + 4 eps L
	ev["symwq"] = quant((double)symw, 8 * EPS);						// unit: 8 eps (relative)
	ev["sumq"]	= quant((double)(sumw - ((long double)b - (long double)a)), (512.0 + 4.0 * std::sqrt((double)n)) * EPS * L);	  // unit: (512 + 4 sqrt n) eps L  (256 eps ~ 6e-14: the Newton iteration stops at |dz| <= 1e-14 and the weights use the derivative of the last-but-one iterate)
	// exactness on the Legendre basis of the interval: sum w_i P_k(t_i) = (b-a) [k=0], all k <= 2n-1 (all of them up to n = 64, then a spread of 40 degrees incl. 2n-1)
	std::vector<long double> t(n);
	for(unsigned i = 0; i < n; i++)
		t[i] = (2.0L * R[i][0] - ((long double)a + (long double)b)) / ((long double)b - (long double)a);
	unsigned kmax = 2 * n - 1;
	std::vector<long double> acc(kmax + 2, 0.0L);
	for(unsigned i = 0; i < n; i++)
	{
		long double p0 = 1, p1 = t[i], w = R[i][1];
		acc[0] += w;
		if(kmax >= 1)
			acc[1] += w * p1;
		for(unsigned k = 2; k <= kmax + 1; k++)
		{
			long double p2 = ((2.0L * k - 1.0L) * t[i] * p1 - (k - 1.0L) * p0) / k;
			acc[k] += w * p2;
			p0 = p1;
			p1 = p2;
		}
	}
	long double worst = 0;
	int worstk		  = 0;
	for(unsigned k = 1; k <= kmax; k++)
		if(fabsl(acc[k]) > worst)
		{
			worst  = fabsl(acc[k]);
			worstk = (int)k;
		}
	// the node error allowed by rounding (a few eps in t) is amplified by |P_k'| <= k(k+1)/2 near the ends; weights there are O(L/n^2)
	double UEX = (256.0 + 4.0 * n) * EPS * L + 8.0 * n * EPS * M;	// unit: (256 + 4n) eps L + 8n eps M  (nodes are rounded at magnitude M)
	ev["exq"]  = quant((double)worst, UEX);
	ev["exk"]  = worstk;
	ev["deg"]  = (int)kmax;
	// one degree beyond: the rule must NOT be exact (vacuity guard of the residual above)
	ev["beyond"] = fabsl(acc[kmax + 1]) > 1e-3L * L / (n * n + 1.0L) * 1e-3L;
	// monomials in the shifted variable u = (x-a)/(b-a), degree <= min(2n-1, 60): sum w u^k = (b-a)/(k+1)
	long double mworst = 0;
	unsigned mk		   = std::min(kmax, 60u);
	for(unsigned k = 0; k <= mk; k++)
	{
		long double s = 0;
		for(unsigned i = 0; i < n; i++)
			s += (long double)R[i][1] * powl(((long double)R[i][0] - (long double)a) / ((long double)b - (long double)a), (long double)k);
		mworst = std::max(mworst, fabsl(s - ((long double)b - (long double)a) / (k + 1.0L)));
	}
	ev["monq"] = quant((double)mworst, UEX);
	// the three overloads agree (same rule): function pointer + (a,b,n); function + rule; values + rule
	{
		std::function<double(double)> f = [a, b](double x) { double u = (x - a) / (b - a); return 1.0 + u * (0.5 - u * (0.25 + u)); };
		double v1 = Integrate_Gauss_Legendre(f, a, b, n);
		double v2 = Integrate_Gauss_Legendre(f, R);
		std::vector<double> vals(n);
		for(unsigned i = 0; i < n; i++)
			vals[i] = f(R[i][0]);
		double v3	= Integrate_Gauss_Legendre(vals, R);
		double mag	= 2.0 * L;
		ev["ovq"]	= quant(std::max(std::fabs(v1 - v2), std::fabs(v2 - v3)), (4.0 + std::sqrt((double)n)) * EPS * mag);
		long double ex = ((long double)b - (long double)a) * (1.0L + 0.25L - 0.25L / 3.0L - 0.25L);	  // 1 + u/2 - u^2/4 - u^3
		ev["ovexq"] = n >= 2 ? quant((double)(v1 - ex), UEX) : 0;
	}
	// reversed limits: the mirror image with all weights negated
	{
		auto Rr = Compute_Gauss_Legendre_Roots_and_Weights(n, b, a);
		long double mx = 0, mw = 0;
		bool ok = Rr.size() == n;
		for(unsigned i = 0; ok && i < n; i++)
		{
			mx = std::max(mx, fabsl((long double)Rr[i][0] - (long double)R[n - 1 - i][0]));
			mw = std::max(mw, fabsl((long double)Rr[i][1] + (long double)R[n - 1 - i][1]) / fabsl((long double)R[i][1]));
		}
		ev["mirq"] = ok ? std::max(quant((double)mx, 8 * EPS * M + 4 * EPS * L), quant((double)mw, 8 * EPS)) : (1 << 30);
	}
	return ev;
}

int main(int argc, char** argv)
{
	guard_install(600);
	if(argc < 5 || std::string(argv[1]) != "record")
	{
		finished();
		return 3;
	}
	Rng g(std::strtoull(argv[2], nullptr, 10));
	bool quick = std::string(argv[3]) == "quick";
	Trace T(argv[4]);
	// (1) exhaustive orders 1..NEX on [-1,1], and on one random interval each (both orientations alternate)
	unsigned NEX = 512;
	for(unsigned n = 1; n <= NEX; n++)
	{
		T.emit(rule_event(n, -1.0, 1.0, "std"));
		if(!quick || n <= 128 || n % 5 == 0)
		{
			double w = g.logu(1e-3, 1e3), c = g.coin(0.3) ? 0.0 : (g.coin() ? 1 : -1) * w * g.logu(1e-2, 1e6);
			if(n % 7 == 3)
			{	// intervals of any scale (lengths 1e-200 .. 1e200): a rule is an affine image of the rule on [-1,1]
				w = std::pow(10.0, g.uni(-200, 200));
				c = g.coin(0.5) ? 0.0 : (g.coin() ? 1 : -1) * w * g.logu(1e-2, 1e3);
			}
			double a = c - 0.5 * w, b = c + 0.5 * w;
			if(g.coin(0.4))
				std::swap(a, b);
			T.emit(rule_event(n, a, b, "rnd"));
		}
	}
	// (2) a sample of large orders, odd and even
	std::vector<unsigned> big_n = quick ? std::vector<unsigned>{513, 777, 1000, 1023, 2048, 3001, 4000} : std::vector<unsigned>{};
	if(!quick)
		for(unsigned n = 513; n <= 4000; n += (unsigned)g.range(20, 60))
			big_n.push_back(n);
	for(unsigned n : big_n)
	{
		double w = g.logu(1e-2, 1e2), c = g.coin(0.5) ? 0.0 : w * g.logu(1e-2, 1e4);
		T.emit(rule_event(n, c - 0.5 * w, c + 0.5 * w, "big"));
	}
	// (3) exact moments exported by the specification: integer limits, sum w (x-a)^k = (b-a)^(k+1)/(k+1)
	if(argc > 5)
		for(auto& c : read_ndjson(argv[5]))
		{
			if(c["k"] != "moment")
				continue;
			int a = c["a"], b = c["b"], k = c["deg"], n = c["n"];
			auto R = Compute_Gauss_Legendre_Roots_and_Weights((unsigned)n, (double)a, (double)b);
			long double s = 0;
			for(auto& r : R)
				s += (long double)r[1] * powl((long double)r[0] - (long double)a, (long double)k);
			long double ex = big(c["num"]) / (long double)c["den"].get<int>();
			T.emit({{"e", "Moment"}, {"n", n}, {"deg", k}, {"exact", k <= 2 * n - 1}, {"q", quant((double)((s - ex) / ex), (256.0 + 4.0 * n) * EPS + 8.0 * n * EPS * std::max(std::abs(a), std::abs(b)) / std::abs(b - a) * (k + 1.0))}});
		}
	// (4) mismatched lengths: each in its own child
	for(int lv = 0; lv <= 3; lv++)
		for(int lr = 0; lr <= 3; lr++)
		{
			std::vector<double> vals(lv, 1.0);
			auto R		  = lr ? Compute_Gauss_Legendre_Roots_and_Weights((unsigned)lr, 0.0, 1.0) : std::vector<std::vector<double>>{};
			ChildResult r = run_child([&]() { return std::to_string(Integrate_Gauss_Legendre(vals, R)); }, 20);
			std::string o = outcome(r);
			T.emit({{"e", "Lengths"}, {"lv", lv}, {"lr", lr}, {"returned", r.returned}, {"status", r.status}, {"diag", o == "exit_diag"}, {"mem", o == "signal" || o == "memerror" || o == "timeout"}});
		}
	T.flush();
	finished();
	return 0;
}
