// C03 — adaptive Simpson: the integrand is wrapped, every evaluation is mapped to the frame whose quarter
// point it is, and the execution is logged for validation against Trace_Simpson.
#include <map>
#include <stdexcept>

#include "common.hpp"
#include "libphysica/Integration.hpp"

using namespace vf;
using libphysica::Integrate;

static const double EPS = 2.220446049250313e-16;

struct Family
{
	std::string cls;					   // quintic | regular | arbitrary
	std::function<double(double)> f;
	std::function<long double(double, double)> exact;   // integral from a to b (unused for arbitrary)
	std::string desc;
};

static long double polyval(const std::vector<long double>& c, long double x)
{
	long double r = 0;
	for(size_t i = c.size(); i-- > 0;)
		r = r * x + c[i];
	return r;
}
static long double polyint(const std::vector<long double>& c, long double a, long double b)
{
	std::vector<long double> A(c.size() + 1, 0.0L);
	for(size_t i = 0; i < c.size(); i++)
		A[i + 1] = c[i] / (long double)(i + 1);
	return polyval(A, b) - polyval(A, a);
}

static Family make_family(Rng& g, double& a, double& b)
{
	// interval first: width 1e-6..1e3, either orientation, sometimes far from the origin
	double w = std::pow(10.0, g.uni(-6, 3));
	double c = g.coin(0.3) ? 0.0 : g.gauss() * std::pow(10.0, g.uni(-2, 2));
	a		 = c - w * g.u01();
	b		 = a + w;
	int kind = (int)g.range(0, 9);
	Family F;
	if(kind <= 3)
	{
		int deg = (int)g.range(0, 5);
		std::vector<long double> co(deg + 1);
		for(auto& v : co)
			v = g.gauss() * std::pow(10.0, g.uni(-2, 2));
		// express the polynomial around the interval centre so that it is well conditioned there
		long double ctr = 0.5L * ((long double)a + b), sc = 1.0L / (long double)w;
		F.cls	= "quintic";
		F.f		= [co, ctr, sc](double x) { return (double)polyval(co, ((long double)x - ctr) * sc); };
		F.exact = [co, ctr, sc](double p, double q) { return polyint(co, ((long double)p - ctr) * sc, ((long double)q - ctr) * sc) / sc; };
		F.desc	= "polynomial degree " + std::to_string(deg);
		return F;
	}
	if(kind == 4)
	{	// exp(w x), f'''' ratio = exp(w (b-a)) <= 4
		double om = g.uni(-1, 1) * std::log(4.0) / w;
		double x0 = a;
		F.cls	  = "regular";
		F.f		  = [om, x0](double x) { return std::exp(om * (x - x0)); };
		F.exact	  = [om, x0](double p, double q) { return std::fabs(om) < 1e-300 ? (long double)(q - p) : (expl((long double)om * (q - x0)) - expl((long double)om * (p - x0))) / (long double)om; };
		F.desc	  = "exp(w(x-a))";
		return F;
	}
	if(kind == 5)
	{	// cosh(w (x - x0)) with w * max|x - x0| <= acosh(4)
		double x0 = g.coin() ? 0.5 * (a + b) : a - w * g.u01();
		double m  = std::max(std::fabs(a - x0), std::fabs(b - x0));
		double om = g.uni(0.1, 1.0) * 2.0634 / m;
		F.cls	  = "regular";
		F.f		  = [om, x0](double x) { return std::cosh(om * (x - x0)); };
		F.exact	  = [om, x0](double p, double q) { return (sinhl((long double)om * (q - x0)) - sinhl((long double)om * (p - x0))) / (long double)om; };
		F.desc	  = "cosh(w(x-x0))";
		return F;
	}
	if(kind == 6)
	{	// (x + s)^-k on a positive range: ratio ((b+s)/(a+s))^(k+4) <= 4
		int k	 = (int)g.range(1, 6);
		double r = std::pow(4.0, 1.0 / (k + 4.0));	 // (b+s)/(a+s) <= r
		double u = w / (r - 1.0) * g.uni(1.0, 5.0);	 // a + s = u
		double s = u - a;
		F.cls	 = "regular";
		F.f		 = [k, s](double x) { return std::pow(x + s, -(double)k); };
		F.exact	 = [k, s](double p, double q) { return k == 1 ? logl(((long double)q + s) / ((long double)p + s)) : (powl((long double)q + s, 1 - k) - powl((long double)p + s, 1 - k)) / (long double)(1 - k); };
		F.desc	 = "(x+s)^-" + std::to_string(k);
		return F;
	}
	if(kind == 7)
	{	// (x + s)^p, p real outside [0,5]: ratio ((b+s)/(a+s))^|p-4| <= 4
		double p = g.coin() ? g.uni(5.2, 9.0) : g.uni(-3.0, -0.2);
		if(g.coin(0.3))
			p = g.coin() ? 6.0 : 7.0;
		double r = std::pow(4.0, 1.0 / std::fabs(p - 4.0));
		double u = w / (r - 1.0) * g.uni(1.0, 5.0);
		double s = u - a;
		F.cls	 = "regular";
		F.f		 = [p, s](double x) { return std::pow(x + s, p); };
		F.exact	 = [p, s](double lo, double hi) { return std::fabs(p + 1) < 1e-12 ? logl(((long double)hi + s) / ((long double)lo + s)) : (powl((long double)hi + s, p + 1) - powl((long double)lo + s, p + 1)) / (long double)(p + 1); };
		F.desc	 = "(x+s)^p";
		return F;
	}
	// arbitrary integrands: only the structural clauses apply
	F.cls = "arbitrary";
	int v = (int)g.range(0, 3);
	double om = std::pow(10.0, g.uni(0, 3)) / w, x0 = a + w * g.u01();
	if(v == 0)
		F.f = [om](double x) { return std::sin(om * x); };
	else if(v == 1)
		F.f = [x0](double x) { return std::sqrt(std::fabs(x - x0)); };
	else if(v == 2)
		F.f = [x0](double x) { return x < x0 ? 1.0 : -2.0; };
	else
		F.f = [om, x0](double x) { return 1.0 / (1e-3 + std::fabs(std::sin(om * (x - x0)))); };
	F.exact = [](double, double) { return 0.0L; };
	F.desc	= "arbitrary " + std::to_string(v);
	return F;
}

static long n_abandoned = 0;
static void one_execution(Trace& T, Rng& g, bool quick)
{
	double a, b;
	Family F = make_family(g, a, b);
	if(g.coin(0.08))
		b = a;	 // equal limits
	else if(g.coin(0.4))
		std::swap(a, b);   // reversed orientation
	double eps = std::pow(10.0, g.uni(-18, 2)) * (g.coin(0.3) ? -1 : 1);
	int depth  = (int)g.range(0, 25);
	// keep the worst case (2^(depth+2) evaluations) affordable
	long double I = (F.cls == "arbitrary") ? 1.0L : fabsl(F.exact(std::min(a, b), std::max(a, b)));
	if(depth > (quick ? 8 : 12))
		if(std::fabs(eps) < 1e-6 * (double)I || F.cls == "arbitrary" || eps < 0)
			depth = (int)g.range(0, quick ? 8 : 12);
	std::vector<double> xs;
	double fmax = 0;
	auto wrapped = [&](double x) {
		if(xs.size() > 3000000)
			throw std::runtime_error("evaluation budget");	 // abandon (allowed by the count bound for deep limits, but unaffordable)
		xs.push_back(x);
		double v = F.f(x);
		fmax	 = std::max(fmax, std::fabs(v));
		return v;
	};
	intent("Integrate " + F.desc + " a=" + std::to_string(a) + " b=" + std::to_string(b) + " eps=" + std::to_string(eps) + " depth=" + std::to_string(depth));
	Capture cap;
	double res;
	try
	{
		res = Integrate(wrapped, a, b, eps, depth);
	}
	catch(const std::runtime_error&)
	{
		cap.done();
		n_abandoned++;
		return;
	}
	std::string out = cap.done();
	bool warn		= out.find("did not converge") != std::string::npos;
	double lo = std::min(a, b), hi = std::max(a, b);
	int orient = a < b ? 1 : (a > b ? -1 : 0);
	T.emit({{"e", "Call"}, {"orient", orient}, {"depth", depth}, {"cls", F.cls}});
	// ---- map evaluations to frames
	bool startInb = true;
	size_t pos	  = 0;
	bool big	  = xs.size() > 4000;	// too many panels to log one by one: only the whole-execution clauses are checked
	if(big)
	{
		startInb = xs.size() >= 3 && xs[0] == lo && xs[1] == hi;
		for(double x : xs)
			if(!(x >= lo && x <= hi))
				startInb = false;
	}
	if(orient != 0 && !big)
	{
		if(xs.size() < 3)
			startInb = false;
		else
		{
			startInb = (xs[0] == lo && xs[1] == hi && xs[2] >= lo && xs[2] <= hi);
			pos		 = 3;
		}
		std::map<std::pair<int, long>, std::pair<double, double>> cand;	  // frames that may be evaluated next
		cand[{0, 0}] = {lo, hi};
		double tol	 = 8 * EPS * std::max({std::fabs(lo), std::fabs(hi), hi - lo});
		for(; pos + 1 < xs.size(); pos += 2)
		{
			double d = xs[pos], e = xs[pos + 1];
			bool inb = d >= lo && d <= hi && e >= lo && e <= hi;
			int fk = -1;
			long fj = 0;
			for(auto& kv : cand)
			{
				double fa = kv.second.first, fb = kv.second.second, fc = (fa + fb) / 2;
				if(std::fabs(d - (fa + fc) / 2) <= tol && std::fabs(e - (fb + fc) / 2) <= tol)
				{
					fk = kv.first.first;
					fj = kv.first.second;
					break;
				}
			}
			if(fk >= 0)
			{
				auto ab = cand[{fk, fj}];
				cand.erase({fk, fj});
				double fc		   = (ab.first + ab.second) / 2;
				cand[{fk + 1, 2 * fj}]	   = {ab.first, fc};
				cand[{fk + 1, 2 * fj + 1}] = {fc, ab.second};
			}
			T.emit({{"e", "Panel"}, {"k", fk}, {"j", fj}, {"inb", inb}});
		}
	}
	// ---- identities that need further calls
	Quiet q;
	long budget = 0;
	auto limited = [&](double x) { if(++budget > 7000000) throw std::runtime_error("evaluation budget"); return F.f(x); };
	double rsw, rneg;
	try
	{
		rsw	 = Integrate(limited, b, a, eps, depth);
		rneg = Integrate(limited, a, b, -eps, depth);
	}
	catch(const std::runtime_error&)
	{
		rsw	 = NAN;	  // the mirrored calls needed far more evaluations than the original one: not the same computation
		rneg = NAN;
	}
	bool swapneg  = (bits(rsw) == bits(-res)) || (res == 0 && rsw == 0) || (std::isnan(res) && std::isnan(rsw));
	bool epssame  = bits(rneg) == bits(res) || (std::isnan(res) && std::isnan(rneg));
	long errq	  = 0;
	if(F.cls != "arbitrary" && orient != 0)
	{
		long double exact = F.exact(a, b);
		// rounding: accumulation over the panels, plus the rounding of the abscissae themselves (eps |x|) times |f'| (b-a) ~ fmax
		double round	  = 64.0 * (depth + 4) * EPS * (hi - lo) * fmax + 16 * EPS * (double)fabsl(exact) + 64.0 * EPS * std::max(std::fabs(lo), std::fabs(hi)) * fmax;
		double unit		  = F.cls == "quintic" ? round : 4.0 * std::fabs(eps) + round;
		errq			  = quant((double)((long double)res - exact), unit);
	}
	bool allinb = true;
	for(double x : xs)
		allinb = allinb && x >= lo && x <= hi;
	T.emit({{"e", "Return"}, {"n", (long)xs.size()}, {"warn", warn}, {"zero", res == 0.0}, {"startInb", startInb}, {"allinb", allinb}, {"swapneg", swapneg},
			{"epssame", epssame}, {"cls", F.cls}, {"errq", errq}, {"desc", F.desc}, {"big", big}});
}

int main(int argc, char** argv)
{
	if(argc != 5 || std::string(argv[1]) != "record")
	{
		std::cerr << "usage: c03 record <seed> <tier> <out>" << std::endl;
		return 3;
	}
	guard_install(2400);
	Rng g(std::strtoull(argv[2], nullptr, 10));
	bool quick = std::string(argv[3]) == "quick";
	Trace T(argv[4]);
	int n = quick ? 500 : 6000;
	for(int i = 0; i < n && T.n < (quick ? 40000 : 400000); i++)
		one_execution(T, g, quick);
	finished();
	std::cout << json {{"abandoned", n_abandoned}, {"executions", n}}.dump() << std::endl;
	return 0;
}
