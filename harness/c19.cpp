// C19 — helpers: replay of TLC-exported cases (Range, Closest, list templates, statistics) and
// recording of S-type observations (Workload_Distribution, Locate_Closest_Location, Linear/Log_Space, relations).
#include "common.hpp"
#include "libphysica/List_Manipulations.hpp"
#include "libphysica/Statistics.hpp"
#include "libphysica/Utilities.hpp"

using namespace vf;
using namespace libphysica;

static double rat(const json& r) { return (double)r[0].get<long>() / (double)r[1].get<long>(); }
static std::vector<int> ivec(const json& a)
{
	std::vector<int> v;
	for(auto& x : a)
		v.push_back(x.get<int>());
	return v;
}
static std::vector<double> dvec(const json& a, double scale = 1.0)
{
	std::vector<double> v;
	for(auto& x : a)
		v.push_back(x.get<double>() * scale);
	return v;
}
static bool near(double got, double exp, double scale, int ulps = 8)
{
	return std::fabs(got - exp) <= ulps * 2.2e-16 * std::max(scale, std::fabs(exp));
}

struct Fail
{
	json list = json::array();
	long n	  = 0;
	void add(const std::string& key, const json& detail)
	{
		n++;
		if(list.size() < 40)
			list.push_back({{"key", key}, {"detail", detail}});
	}
};

static int replay(const std::string& path, const std::string& tracefile)
{
	guard_install(900);
	auto cases = read_ndjson(path);
	Trace T(tracefile);
	Fail F;
	long n = 0, drift = 0;
	json drifts = json::array(), wdrifts = json::array(), tdrifts = json::array();
	long wdrift = 0, tdrift = 0;
	for(auto& c : cases)
	{
		std::string k = c["k"];
		n++;
		if(k == "Range")
		{
			int mn = c["min"], mx = c["max"], st = c["step"];
			intent("Range " + std::to_string(mn) + " " + std::to_string(mx) + " " + std::to_string(st));
			std::vector<int> got = Range(mn, mx, st);
			if(got != ivec(c["out"]))
				F.add("Range", {{"min", mn}, {"max", mx}, {"step", st}, {"got", got}, {"exp", c["out"]}});
			if(st == 1 && mn == 0)
			{
				std::vector<int> g1 = Range(mx);
				if(g1 != ivec(c["out"]))
					F.add("Range(max)", {{"max", mx}, {"got", g1}});
			}
		}
		else if(k == "Closest")
		{
			std::vector<double> list = dvec(c["list"], 0.5);   // spec values are scaled by 2
			int t0					 = c["t0"];
			for(auto it = c["idx"].begin(); it != c["idx"].end(); ++it)
			{
				int t = std::stoi(it.key());
				intent("Locate_Closest_Location list=" + c["list"].dump() + " t=" + std::to_string(t));
				unsigned got = Locate_Closest_Location(list, t * 0.5);
				T.emit({{"e", "Closest"}, {"list", c["list"]}, {"t", t}, {"idx", got}});   // S verdict by TLC
				if((int)got != it.value().get<int>())
				{
					drift++;
					if(drifts.size() < 5)
						drifts.push_back({{"list", c["list"]}, {"t", t}, {"got", got}, {"model", it.value()}});
				}
			}
			(void)t0;
		}
		else if(k == "Lists")
		{
			std::vector<int> a = ivec(c["a"]), b = ivec(c["b"]);
			intent("Lists a=" + c["a"].dump() + " b=" + c["b"].dump());
			if(Combine_Lists(a, b) != ivec(c["combine"]))
				F.add("Combine_Lists", c);
			if(Flatten_List(std::vector<std::vector<int>> {a, b, a}) != ivec(c["flat"]))
				F.add("Flatten_List", c);
			if(Lists_Equal(a, b) != (a == b))
				F.add("Lists_Equal", c);
			if(!Lists_Equal(std::vector<std::vector<int>> {a, b}, std::vector<std::vector<int>> {a, b}) || (a != b && Lists_Equal(std::vector<std::vector<int>> {a, b}, std::vector<std::vector<int>> {b, a})))
				F.add("Lists_Equal(nested)", c);
			for(int x = 0; x <= 2; x++)
			{
				if(Find_Indices(a, x) != ivec(c["find"][std::to_string(x)]))
					F.add("Find_Indices", {{"a", a}, {"x", x}, {"got", Find_Indices(a, x)}});
				if(List_Contains(a, x) != c["has"][std::to_string(x)].get<bool>())
					F.add("List_Contains", {{"a", a}, {"x", x}});
			}
			if(!a.empty())
				for(auto i1 = c["sub"].begin(); i1 != c["sub"].end(); ++i1)
					for(auto i2 = i1.value().begin(); i2 != i1.value().end(); ++i2)
					{
						int lo = std::stoi(i1.key());
						unsigned hi = (unsigned)std::stoi(i2.key());
						std::vector<int> exp = ivec(i2.value());
						if(exp.empty())
							continue;	// lower bound beyond the upper one: not a request the statement covers
						intent("Sub_List a=" + c["a"].dump() + " i1=" + i1.key() + " i2=" + i2.key());
						std::vector<int> got = Sub_List(a, lo, hi);
						if(got != exp)
							F.add("Sub_List i2" + std::string(hi >= a.size() ? ">=size" : "<size"), {{"a", a}, {"i1", lo}, {"i2", hi}, {"got", got}, {"exp", exp}});
					}
			if(!c["tr"].empty())
			{
				auto tr = Transpose_Lists(a, b);
				std::vector<std::vector<int>> exp;
				for(auto& r : c["tr"])
					exp.push_back(ivec(r));
				if(tr != exp)
					F.add("Transpose_Lists", c);
				if(Transpose_Lists(tr) != std::vector<std::vector<int>> {a, b})
					F.add("Transpose_Lists(involution)", c);
			}
		}
		else if(k == "Time")
		{	// beyond the properties: Time_Display against spec/TimeDisplay.tla (a disagreement is a note, not a verdict)
			static const char* U[7] = {"y", "w", "d", "h", "m", "s", "ms"};
			int i0 = c["i"].get<int>() - 1;
			std::string exp = "[";
			for(int q = 0; q < 3; q++)
			{
				std::string d = std::to_string(c["f"][q].get<long>());
				while(d.size() < (size_t)(i0 + q == 6 ? 3 : 2))
					d = "0" + d;
				exp += d + U[i0 + q] + (q < 2 ? ":" : "]");
			}
			double secs = (double)c["S"].get<long>() + c["M"].get<int>() / 1000.0;
			intent("Time_Display " + std::to_string(secs));
			std::string got = Time_Display(secs);
			if(got != exp)
			{
				tdrift++;
				if(tdrifts.size() < 6)
					tdrifts.push_back({{"seconds", secs}, {"got", got}, {"model", exp}});
			}
		}
		else if(k == "Stats")
		{
			std::vector<double> d = dvec(c["data"]);
			double sc			  = 1.0;
			for(double v : d)
				sc = std::max(sc, std::fabs(v));
			intent("Stats data=" + c["data"].dump().substr(0, 200));
			if(!near(Arithmetic_Mean(d), rat(c["mean"]), sc))
				F.add("Arithmetic_Mean", {{"data", c["data"]}, {"got", Arithmetic_Mean(d)}, {"exp", c["mean"]}});
			std::vector<double> d2 = d;
			if(!near(Median(d2), rat(c["median"]), sc, 2))
			{
				d2 = d;
				F.add(std::string("Median ") + (d.size() % 2 ? "odd" : "even"), {{"data", c["data"]}, {"got", Median(d2)}, {"exp", c["median"]}});
			}
			if(d.size() > 1)
			{
				double v = rat(c["var"]);
				if(!near(Variance(d), v, sc * sc, 16 + (int)d.size()))
					F.add("Variance", {{"data", c["data"]}, {"got", Variance(d)}, {"exp", c["var"]}});
				if(!near(Standard_Deviation(d), std::sqrt(v), sc, 16 + (int)d.size()))
					F.add("Standard_Deviation", {{"data", c["data"]}, {"got", Standard_Deviation(d)}});
				// equal weights => plain mean and s/sqrt(N)
				std::vector<DataPoint> eq;
				for(double x : d)
					eq.push_back(DataPoint(x, 3.0));
				std::vector<double> wa = Weighted_Average(eq);
				if(!near(wa[0], rat(c["mean"]), sc))
					F.add("Weighted_Average equal-weights mean", {{"data", c["data"]}, {"got", wa[0]}});
				if(!near(wa[1], std::sqrt(rat(c["se2eq"])), sc, 64 + 4 * (int)d.size()))
					F.add("Weighted_Average equal-weights SE", {{"data", c["data"]}, {"got", wa[1]}, {"exp2", c["se2eq"]}});
			}
			std::vector<DataPoint> w;
			size_t i = 0;
			for(double x : d)
				w.push_back(DataPoint(x, c["w"][i++].get<double>()));
			if(!near(Weighted_Average(w)[0], rat(c["wmean"]), sc))
				F.add("Weighted_Average mean", {{"data", c["data"]}, {"w", c["w"]}, {"got", Weighted_Average(w)[0]}, {"exp", c["wmean"]}});
			if(c.contains("wse2") && c["wse2"][0].get<int>() >= 0)
			{	// model level: the squared standard error for unequal weights is the translation-invariant ratio-estimator form
				double se = Weighted_Average(w)[1], e2 = rat(c["wse2"]);
				if(!near(se * se, e2, sc * sc, 256))
				{
					wdrift++;
					if(wdrifts.size() < 5)
						wdrifts.push_back({{"data", c["data"]}, {"w", c["w"]}, {"got_se2", se * se}, {"model", c["wse2"]}});
				}
			}
		}
	}
	finished();
	json out = {{"cases", n}, {"sfail", F.n}, {"fails", F.list}, {"drift", drift}, {"drifts", drifts}, {"wdrift", wdrift}, {"wdrifts", wdrifts}, {"tdrift", tdrift}, {"tdrifts", tdrifts}};
	std::cout << out.dump() << std::endl;
	return 0;
}

static void space_event(Trace& T, bool logsp, double mn, double mx, unsigned steps)
{
	intent(std::string(logsp ? "Log_Space " : "Linear_Space ") + std::to_string(mn) + " " + std::to_string(mx) + " " + std::to_string(steps));
	std::vector<double> v = logsp ? Log_Space(mn, mx, steps) : Linear_Space(mn, mx, steps);
	auto tr				  = [&](double x) { return logsp ? std::log(x) : x; };
	double scale		  = std::max({std::fabs(tr(mn)), std::fabs(tr(mx)), logsp ? 1.0 : 0.0});
	double unit			  = 2.2e-16 * scale;
	bool mono			  = true;
	double spmax		  = 0;
	if(v.size() > 1)
	{
		double step = (tr(mx) - tr(mn)) / (steps - 1.0);
		for(size_t i = 1; i < v.size(); i++)
		{
			if(mx > mn ? !(v[i] > v[i - 1]) : !(v[i] < v[i - 1]))
				mono = false;
			spmax = std::max(spmax, std::fabs((tr(v[i]) - tr(v[i - 1])) - step));
		}
	}
	// strict monotonicity cannot be demanded when the exact spacing is below the resolution of doubles at that magnitude
	bool resolvable = v.size() < 2 || std::fabs(tr(mx) - tr(mn)) / (steps - 1.0) > 8 * unit;
	T.emit({{"e", "Space"}, {"kind", logsp ? "log" : "lin"}, {"steps", steps}, {"degenerate", mn == mx}, {"n", v.size()},
			{"firstSame", !v.empty() && (v[0] == mn || (logsp && quant(tr(v[0]) - tr(mn), unit * 4) <= 1))},
			{"lastq", v.empty() ? 0 : quant(tr(v.back()) - tr(mx), unit * (logsp ? 4 : 1))}, {"mono", mono || !resolvable}, {"spq", resolvable ? quant(spmax, unit) : 0}});
}

static int record(uint64_t seed, const std::string& tier, const std::string& out)
{
	guard_install(1500);
	Trace T(out);
	Rng g(seed);
	bool quick = tier == "quick";
	// Workload_Distribution: exhaustive sub-grid + random to 128 x 1024 (thorough: the full grid)
	int W = quick ? 24 : 128, Tk = quick ? 96 : 1024;
	for(int w = 1; w <= W; w++)
		for(int t = 0; t <= Tk; t++)
		{
			intent("Workload_Distribution " + std::to_string(w) + " " + std::to_string(t));
			T.emit({{"e", "WD"}, {"w", w}, {"t", t}, {"out", Workload_Distribution(w, t)}});
		}
	for(int i = 0; i < (quick ? 1500 : 0); i++)
	{
		int w = (int)g.range(1, 128), t = (int)g.range(0, 1024);
		if(g.coin(0.3))
			t = (int)(w * g.range(0, 8) + g.range(0, 2));
		intent("Workload_Distribution " + std::to_string(w) + " " + std::to_string(t));
		T.emit({{"e", "WD"}, {"w", w}, {"t", t}, {"out", Workload_Distribution(w, t)}});
	}
	// Range on the full quantifier grid (thorough) / random (quick)
	if(quick)
		for(int i = 0; i < 3000; i++)
		{
			int mn = (int)g.range(-40, 40), mx = (int)g.range(-40, 40), st = (int)g.range(1, 40);
			intent("Range");
			T.emit({{"e", "Range"}, {"min", mn}, {"max", mx}, {"step", st}, {"out", Range(mn, mx, st)}});
		}
	else
		for(int mn = -40; mn <= 40; mn++)
			for(int mx = -40; mx <= 40; mx++)
				for(int st = 1; st <= 40; st += (st < 8 ? 1 : 3))
				{
					intent("Range");
					T.emit({{"e", "Range"}, {"min", mn}, {"max", mx}, {"step", st}, {"out", Range(mn, mx, st)}});
				}
	// Locate_Closest_Location: random sorted lists up to 64 with duplicates, targets below / above / ties
	for(int i = 0; i < (quick ? 1500 : 20000); i++)
	{
		int n = (int)g.range(1, 64);
		std::vector<int> li(n);
		for(int& v : li)
			v = 2 * (int)g.range(-20, 20);
		std::sort(li.begin(), li.end());
		std::vector<double> ld(li.begin(), li.end());
		for(double& v : ld)
			v *= 0.5;
		int t = (int)g.range(-46, 46);
		intent("Locate_Closest_Location n=" + std::to_string(n));
		T.emit({{"e", "Closest"}, {"list", li}, {"t", t}, {"idx", Locate_Closest_Location(ld, 0.5 * t)}});
	}
	// Linear_Space / Log_Space
	for(unsigned steps = 0; steps <= (quick ? 60u : 2000u); steps++)
	{
		space_event(T, false, -3.0, 7.5, steps);
		space_event(T, false, 7.5, -3.0, steps);
		space_event(T, true, 1e-3, 2e5, steps);
		space_event(T, true, 2e5, 1e-3, steps);
	}
	for(int i = 0; i < (quick ? 2500 : 30000); i++)
	{
		unsigned steps = (unsigned)g.range(0, 2000);
		if(g.coin(0.3))
			steps = (unsigned)g.range(0, 5);
		double a = g.gauss() * std::pow(10.0, g.uni(-6, 6)), b = g.coin(0.05) ? a : g.gauss() * std::pow(10.0, g.uni(-6, 6));
		space_event(T, false, a, b, steps);
		double la = std::pow(10.0, g.uni(-30, 30)), lb = g.coin(0.05) ? la : std::pow(10.0, g.uni(-30, 30));
		space_event(T, true, la, lb, steps);
	}
	// relations of the summary statistics on real-valued data
	for(int i = 0; i < (quick ? 1500 : 20000); i++)
	{
		int n = (int)g.range(2, 200);
		std::vector<double> d(n);
		double mag = std::pow(10.0, g.uni(-3, 3));
		for(double& v : d)
			v = g.gauss() * mag;
		intent("statistics relations n=" + std::to_string(n));
		double m = Arithmetic_Mean(d), var = Variance(d), sd = Standard_Deviation(d);
		std::vector<double> tmp = d;
		double med				= Median(tmp);
		double k = std::ldexp(1.0, (int)g.range(-3, 3)) * (g.coin() ? -1 : 1), s = std::round(g.gauss() * 4) * mag;
		std::vector<double> sh(n), scl(n), perm = d;
		for(int j = 0; j < n; j++)
		{
			sh[j]  = d[j] + s;
			scl[j] = d[j] * k;
		}
		for(int j = n - 1; j > 0; j--)
			std::swap(perm[j], perm[g.range(0, j)]);
		double u  = 64 * 2.2e-16;
		double sc = mag * 4 + std::fabs(s);
		auto rel  = [&](const char* kind, double lhs, double rhs, double scale) { T.emit({{"e", "Rel"}, {"kind", kind}, {"n", n}, {"q", quant(lhs - rhs, u * scale * std::sqrt((double)n))}}); };
		rel("mean-shift", Arithmetic_Mean(sh), m + s, sc);
		rel("mean-scale", Arithmetic_Mean(scl), m * k, sc * std::fabs(k));
		rel("mean-perm", Arithmetic_Mean(perm), m, sc);
		rel("var-shift", Variance(sh), var, sc * sc);
		rel("var-scale", Variance(scl), var * k * k, sc * sc * k * k);
		rel("var-perm", Variance(perm), var, sc * sc);
		rel("sd2-var", sd * sd, var, sc * sc);
		tmp = sh;
		rel("median-shift", Median(tmp), med + s, sc);
		tmp = scl;
		rel("median-scale", Median(tmp), med * k, sc * std::fabs(k));
		tmp = perm;
		rel("median-perm", Median(tmp), med, sc);
		// median is an order statistic: at least half of the data on either side
		int le = 0, ge = 0;
		for(double v : d)
		{
			le += v <= med;
			ge += v >= med;
		}
		T.emit({{"e", "Rel"}, {"kind", "median-rank"}, {"n", n}, {"q", (2 * le >= n && 2 * ge >= n) ? 0 : 2}});
		std::vector<DataPoint> eq, wd, wperm;
		double wq = g.uni(0.5, 5);
		for(double v : d)
			eq.push_back(DataPoint(v, wq));
		std::vector<double> wa = Weighted_Average(eq);
		rel("wavg-equal-mean", wa[0], m, sc);
		rel("wavg-equal-se", wa[1], sd / std::sqrt((double)n), sc);
		for(double v : d)
			wd.push_back(DataPoint(v, g.uni(0.1, 3)));
		std::vector<double> w0 = Weighted_Average(wd);
		wperm				   = wd;
		for(int j = n - 1; j > 0; j--)
			std::swap(wperm[j], wperm[g.range(0, j)]);
		std::vector<double> w1 = Weighted_Average(wperm);
		rel("wavg-perm", w1[0], w0[0], sc);
		rel("wavg-perm-se", w1[1], w0[1], sc);
		std::vector<DataPoint> wsc = wd;
		for(auto& p : wsc)
			p.weight *= 4.0;   // rescaling all weights changes nothing
		std::vector<double> w2 = Weighted_Average(wsc);
		rel("wavg-weightscale", w2[0], w0[0], sc);
		rel("wavg-weightscale-se", w2[1], w0[1], sc);
		// translation by an offset that is huge compared with the spread (2^20, 2^40 spreads), on lattice data for which the shifted
		// values are exact: variance and standard deviation are those of the unshifted data (a two-pass sum of squared deviations
		// is accurate to (eps * offset)^2 / variance; the unit is 1e-7 of the variance)
		{
			std::vector<double> lat(n), latsh(n);
			int sexp = g.coin() ? 20 : 40;
			for(int j = 0; j < n; j++)
			{
				lat[j]	 = std::ldexp((double)g.range(-8000, 8000), -10);
				latsh[j] = lat[j] + std::ldexp(g.coin() ? 1.0 : -1.0, sexp) * 0 + std::ldexp(1.0, sexp);
			}
			double v0 = Variance(lat), v1 = Variance(latsh);
			// a two-pass sum of squared deviations is accurate to about (n eps kappa)^2 relative, kappa = |mean| / spread (the rounding of the
			// mean enters squared); a one-pass sum of squares is off by n eps kappa^2. Unit: 1e-7 + 4 (n eps kappa)^2.
			double kappa = std::ldexp(1.0, sexp) / std::sqrt(std::max(v0, 1e-300)), relu = 1e-7 + 4.0 * std::pow(n * 2.220446049250313e-16 * kappa, 2.0);
			T.emit({{"e", "Rel"}, {"kind", sexp == 20 ? "var-bigshift20" : "var-bigshift40"}, {"n", n}, {"q", quant(v1 - v0, relu * v0 + 1e-300)}});
			T.emit({{"e", "Rel"}, {"kind", "sd-bigshift"}, {"n", n}, {"q", quant(Standard_Deviation(latsh) - std::sqrt(v0), relu * std::sqrt(v0) + 1e-300)}});
		}
		// translation and scaling with unequal weights: the mean moves with the data, the squared standard error is invariant resp. scales with k^2
		std::vector<DataPoint> wsh = wd, wsl = wd;
		for(auto& p : wsh)
			p.value += s;
		for(auto& p : wsl)
			p.value *= k;
		std::vector<double> w3 = Weighted_Average(wsh), w4 = Weighted_Average(wsl);
		rel("wavg-shift", w3[0], w0[0] + s, sc);
		rel("wavg-shift-se2", w3[1] * w3[1], w0[1] * w0[1], sc * sc);
		rel("wavg-scale", w4[0], w0[0] * k, sc * std::fabs(k));
		rel("wavg-scale-se2", w4[1] * w4[1], w0[1] * w0[1] * k * k, sc * sc * k * k);
	}
	finished();
	return 0;
}

int main(int argc, char** argv)
{
	std::string mode = argc > 1 ? argv[1] : "";
	if(mode == "replay" && argc == 4)
		return replay(argv[2], argv[3]);
	if(mode == "record" && argc == 5)
		return record(std::strtoull(argv[2], nullptr, 10), argv[3], argv[4]);
	std::cerr << "usage" << std::endl;
	return 3;
}
