// C06 — Gamma-function family.
//   replay <vectors> <trace> : pushes the exact cases exported by MC_Gamma (factorial table and call histories,
//                              Gamma at half-integers, Pascal rows, exact series of Q) through the real functions
//   record <seed> <tier> <trace> : relations between the library's own outputs at random real arguments
// All residuals are quantised in the unit the property prescribes; spec/Trace_Gamma.tla accepts or rejects.
#include "common.hpp"
#include "libphysica/Special_Functions.hpp"

namespace libphysica
{
// the memo table of Factorial is an internal (non-header) global of the library: observed when the build exports it, otherwise the
// histories run in fresh processes and only the values are judged
extern std::vector<double> FactorialList __attribute__((weak));
}
using namespace vf;
using namespace libphysica;
static const double EPS = 2.220446049250313e-16;

// Big (little-endian limbs base 10^4) -> long double
static long double big(const json& v)
{
	long double x = 0;
	for(int i = (int)v.size() - 1; i >= 0; i--)
		x = x * 10000.0L + (long double)v[i].get<int>();
	return x;
}
static const long double PIl = 3.14159265358979323846264338327950288L;

static int64_t relq(long double got, long double exact, double unit)   // |got-exact|/|exact| in `unit`
{
	if(exact == 0)
		return got == 0 ? 0 : (1 << 30);
	return quant((double)((got - exact) / exact), unit);
}

// exact reference of Q(x,a) from the exported series: a2 = 2a, m = 2x
static long double q_ref(int a2, int m, const json& num, const json& den, int scale)
{
	long double x = 0.5L * m;
	if(a2 % 2 == 0)
		return expl(-x) * (big(num) / big(den));
	long double r = erfcl(sqrtl(x));
	if(a2 > 1)
		r += expl(-x) * sqrtl(x / PIl) * ((long double)scale * big(num) / big(den));
	return r;
}

static void replay(const std::string& vec, const std::string& tr)
{
	auto cases = read_ndjson(vec);
	Trace T(tr);
	std::vector<long double> fact(171, 0);
	for(auto& c : cases)
		if(c["k"] == "fact")
			fact[c["n"].get<int>()] = big(c["v"]);
	// ---- factorial: ascending and descending complete passes, each from a fresh table
	const bool memo_visible = (&FactorialList != nullptr);
	// one history from a fresh table: values, and (when the table is visible) its length before/after each call and whether entries stayed
	struct HStep
	{
		double v, prev;
		long Lb, La;
		bool stable;
	};
	auto run_history = [&](const std::vector<int>& calls) {
		std::vector<HStep> out;
		if(memo_visible)
		{
			FactorialList = {1.0};
			for(int n : calls)
			{
				size_t Lb	= FactorialList.size();
				auto before = FactorialList;
				intent("Factorial(" + std::to_string(n) + ")");
				double v	= Factorial((unsigned)n);
				bool stable = FactorialList.size() >= before.size() && std::equal(before.begin(), before.end(), FactorialList.begin(), [](double a, double b) { return bits(a) == bits(b); });
				long La		= (long)FactorialList.size();
				double prev = n == 0 ? 0.0 : Factorial((unsigned)(n - 1));
				out.push_back({v, prev, (long)Lb, La, stable});
			}
			return out;
		}
		// the table is private to the library: a fresh process is a fresh table
		intent("Factorial history in a fresh process");
		ChildResult r = run_child([&]() {
			std::string sres;
			char b[64];
			for(int n : calls)
			{
				double v = Factorial((unsigned)n), prev = n == 0 ? 0.0 : Factorial((unsigned)(n - 1));
				std::snprintf(b, sizeof b, "%a %a ", v, prev);
				sres += b;
			}
			return sres;
		}, 60);
		std::istringstream is(r.result);
		std::string a, b2;
		while(is >> a >> b2)
			out.push_back({std::strtod(a.c_str(), nullptr), std::strtod(b2.c_str(), nullptr), -1, -1, true});
		return out;
	};
	for(int pass = 0; pass < 2; pass++)
	{
		std::vector<int> calls;
		for(int i = 0; i <= 170; i++)
			calls.push_back(pass == 0 ? i : 170 - i);
		auto hs = run_history(calls);
		T.emit({{"e", "Reset"}});
		for(size_t i = 0; i < calls.size(); i++)
		{
			int n = calls[i];
			bool have = i < hs.size();
			T.emit({{"e", "Fact"}, {"n", n}, {"obs", memo_visible}, {"ret", have}, {"Lb", have ? hs[i].Lb : -1}, {"La", have ? hs[i].La : -1}, {"stable", have ? hs[i].stable : false},
					{"q", have ? relq(hs[i].v, fact[n], 16 * EPS) : (1 << 30)}, {"recq", (n == 0 || !have) ? 0 : relq(hs[i].v, (long double)n * (long double)hs[i].prev, 2 * EPS)}});
		}
	}
	for(auto& c : cases)
	{
		std::string k = c["k"];
		if(k == "hist")
		{
			std::vector<int> calls;
			for(size_t i = 0; i < c["calls"].size(); i++)
				calls.push_back(c["calls"][i].get<int>());
			auto hs = run_history(calls);
			T.emit({{"e", "Reset"}});
			for(size_t i = 0; i < calls.size(); i++)
			{
				int n = calls[i];
				bool have = i < hs.size();
				T.emit({{"e", "Fact"}, {"n", n}, {"obs", memo_visible}, {"ret", have}, {"Lb", have ? hs[i].Lb : -1}, {"La", have ? hs[i].La : -1}, {"Lspec", c["L"][i]}, {"stable", have ? hs[i].stable : false},
						{"q", have ? relq(hs[i].v, fact[n], 16 * EPS) : (1 << 30)}, {"recq", 0}});
			}
		}
		else if(k == "fact")
		{
			int n = c["n"];
			// Gamma(n+1) = n!, GammaLn(n+1) = ln n!
			long double ex = fact[n], lex = logl(ex);
			intent("Gamma(" + std::to_string(n + 1) + ")");
			double g = Gamma(n + 1.0), gl = GammaLn(n + 1.0);
			double lscale = std::max(1.0L, fabsl(lex));
			T.emit({{"e", "GammaAt"}, {"kind", "int"}, {"n", n}, {"lnq", quant((double)(gl - lex), 8 * EPS * lscale)}, {"gq", relq(g, ex, 16 * EPS * lscale)}});
		}
		else if(k == "half")
		{
			int n		   = c["n"];
			long double ex = sqrtl(PIl) * (big(c["num"]) / big(c["den"])), lex = logl(ex);
			intent("Gamma(" + std::to_string(n) + ".5)");
			double g = Gamma(n + 0.5), gl = GammaLn(n + 0.5);
			double lscale = std::max(1.0L, fabsl(lex));
			T.emit({{"e", "GammaAt"}, {"kind", "half"}, {"n", n}, {"lnq", quant((double)(gl - lex), 8 * EPS * lscale)}, {"gq", relq(g, ex, 16 * EPS * lscale)}});
		}
		else if(k == "row")
		{
			int n = c["n"];
			// whole row through the library: exactness / accuracy, symmetry, Pascal's rule on the library's own outputs
			int64_t worst = 0, sym = 0, pas = 0;
			int worstk = 0;
			for(int kk = 0; kk <= n; kk++)
			{
				intent("Binomial_Coefficient(" + std::to_string(n) + "," + std::to_string(kk) + ")");
				double b	   = Binomial_Coefficient(n, kk);
				long double ex = big(c["c"][std::min(kk, n - kk)]);
				// n <= 170: factorial path, integer-valued result: a few ulps; n > 170: exp(GammaLn) path: relative error ~ eps * ln(n!) scale
				double unit = n <= 170 ? 32 * EPS : 64 * EPS * std::max(1.0, (double)lgammal(n + 1.0L));
				int64_t q	= relq(b, ex, unit);
				if(q > worst)
				{
					worst  = q;
					worstk = kk;
				}
				double bs = Binomial_Coefficient(n, n - kk);
				sym		  = std::max(sym, relq(bs, b, 2 * unit));
				if(n >= 1 && kk >= 1 && kk <= n - 1)
				{
					double p = Binomial_Coefficient(n - 1, kk - 1) + Binomial_Coefficient(n - 1, kk);
					pas		 = std::max(pas, relq(p, b, 3 * unit));
				}
			}
			T.emit({{"e", "Binom"}, {"n", n}, {"q", worst}, {"k", worstk}, {"symq", sym}, {"pasq", pas}, {"zero", Binomial_Coefficient(n, n + 1) == 0.0}});
		}
		else if(k == "q")
		{
			int a2 = c["a2"], m = c["m"];
			double a = 0.5 * a2, x = 0.5 * m;
			long double ref = q_ref(a2, m, c["num"], c["den"], c["scale"]);
			intent("GammaQ(" + std::to_string(x) + "," + std::to_string(a) + ")");
			double Q = GammaQ(x, a), P = GammaP(x, a);
			double tol = a <= 100.0 ? 1e-12 : 1e-3;
			double G   = Gamma(a);
			double up = Upper_Incomplete_Gamma(x, a), lo = Lower_Incomplete_Gamma(x, a);
			T.emit({{"e", "Q"}, {"a2", a2}, {"m", m}, {"tol", a <= 100.0 ? "1e-12" : "1e-3"},
					{"qq", quant((double)(Q - ref), tol)}, {"pq", quant((double)(P - (1.0L - ref)), tol)},
					{"inrange", Q >= 0.0 && Q <= 1.0 && P >= 0.0 && P <= 1.0}, {"sumq", quant(P + Q - 1.0, 4 * EPS)},
					{"ulq", a < 171.0 ? quant((up + lo - G) / G, 8 * EPS) : 0},
					{"branch", a > 100 ? "quad" : (x < a + 1.0 ? "series" : "cf")}});
		}
	}
}

// ------------------------------------------------------------------------------------------------ recorded relations
static void record(uint64_t seed, const std::string& tier, const std::string& tr)
{
	Rng g(seed);
	Trace T(tr);
	bool quick = tier == "quick";
	// (1) Gamma / GammaLn: recurrence and agreement with libm lgammal (trusted) at random real x
	int n1 = quick ? 4000 : 60000;
	for(int i = 0; i < n1; i++)
	{
		double x = g.coin(0.5) ? g.logu(1e-6, 1.0e4) : g.uni(0.01, 171.0);
		intent("GammaLn(" + std::to_string(x) + ")");
		double l0 = GammaLn(x), l1 = GammaLn(x + 1.0);
		long double r0 = lgammal((long double)x), r1 = lgammal((long double)x + 1.0L);
		double sc0 = std::max(1.0L, fabsl(r0)), sc1 = std::max(1.0L, fabsl(r1));
		json ev = {{"e", "Rel"}, {"kind", "lnGamma"}, {"libq", quant((double)(l0 - r0), 32 * EPS * sc0)},
				   {"recq", quant((double)((long double)l1 - (long double)l0 - logl((long double)x)), 8 * EPS * (sc0 + sc1 + std::fabs(std::log(x))))}};
		if(x < 170.0)
		{
			double g0 = Gamma(x), g1 = Gamma(x + 1.0);
			ev["grecq"] = relq(g1, (long double)x * (long double)g0, 16 * EPS * (sc0 + sc1));
			ev["glibq"] = relq(g0, expl(r0), 16 * EPS * sc0);
		}
		else
		{
			ev["grecq"] = 0;
			ev["glibq"] = 0;
		}
		T.emit(ev);
	}
	// (2) regularised functions at random real (x,a): range, complement, monotone in x, recurrence in a, Upper+Lower
	int n2 = quick ? 600 : 8000;
	for(int i = 0; i < n2; i++)
	{
		double a;
		int sel = (int)g.range(0, 5);
		if(sel == 0)
			a = g.logu(1e-3, 1.0);
		else if(sel == 1)
			a = g.uni(1.0, 100.0);
		else if(sel == 2)
			a = g.uni(98.0, 102.0);	  // both sides of the a = 100 switch (a and a+1 straddle it)
		else if(sel == 3)
			a = g.logu(100.0, 1.0e4);
		else if(sel == 4)
			a = std::floor(g.uni(1.0, 150.0)) + (g.coin() ? 0.0 : 0.5);
		else
			a = g.logu(0.05, 300.0);
		double xmax = a + 40.0 * std::sqrt(a) + 40.0;
		// ascending grid of x: dense around a+1 (series / continued-fraction switch), plus the whole range
		std::vector<double> xs;
		int npts = quick ? 24 : 48;
		for(int j = 0; j < npts; j++)
			xs.push_back(g.coin(0.4) ? a + 1.0 + g.uni(-3.0, 3.0) * (g.coin() ? 1.0 : 1e-3) : (g.coin(0.5) ? g.uni(0.0, xmax) : a + g.uni(-6.0, 6.0) * std::sqrt(a)));
		xs.push_back(a + 1.0);
		xs.push_back(std::nextafter(a + 1.0, 0.0));
		xs.push_back(0.0);
		for(auto& x : xs)
			x = std::min(std::max(x, 0.0), xmax);
		std::sort(xs.begin(), xs.end());
		double tol	   = a <= 100.0 ? 1e-12 : 1e-3;
		double tolnext = a + 1.0 <= 100.0 ? 1e-12 : 1e-3;
		double prevQ = 2.0;
		bool inrange = true;
		double worst_up = 0, worst_sum = 0, worst_rec = 0, worst_ul = 0;
		long double lg1 = lgammal((long double)a + 1.0L);
		double G		= a < 170 ? Gamma(a) : 0;
		for(double x : xs)
		{
			intent("GammaQ(" + std::to_string(x) + "," + std::to_string(a) + ")");
			double Q = GammaQ(x, a), P = GammaP(x, a);
			inrange = inrange && Q >= 0.0 && Q <= 1.0 && P >= 0.0 && P <= 1.0;
			if(prevQ <= 1.0)
				worst_up = std::max(worst_up, Q - prevQ);	// Q must not increase with x
			prevQ	  = Q;
			worst_sum = std::max(worst_sum, std::fabs(P + Q - 1.0));
			if(x > 0)
			{
				double Q1		 = GammaQ(x, a + 1.0);
				long double term = expl((long double)a * logl((long double)x) - (long double)x - lg1);
				worst_rec		 = std::max(worst_rec, (double)fabsl((long double)Q1 - (long double)Q - term) / (tol + tolnext));
			}
			if(a < 170)
			{
				double up = Upper_Incomplete_Gamma(x, a), lo = Lower_Incomplete_Gamma(x, a);
				worst_ul = std::max(worst_ul, std::fabs((up + lo - G) / G));
			}
		}
		T.emit({{"e", "Rel"}, {"kind", "PQ"}, {"hi", a > 100.0}, {"inrange", inrange}, {"monoq", quant(worst_up, tol)}, {"sumq", quant(worst_sum, 4 * EPS)},
				{"recq", quant(worst_rec, 1.0)}, {"ulq", quant(worst_ul, 8 * EPS)}});
	}
	// (3) inverses
	int n3 = quick ? 1500 : 20000;
	for(int i = 0; i < n3; i++)
	{
		double a = g.coin(0.25) ? g.logu(100.0, 1.0e4) : (g.coin(0.3) ? g.logu(1e-2, 1.0) : (g.coin(0.5) ? g.logu(1.0, 100.0) : g.uni(1.0, 100.0)));
		if(g.coin(0.1))
			a = std::floor(a) + 1.0;
		if(i % 5 == 0)
			a = g.uni(1.0, 6.0);	  // the starting guesses of the inverse change form at a = 1; small shapes with far tails
		double p;
		int sel = (int)g.range(0, 3);
		if(i % 5 == 0)
			sel = (int)g.range(0, 1);
		if(sel == 0)
			p = g.logu(1e-12, 0.5);
		else if(sel == 1)
			p = 1.0 - g.logu(1e-12, 0.5);
		else
			p = g.uni(0.0, 1.0);
		p		   = std::min(std::max(p, 1.0000001e-12), 1.0 - 1.0000001e-12);
		if(a < 0.06)
		{
			// P(x,a) ~ x^a/Gamma(a+1): below P(1e-290, a) no double x has P(x,a) = p to 1e-7 (the quantile underflows); not a case any implementation can serve
			double pm = std::pow(1e-290, a) / std::tgamma(a + 1.0);
			if(p < pm || 1.0 - p < pm)
				continue;
		}
		double tol = a <= 100.0 ? 1e-7 : 1e-3;
		intent("Inv_GammaP(" + std::to_string(p) + "," + std::to_string(a) + ")");
		double x  = Inv_GammaP(p, a);
		double xq = Inv_GammaQ(p, a);
		bool fin  = std::isfinite(x) && x >= 0.0 && std::isfinite(xq) && xq >= 0.0;
		double bp = fin ? GammaP(x, a) : 2.0, bq = fin ? GammaQ(xq, a) : 2.0;
		T.emit({{"e", "Inv"}, {"hi", a > 100.0}, {"tol", a <= 100.0 ? "1e-7" : "1e-3"}, {"fin", fin}, {"pq", quant(bp - p, tol)}, {"qq", quant(bq - p, tol)}});
	}
}

int main(int argc, char** argv)
{
	guard_install(3000);
	std::string mode = argc > 1 ? argv[1] : "";
	if(mode == "replay" && argc == 4)
		replay(argv[2], argv[3]);
	else if(mode == "record" && argc == 5)
		record(std::strtoull(argv[2], nullptr, 10), argv[3], argv[4]);
	else
	{
		finished();
		return 3;
	}
	finished();
	return 0;
}
