// C10 — executes every request of the decision table (spec/Guards.tla, exported by TLC) with the real
// library, one child process per request, and records the outcome for validation against Trace_Guards.
#include <complex>
#include <random>

#include "common.hpp"
#include "libphysica/Integration.hpp"
#include "libphysica/Linear_Algebra.hpp"
#include "libphysica/List_Manipulations.hpp"
#include "libphysica/Natural_Units.hpp"
#include "libphysica/Numerics.hpp"
#include "libphysica/Special_Functions.hpp"
#include "libphysica/Statistics.hpp"
#include "libphysica/Utilities.hpp"

using namespace vf;
using namespace libphysica;

static const long UMAXC = 9999;
static unsigned uidx(long v) { return v == UMAXC ? 0xFFFFFFFFu : (unsigned)v; }
static int sidx(long v) { return v == UMAXC ? -1 : (int)v; }
static Matrix mk(int r, int c, double base = 1.0)
{
	std::vector<std::vector<double>> m(r, std::vector<double>(c));
	for(int i = 0; i < r; i++)
		for(int j = 0; j < c; j++)
			m[i][j] = base + i * 3 + j * 0.5 + (i == j ? 2.0 : 0.0);
	return Matrix(m);
}
static Vector mv(int d)
{
	std::vector<double> v(d);
	for(int i = 0; i < d; i++)
		v[i] = 1.0 + i;
	return Vector(v);
}
static volatile double sink;
static std::string tmpdir;

static const char* names1d[] = {"Trapezoidal", "Gauss-Legendre", "Gauss-Kronrod", "Tanh-Sinh", "Gauss-Legendre_2", "Adaptive-Simpson", "Simpson", ""};
static const char* namesNd[] = {"Trapezoidal", "Gauss-Legendre", "Gauss-Kronrod", "Tanh-Sinh", "Gauss-Legendre_2", "Adaptive-Simpson", "Monte-Carlo", "Vegas", "Miser", "Romberg", ""};
static const char* namesMC[] = {"Monte-Carlo", "Vegas", "Miser", "Metropolis", "", "Gauss-Legendre"};

static void run_request(const std::string& ep, long a, long b, long c, long d, long e)
{
	if(ep == "VecIdx")
	{
		Vector v(a, 1.0);
		sink = v[uidx(b)];
	}
	else if(ep == "VecIdxC")
	{
		const Vector v(a, 1.0);
		sink = v[uidx(b)];
	}
	else if(ep == "VecIdxAfter")
	{
		Vector v(b, 1.0);
		if(a == 0)
			v = Vector(c, 2.0);
		else if(a == 1)
			v.Resize((unsigned)c);
		else
			v.Assign((unsigned)c, 3.0);
		sink = v[uidx(d)];
		v[uidx(d)] = 1.0;
	}
	else if(ep == "MatIdxAfter")
	{
		Matrix M(b, 2, 1.0);
		if(a == 0)
			M = Matrix(c, 2, 2.0);
		else if(a == 1)
			M.Resize((int)c, 2);
		else if(a == 2)
			M.Assign((int)c, 2, 3.0);
		else
			M.Delete_Row(0);
		sink = M[uidx(d)][0];
	}
	else if(ep == "VecBin")
	{
		Vector v = mv(b), w = mv(c);
		switch(a)
		{
			case 0: sink = v.Dot(w); break;
			case 1: sink = v * w; break;
			case 2: sink = (v + w)[0]; break;
			case 3: sink = (v - w)[0]; break;
			case 4: v += w; sink = v[0]; break;
			default: v -= w; sink = v[0]; break;
		}
	}
	else if(ep == "Cross")
		sink = mv(a).Cross(mv(b))[0];
	else if(ep == "MatIdx")
	{
		Matrix M(a, 2, 1.0);
		sink = M[uidx(b)].size();
	}
	else if(ep == "MatIdxC")
	{
		const Matrix M(a, 2, 1.0);
		sink = M[uidx(b)].size();
	}
	else if(ep == "MatBin")
	{
		Matrix A = mk(b, c), B = mk(d, e, 2.0);
		switch(a)
		{
			case 0: sink = A.Plus(B)[0][0]; break;
			case 1: sink = A.Minus(B)[0][0]; break;
			case 2: sink = (A + B)[0][0]; break;
			case 3: sink = (A - B)[0][0]; break;
			case 4: A += B; sink = A[0][0]; break;
			default: A -= B; sink = A[0][0]; break;
		}
	}
	else if(ep == "MatProd")
	{
		Matrix A = mk(b, c), B = mk(d, e, 2.0);
		sink = a == 0 ? A.Product(B)[0][0] : (A * B)[0][0];
	}
	else if(ep == "MatVec")
	{
		Matrix A = mk(b, c);
		Vector v = mv(d);
		sink	 = a == 0 ? A.Product(v)[0] : (A * v)[0];
	}
	else if(ep == "VecMat")
		sink = (mv(d) * mk(b, c))[0];
	else if(ep == "Trace")
		sink = mk(b, c).Trace();
	else if(ep == "Det")
		sink = mk(b, c).Determinant();
	else if(ep == "Inverse")
	{
		Matrix A = mk(b, c);
		if(d == 1 && b == c)
		{
			// make it exactly singular: a zero row (1x1: the zero matrix)
			for(int j = 0; j < c; j++)
				A[b - 1][j] = (b > 1) ? 2.0 * A[0][j] : 0.0;
		}
		sink = A.Inverse()[0][0];
	}
	else if(ep == "DelRow")
	{
		Matrix A = mk(2, 3);
		A.Delete_Row(uidx(b));
		sink = A.Rows();
	}
	else if(ep == "DelCol")
	{
		Matrix A = mk(2, 3);
		A.Delete_Column(uidx(b));
		sink = A.Columns();
	}
	else if(ep == "RetRow")
		sink = mk(2, 3).Return_Row(uidx(b))[0];
	else if(ep == "RetCol")
		sink = mk(2, 3).Return_Column(uidx(b))[0];
	else if(ep == "SubMatrix")
		sink = mk(2, 3).Sub_Matrix(sidx(b), sidx(c)).Rows();
	else if(ep == "Ragged")
	{
		std::vector<std::vector<double>> rows = {std::vector<double>(b, 1.0), std::vector<double>(c, 2.0)};
		sink								  = Matrix(rows).Rows();
	}
	else if(ep == "Block")
	{
		Matrix A = mk(2, 2), B = mk(2, 1), C = mk(1, 2), D = mk(1, 1);
		if(a == 1)
			B = mk(1, 1);	// row mismatch within the first block row
		if(a == 2)
			C = mk(1, 3);	// column mismatch within the first block column
		sink = Matrix(std::vector<std::vector<Matrix>> {{A, B}, {C, D}}).Rows();
	}
	else if(ep == "Rotation")
		sink = Rotation_Matrix(0.3, (int)a, mv(b))[0][0];
	else if(ep == "Interp1D")
	{
		std::vector<double> x(a), y(b, 1.5);
		for(int i = 0; i < a; i++)
			x[i] = i;
		if(c == 1 && a >= 2)
			x[a - 1] = x[a - 2];   // tie
		if(c == 2 && a >= 2)
			std::swap(x[a - 1], x[a - 2]);	 // decrease
		Interpolation I(x, y);
		if(a >= 1)
			sink = I(x[0]);
	}
	else if(ep == "Interp1DRows")
	{
		std::vector<std::vector<double>> rows;
		for(int i = 0; i < 4; i++)
		{
			std::vector<double> r(a, 1.0);
			r[0] = i;
			rows.push_back(r);
		}
		Interpolation I(rows);
		sink = I(0.5);
	}
	else if(ep == "Interp2DTable")
	{
		std::vector<std::vector<double>> t;
		for(int i = 0; i < a; i++)
			for(int j = 0; j < b; j++)
				t.push_back({(double)i, (double)j * 2.0, 1.0 + i + j});
		if(c == 1 && !t.empty())
			t.pop_back();	// a grid point missing
		if(c == 2)
			t.push_back(t.back());	 // duplicated row
		if(c == 3 && t.size() >= 2)
			std::swap(t[0], t[t.size() - 1]);	// rows not in grid order
		if(c == 4)
			for(auto& r : t)
				r.pop_back();	// rows of width two
		Interpolation_2D I(t);
		sink = I(0.0, 0.0);
	}
	else if(ep == "Interp2DLists")
	{
		std::vector<double> x = {0, 1, 2, 3}, y = {0, 1, 2};
		std::vector<std::vector<double>> f(4, std::vector<double>(3, 1.0));
		if(a == 1)
			f.pop_back();	// fewer rows than abscissae
		if(a == 2)
			f[3].pop_back();   // a short row
		if(a == 3)
			f.push_back(std::vector<double>(3, 1.0));	// more rows than abscissae
		Interpolation_2D I(x, y, f);
		sink = I(2.9, 1.9);
	}
	else if(ep == "InterpArg")
	{
		std::vector<double> x = {0.0, 1.0, 3.0, 7.0}, y = {1.0, 2.0, 0.5, 4.0};
		double edge = b == 0 ? 0.0 : 7.0, h = b == 0 ? 1.0 : 4.0, dir = b == 0 ? -1.0 : 1.0;
		double off[4] = {0.0, 0.9e-2, 1.1e-2, 0.5};
		double arg	  = edge + dir * off[c] * h;
		Interpolation I(x, y);
		switch(a)
		{
			case 0: sink = I.Locate(arg); break;
			case 1: sink = I.Interpolate(arg); break;
			case 2: sink = I.Derivative(arg, 1); break;
			case 3: sink = I.Integrate(arg, 2.0); break;
			case 4: sink = I.Integrate(2.0, arg); break;
			case 5: sink = b == 0 ? I.Local_Minimum(arg, 2.0) : I.Local_Maximum(2.0, arg); break;
			default:
			{
				std::vector<std::vector<double>> f(4, std::vector<double>(4, 1.0));
				Interpolation_2D J(x, x, f);
				sink = a == 6 ? J(arg, 2.0) : J(2.0, arg);
			}
		}
	}
	else if(ep == "LocalOrder")
	{
		Interpolation I(std::vector<double> {0, 1, 2, 3}, std::vector<double> {1, 3, 2, 5});
		double x1 = 1.5, x2 = b == 0 ? 2.5 : (b == 1 ? 1.5 : 0.5);
		sink = a == 0 ? I.Local_Minimum(x1, x2) : I.Local_Maximum(x1, x2);
	}
	else if(ep == "FindRoot")
	{
		// values at the bracket ends [1,3]: patterns -+,+-,++,--,0+,+0,00,N.,.N,N0,0N
		static const double L[11] = {-1, 1, 1, -1, 0, 1, 0, NAN, 1, NAN, 0}, R[11] = {1, -1, 2, -2, 1, 0, 0, 1, NAN, 0, NAN};
		static const double MAG[4] = {1.0, 1e-170, 1e170, 1e-310};
		double fl = L[a] * MAG[b], fr = R[a] * MAG[b];
		auto f = [fl, fr](double x) { return x == 1.0 ? fl : (x == 3.0 ? fr : fl + (fr - fl) * (x - 1.0) / 2.0); };
		sink   = Find_Root(f, 1.0, 3.0, 1e-8);
	}
	else if(ep == "Method1D")
		sink = Integrate([](double x) { return x * x; }, b == 1 ? 1.0 : 0.0, 1.0, std::string(names1d[a]));
	else if(ep == "Method2D")
		sink = Integrate_2D([](double x, double y) { return x * y; }, b == 1 ? 1.0 : 0.0, 1.0, 0.0, 1.0, std::string(namesNd[a]), a >= 6 ? 2000 : 0);
	else if(ep == "Method3D")
	{
		// both overloads (Cartesian and spherical-vector integrand); b = 1: the outermost range is empty
		if(c == 0)
			sink = Integrate_3D([](double x, double y, double z) { return x * y + z; }, b == 1 ? 1.0 : 0.0, 1.0, 0.0, 1.0, 0.0, 1.0, std::string(namesNd[a]), a >= 6 ? 2000 : 0);
		else
			sink = Integrate_3D([](Vector v) { return 1.0 + v[2]; }, b == 1 ? 1.0 : 0.5, 1.0, -0.5, 0.5, 0.0, 1.0, std::string(namesNd[a]), a >= 6 ? 2000 : 0);
	}
	else if(ep == "MethodMC")
	{
		std::function<double(std::vector<double>&, const double)> f = [](std::vector<double>& x, const double) { return x[0] + x[1]; };
		std::vector<double> region									   = {0, 0, 1, 1};
		sink														   = Integrate_MC(f, region, 2000, std::string(namesMC[a]));
	}
	else if(ep == "GLSize")
	{
		std::vector<double> values(a, 1.0);
		std::vector<std::vector<double>> rule(b, std::vector<double> {0.0, 1.0});
		sink = Integrate_Gauss_Legendre(values, rule);
	}
	else if(ep == "Binomial")
	{
		static const double P[5] = {-0.1, 0.0, 0.5, 1.0, 1.1};
		sink					 = a == 0 ? PMF_Binomial(5, P[b], 2) : CDF_Binomial(5, P[b], 2);
	}
	else if(ep == "Poisson")
	{
		static const double M[3] = {-1.0, 0.0, 1.0};
		sink					 = a == 0 ? PMF_Poisson(M[b], 2) : CDF_Poisson(M[b], 2);
	}
	else if(ep == "InvCDFPoisson")
	{
		static const double C[5] = {-0.1, 0.0, 0.5, 1.0, 1.1};
		sink					 = Inv_CDF_Poisson((unsigned)c, C[b]);
	}
	else if(ep == "ExpMB")
	{
		static const double P[3] = {-1.0, 0.0, 1.0};
		switch(a)
		{
			case 0: sink = PDF_Exponential(0.5, P[b]); break;
			case 1: sink = CDF_Exponential(0.5, P[b]); break;
			case 2: sink = PDF_Maxwell_Boltzmann(0.5, P[b]); break;
			default: sink = CDF_Maxwell_Boltzmann(0.5, P[b]); break;
		}
	}
	else if(ep == "LikelihoodBinned")
	{
		std::vector<double> pred(a, 1.5), bkg(c, 0.5);
		std::vector<unsigned long> obs(b, 2);
		sink = d == 0 ? Likelihood_Poisson_Binned(pred, obs, bkg) : Log_Likelihood_Poisson_Binned(pred, obs, bkg);
	}
	else if(ep == "Metropolis")
	{
		std::mt19937 rng(7);
		std::vector<double> dom;
		for(int i = 0; i < b; i++)
			dom.push_back(i % 2 == 0 ? -3.0 : 3.0);
		if(a == 0)
			sink = Sample_Metropolis(rng, [](double x) { return std::exp(-x * x / 2); }, 1.0, 5, 2, 3, dom).size();
		else
			sink = Sample_Metropolis_2D(rng, [](double x, double y) { return std::exp(-(x * x + y * y) / 2); }, {1.0, 1.0}, 5, 2, 3, dom).size();
	}
	else if(ep == "Rejection")
	{
		std::mt19937 rng(7);
		std::function<double(double)> pdf;
		switch(a)
		{
			case 0: pdf = [](double x) { return 0.5 + 0.4 * x; }; break;
			case 1: pdf = [](double) { return -0.2; }; break;
			case 2: pdf = [](double) { return NAN; }; break;
			case 3: pdf = [](double) { return 1.5; }; break;
			default: pdf = [](double) { return 1.005; }; break;
		}
		sink = Rejection_Sampling(pdf, 0.0, 1.0, 1.0, rng);
	}
	else if(ep == "Round")
		sink = Round(1.23456789, uidx(a));
	else if(ep == "Factorial")
		sink = Factorial(uidx(a));
	else if(ep == "FactorialAfter")
	{
		sink = a == 0 ? Factorial((unsigned)b) : Binomial_Coefficient((int)b, (int)b / 2);
		sink = Factorial((unsigned)c);
	}
	else if(ep == "BinomCoef")
		sink = Binomial_Coefficient((int)a - 1, (int)b - 1);
	else if(ep == "BinomBig")
	{
		int n = (int)b, k = c == 0 ? 0 : (c == 1 ? 1 : (c == 2 ? n / 2 : n));
		sink  = a == 0 ? Binomial_Coefficient(n, k) : (a == 1 ? PMF_Binomial((unsigned)n, 0.4, (unsigned)k) : CDF_Binomial((unsigned)n, 0.4, (unsigned)k));
	}
	else if(ep == "GammaLn" || ep == "Gamma")
	{
		static const double X[4] = {-1.0, 0.0, 1e-300, 1.0};
		sink					 = ep == "Gamma" ? Gamma(X[a]) : GammaLn(X[a]);
	}
	else if(ep == "GammaPQ")
	{
		static const double V[3] = {-1.0, 0.0, 1.0};
		switch(a)
		{
			case 0: sink = GammaQ(V[b], V[c]); break;
			case 1: sink = GammaP(V[b], V[c]); break;
			case 2: sink = Upper_Incomplete_Gamma(V[b], V[c]); break;
			default: sink = Lower_Incomplete_Gamma(V[b], V[c]); break;
		}
	}
	else if(ep == "InvGamma")
	{
		static const double V[3] = {-1.0, 0.0, 1.0};
		sink					 = a == 0 ? Inv_GammaP(0.3, V[b]) : Inv_GammaQ(0.3, V[b]);
	}
	else if(ep == "InvErf")
	{
		static const double P[6] = {-1.5, -1.0, 0.0, 1.0 - 1.1102230246251565e-16, 1.0, 1.5};
		sink					 = Inv_Erf(P[a]);
	}
	else if(ep == "VSH")
		sink = (a == 0 ? VSH_Y_Component((int)b - 1, 2, 1, 3, 1) : VSH_Psi_Component((int)b - 1, 2, 1, 3, 1)).real();
	else if(ep == "TransposeLists")
	{
		std::vector<std::vector<int>> l = {{1, 2, 3}, {4, 5, 6}};
		if(a == 1)
			l[1].pop_back();
		sink = Transpose_Lists(l).size();
	}
	else if(ep == "SubList")
	{
		static const int I1[3]		= {-2, 0, 1};
		static const unsigned I2[3] = {2, 3, 6};
		std::vector<int> v			= {10, 20, 30};
		sink						= Sub_List(v, I1[a], I2[b]).size();
	}
	else if(ep == "DimsMismatch")
	{
		std::vector<std::vector<double>> t = {{1, 2, 3}, {4, 5, 6}};
		std::vector<double> dims(b == 0 ? 3 : (b == 1 ? 2 : 4), 2.0);
		std::string file = tmpdir + "/dims.txt";
		if(a == 0)
			sink = natural_units::In_Units(t, dims).size();
		else if(a == 1)
		{
			Export_Table(file, t, dims);
			sink = 1;
		}
		else
		{
			Export_Table(file, t);
			sink = Import_Table(file, dims).size();
		}
	}
	else if(ep == "ImportFile")
	{
		std::string file = tmpdir + (b == 0 ? "/exists.txt" : "/missing.txt");
		if(b == 0)
			Export_Table(file, {{1, 2}, {3, 4}});
		sink = a == 0 ? Import_List(file).size() : Import_Table(file).size();
	}
	else if(ep == "ClosestSorted")
	{
		std::vector<double> l = {1, 2, 3, 4};
		if(a == 1)
			std::swap(l[1], l[2]);
		sink = Locate_Closest_Location(l, 2.2);
	}
	else if(ep == "CheckForError")
	{
		Check_For_Error(a == 1, "verif", "requested failure");
		sink = 1;
	}
	else
	{
		std::fprintf(stderr, "VERIF-UNKNOWN-EP %s\n", ep.c_str());
		std::_Exit(99);
	}
}

int main(int argc, char** argv)
{
	if(argc != 4)
	{
		std::cerr << "usage: c10 <requests.ndjson> <trace.ndjson> <tmpdir>" << std::endl;
		return 3;
	}
	auto reqs = read_ndjson(argv[1]);
	Trace T(argv[2]);
	tmpdir = argv[3];
	for(auto& r : reqs)
	{
		std::string ep = r["ep"];
		long a = r["a"], b = r["b"], c = r["c"], d = r["d"], e = r["e"];
		ChildResult res = run_child([&]() { run_request(ep, a, b, c, d, e); return std::string("ok"); }, 30);
		std::string o	= outcome(res);
		if(res.err.find("VERIF-UNKNOWN-EP") != std::string::npos)
		{
			std::cerr << "dispatcher has no case for " << ep << std::endl;
			return 4;
		}
		T.emit({{"e", "Req"}, {"ep", ep}, {"a", a}, {"b", b}, {"c", c}, {"d", d}, {"e2", e}, {"ret", res.returned},
				{"status", res.signal ? 128 + res.signal : res.status}, {"diag", o == "exit_diag"},
				{"mem", o == "signal" || o == "memerror" || o == "timeout"}, {"how", o},
				{"msg", (res.err + res.out).substr(0, 160)}});
	}
	return 0;
}
