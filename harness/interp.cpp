// C01 / C08 — conformance harness for the interpolants.
//   replay1d <vectors> : lattice tables exported by MC_Steffen with exact coefficients / values (spec -> code)
//   replay2d <vectors> : cells exported by MC_Bilinear with exact lattice values (spec -> code)
//   record01 <seed> <tier> <out> : random real-valued tables, per-interval observations for Trace_Interp
//   record08 <seed> <tier> <out> : integrals / extrema / prefactor histories for Trace_Spline
#include "libphysica/Numerics.hpp"
#include "tables.hpp"

using namespace vf;
using libphysica::Interpolation;
using libphysica::Interpolation_2D;

static const double EPS = 2.220446049250313e-16;
static double rat(const json& r) { return (double)r[0].get<long>() / (double)r[1].get<long>(); }

struct Fails
{
	json list = json::array();
	long n	  = 0;
	void add(const std::string& key, const json& detail)
	{
		n++;
		if(list.size() < 60)
			list.push_back({{"key", key}, {"detail", detail}});
	}
};

// ------------------------------------------------------------------------------------------------ replay 1D
static int replay1d(const std::string& path)
{
	guard_install(1200);
	auto cases = read_ndjson(path);
	Fails S, A;
	long n = 0, checks = 0;
	for(auto& c : cases)
	{
		std::vector<double> x0 = c["x"].get<std::vector<double>>(), y0 = c["y"].get<std::vector<double>>();
		int N = (int)x0.size();
		n++;
		// construction variants: plain lists, rows, unit factors, power-of-two scalings of both axes
		struct Var
		{
			int kind;
			double xd, fd;
			int kx, ky;
		};
		std::vector<Var> vars = {{0, -1, -1, 0, 0}, {1, -1, -1, 0, 0}, {0, 2.0, 0.25, 0, 0}, {1, 3.0, 2.0, 0, 0}, {0, -1, -1, 66, -66}, {0, -1, -1, -40, 50}};
		for(size_t vi = 0; vi < vars.size(); vi++)
		{
			if(vi >= 2 && (n + vi) % 3 != 0)
				continue;	// the scaled variants on a third of the tables each
			const Var& v = vars[vi];
			double sx = std::ldexp(1.0, v.kx), sy = std::ldexp(1.0, v.ky);
			std::vector<double> x(N), y(N);
			for(int i = 0; i < N; i++)
			{
				x[i] = x0[i] * sx;
				y[i] = y0[i] * sy;
			}
			intent("construct lattice table x=" + c["x"].dump() + " y=" + c["y"].dump() + " variant=" + std::to_string(vi));
			Interpolation I;
			if(v.kind == 0)
				I = Interpolation(x, y, v.xd, v.fd);
			else
			{
				std::vector<std::vector<double>> rows;
				for(int i = 0; i < N; i++)
					rows.push_back({x[i], y[i]});
				I = Interpolation(rows, v.xd, v.fd);
			}
			double ux = (v.xd > 0 ? v.xd : 1.0) * sx, uy = (v.fd > 0 ? v.fd : 1.0) * sy;	  // total scale of abscissae / ordinates
			bool pow2 = (v.xd < 0 || v.xd == 2.0) && (v.fd < 0 || v.fd == 0.25 || v.fd == 2.0);
			double ymax = 0;
			for(double t : y0)
				ymax = std::max(ymax, std::fabs(t));
			ymax = std::max(ymax, 1.0);
			json ctx = {{"x", c["x"]}, {"y", c["y"]}, {"variant", vi}};
			for(int i = 0; i < N - 1; i++)
			{
				double h = x0[i + 1] - x0[i];
				// S: value at both knots
				double vl = I.Interpolate(x0[i] * ux), vr = I(x0[i + 1] * ux);
				checks += 2;
				if(vl != y0[i] * uy)
					S.add("knot-value", {{"ctx", ctx}, {"i", i}, {"got", vl / uy}, {"exp", y0[i]}});
				if(std::fabs(vr / uy - y0[i + 1]) > 64 * EPS * ymax)
					S.add("knot-value", {{"ctx", ctx}, {"i", i + 1}, {"got", vr / uy}, {"exp", y0[i + 1]}});
				bool unl = c["unl"][i].get<bool>() && c["unl"][i + 1].get<bool>();
				bool par = c["mode"].get<int>() == 1;
				for(int k = 1; k <= 3; k++)
				{
					double xq = (x0[i] + k * h / 4.0) * ux;
					double e0 = rat(c["q"][i][k - 1][0]), e1 = rat(c["q"][i][k - 1][1]), e2 = rat(c["q"][i][k - 1][2]);
					double g0 = I.Interpolate(xq) / uy, g1 = I.Derivative(xq, 1) * ux / uy, g2 = I.Derivative(xq, 2) * ux * ux / uy;
					double g3 = I.Derivative(xq, 3) * ux * ux * ux / uy, gd0 = I.Derivative(xq, 0) / uy, g4 = I.Derivative(xq, 4);
					double e3 = 6.0 * rat(c["a"][i]);
					checks += 6;
					double tol0 = 64 * EPS * ymax, tol1 = 256 * EPS * ymax / 1.0, tol2 = 1024 * EPS * ymax;
					// S: between the two ordinates
					double lo = std::min(y0[i], y0[i + 1]), hi = std::max(y0[i], y0[i + 1]);
					if(g0 < lo - tol0 || g0 > hi + tol0)
						S.add("overshoot", {{"ctx", ctx}, {"i", i}, {"k", k}, {"got", g0}, {"lo", lo}, {"hi", hi}});
					if(gd0 != g0)
						S.add("Derivative(x,0)!=Interpolate", {{"ctx", ctx}, {"i", i}, {"k", k}});
					if(g4 != 0.0)
						S.add("Derivative(x,4)!=0", {{"ctx", ctx}, {"i", i}, {"k", k}});
					// line / parabola data (limiter inactive): the data's own polynomial is a verdict
					bool verdict = par ? unl : (rat(c["a"][i]) == 0 && rat(c["b"][i]) == 0 && c["unl"][i].get<bool>() && false);
					Fails& F = verdict ? S : A;
					const char* tag = verdict ? "parabola-exactness" : "steffen-value";
					double sc = par ? 256.0 : 1.0;   // parabola tables reach |y| ~ 2^8
					if(std::fabs(g0 - e0) > tol0 * sc)
						F.add(std::string(tag) + " f", {{"ctx", ctx}, {"i", i}, {"k", k}, {"got", g0}, {"exp", e0}});
					if(std::fabs(g1 - e1) > tol1 * sc)
						F.add(std::string(tag) + " f'", {{"ctx", ctx}, {"i", i}, {"k", k}, {"got", g1}, {"exp", e1}});
					if(std::fabs(g2 - e2) > tol2 * sc)
						F.add(std::string(tag) + " f''", {{"ctx", ctx}, {"i", i}, {"k", k}, {"got", g2}, {"exp", e2}});
					if(std::fabs(g3 - e3) > tol2 * sc)
						F.add(std::string(tag) + " f'''", {{"ctx", ctx}, {"i", i}, {"k", k}, {"got", g3}, {"exp", e3}});
					// power-of-two scalings must reproduce the unscaled lattice output bit for bit
					if(vi >= 4 && pow2)
					{
						Interpolation J(x0, y0);
						double b0 = J.Interpolate(x0[i] + k * h / 4.0);
						checks++;
						if(g0 != b0)
							S.add("pow2-equivariance", {{"ctx", ctx}, {"i", i}, {"k", k}, {"scaled", g0}, {"unscaled", b0}});
					}
				}
			}
			// S: straight-line data are reproduced exactly (every piece is the line)
			bool collinear = true;
			for(int i = 0; i + 2 < N; i++)
				collinear = collinear && ((y0[i + 1] - y0[i]) * (x0[i + 2] - x0[i + 1]) == (y0[i + 2] - y0[i + 1]) * (x0[i + 1] - x0[i]));
			if(collinear)
			{
				double slope = (y0[1] - y0[0]) / (x0[1] - x0[0]);
				for(int i = 0; i < N - 1; i++)
					for(int k = 0; k <= 4; k++)
					{
						double xx = x0[i] + k * (x0[i + 1] - x0[i]) / 4.0;
						double g  = I.Interpolate(xx * ux) / uy, e = y0[0] + slope * (xx - x0[0]);
						checks++;
						if(std::fabs(g - e) > 16 * EPS * ymax)
							S.add("line-exactness", {{"ctx", ctx}, {"i", i}, {"k", k}, {"got", g}, {"exp", e}});
						if(std::fabs(I.Derivative(xx * ux, 1) * ux / uy - slope) > 64 * EPS * ymax)
							S.add("line-exactness f'", {{"ctx", ctx}, {"i", i}, {"k", k}});
					}
			}
			// C08 on the lattice: integrals between knots, extrema between knots, with prefactors
			if(vi == 0)
			{
				static const double PFS[] = {1.0, -2.0, -0.5, 0.25, 3.0, 1099511627776.0 /*2^40*/, -9.094947017729282e-13 /*-2^-40*/};
				double pf				  = PFS[n % 7];
				if(n % 2)
					I.Set_Prefactor(pf);
				else
				{
					I.Set_Prefactor(-1.0);
					I.Multiply(-pf);
				}
				std::vector<double> cum(N, 0.0);
				for(int i = 0; i < N - 1; i++)
					cum[i + 1] = cum[i] + rat(c["integ"][i]);
				for(int i = 0; i < N; i++)
					for(int j = 0; j < N; j++)
					{
						double g = I.Integrate(x0[i], x0[j]), e = pf * (cum[j] - cum[i]);
						checks++;
						if(std::fabs(g - e) > 256 * EPS * std::fabs(pf) * ymax * (x0[N - 1] - x0[0]))
							A.add("steffen-integral", {{"ctx", ctx}, {"i", i}, {"j", j}, {"got", g}, {"exp", e}, {"pf", pf}});
						if(i <= j)
						{
							double lo = INFINITY, hi = -INFINITY;
							for(int k = i; k <= j; k++)
							{
								lo = std::min(lo, pf * y0[k]);
								hi = std::max(hi, pf * y0[k]);
							}
							double gmin = I.Local_Minimum(x0[i], x0[j]), gmax = I.Local_Maximum(x0[i], x0[j]);
							checks += 2;
							if(std::fabs(gmin - lo) > 64 * EPS * std::fabs(pf) * ymax)
								S.add("Local_Minimum(knot,knot)", {{"ctx", ctx}, {"i", i}, {"j", j}, {"got", gmin}, {"exp", lo}, {"pf", pf}});
							if(std::fabs(gmax - hi) > 64 * EPS * std::fabs(pf) * ymax)
								S.add("Local_Maximum(knot,knot)", {{"ctx", ctx}, {"i", i}, {"j", j}, {"got", gmax}, {"exp", hi}, {"pf", pf}});
						}
					}
				double lo = INFINITY, hi = -INFINITY;
				for(double t : y0)
				{
					lo = std::min(lo, pf * t);
					hi = std::max(hi, pf * t);
				}
				if(I.Global_Minimum() != lo)
					S.add("Global_Minimum", {{"ctx", ctx}, {"got", I.Global_Minimum()}, {"exp", lo}, {"pf", pf}});
				if(I.Global_Maximum() != hi)
					S.add("Global_Maximum", {{"ctx", ctx}, {"got", I.Global_Maximum()}, {"exp", hi}, {"pf", pf}});
			}
		}
	}
	finished();
	std::cout << json {{"cases", n}, {"checks", checks}, {"sfail", S.n}, {"fails", S.list}, {"drift", A.n}, {"drifts", A.list}}.dump() << std::endl;
	return 0;
}

// ------------------------------------------------------------------------------------------------ replay 2D
static int replay2d(const std::string& path)
{
	guard_install(600);
	auto cases = read_ndjson(path);
	Fails S;
	long n = 0, checks = 0;
	Rng g(99);
	for(auto& c : cases)
	{
		std::vector<double> f = c["f"].get<std::vector<double>>();
		n++;
		// embed the cell (f0,f1,f2,f3) at a random position of a random non-uniform dyadic grid
		int Nx = (int)g.range(3, 5), Ny = (int)g.range(3, 5), ci = (int)g.range(0, Nx - 2), cj = (int)g.range(0, Ny - 2);
		std::vector<double> xs(Nx), ys(Ny);
		xs[0] = (double)g.range(-4, 4);
		ys[0] = (double)g.range(-4, 4);
		for(int i = 1; i < Nx; i++)
			xs[i] = xs[i - 1] + std::ldexp(1.0, (int)g.range(-2, 3));
		for(int j = 1; j < Ny; j++)
			ys[j] = ys[j - 1] + std::ldexp(1.0, (int)g.range(-2, 3));
		std::vector<std::vector<double>> F(Nx, std::vector<double>(Ny));
		for(auto& r : F)
			for(auto& v : r)
				v = (double)g.range(-2, 2);
		F[ci][cj]		  = f[0];
		F[ci + 1][cj]	  = f[1];
		F[ci + 1][cj + 1] = f[2];
		F[ci][cj + 1]	  = f[3];
		intent("2D cell " + c["f"].dump());
		Interpolation_2D I(xs, ys, F);
		std::vector<std::vector<double>> table;
		for(int i = 0; i < Nx; i++)
			for(int j = 0; j < Ny; j++)
				table.push_back({xs[i], ys[j], F[i][j]});
		Interpolation_2D J(table, 2.0, 0.5, 4.0);	// table constructor with unit factors
		for(int a = 0; a <= 4; a++)
			for(int b = 0; b <= 4; b++)
			{
				double x = xs[ci] + a * (xs[ci + 1] - xs[ci]) / 4.0, y = ys[cj] + b * (ys[cj + 1] - ys[cj]) / 4.0;
				double e = rat(c["v"][std::to_string(a)][std::to_string(b)]);
				double g1 = I.Interpolate(x, y), g2 = J(x * 2.0, y * 0.5) / 4.0;
				checks += 2;
				if(std::fabs(g1 - e) > 8 * EPS * 4 || std::fabs(g2 - e) > 8 * EPS * 4)
					S.add("bilinear-value", {{"f", c["f"]}, {"a", a}, {"b", b}, {"got", g1}, {"got_table_ctor", g2}, {"exp", e}, {"cell", {ci, cj}}});
			}
	}
	finished();
	std::cout << json {{"cases", n}, {"checks", checks}, {"sfail", S.n}, {"fails", S.list}, {"drift", 0}, {"drifts", json::array()}}.dump() << std::endl;
	return 0;
}

// ------------------------------------------------------------------------------------------------ record C01
// cubic through four samples (t_k, v_k): returns value-scaled derivatives p'(t0) h, p''(t0) h^2, p''' h^3 at t0
static void cubic_derivs(const long double t[4], const long double v[4], long double t0, long double h, long double out[3])
{
	// Newton divided differences
	long double d1[3], d2[2], d3;
	for(int i = 0; i < 3; i++)
		d1[i] = (v[i + 1] - v[i]) / (t[i + 1] - t[i]);
	for(int i = 0; i < 2; i++)
		d2[i] = (d1[i + 1] - d1[i]) / (t[i + 2] - t[i]);
	d3 = (d2[1] - d2[0]) / (t[3] - t[0]);
	// p(s) = v0 + d1_0 (s-t0') + d2_0 (s-t0')(s-t1') + d3 (s-t0')(s-t1')(s-t2')
	long double a = t0 - t[0], b = t0 - t[1], c = t0 - t[2];
	long double p1 = d1[0] + d2[0] * (a + b) + d3 * (a * b + a * c + b * c);
	long double p2 = 2 * d2[0] + 2 * d3 * (a + b + c);
	long double p3 = 6 * d3;
	out[0] = p1 * h;
	out[1] = p2 * h * h;
	out[2] = p3 * h * h * h;
}

static void record_table01(Trace& T, Rng& g, int N)
{
	Table t = random_table(g, N);
	// optional unit factors / construction from rows
	double xd = g.coin(0.25) ? std::pow(10.0, g.uni(-3, 3)) : -1.0, fd = g.coin(0.25) ? std::pow(10.0, g.uni(-3, 3)) : -1.0;
	bool rows = g.coin(0.3);
	intent("construct N=" + std::to_string(N));
	Interpolation I;
	if(rows)
	{
		std::vector<std::vector<double>> r;
		for(int i = 0; i < N; i++)
			r.push_back({t.x[i], t.y[i]});
		I = Interpolation(r, xd, fd);
	}
	else
		I = Interpolation(t.x, t.y, xd, fd);
	if(xd > 0)
		for(double& v : t.x)
			v *= xd;
	if(fd > 0)
		for(double& v : t.y)
			v *= fd;
	// optionally a prefactor set before any query (Set_Prefactor / Multiply, as Perform_KDE does): every clause is then about the scaled curve
	if(g.coin(0.4))
	{
		double pf = (g.coin(0.4) ? -1.0 : 1.0) * std::ldexp(1.0, (int)g.range(-30, 30));
		if(g.coin())
			I.Set_Prefactor(pf);
		else
		{
			I.Multiply(-2.0);
			I.Multiply(pf / -2.0);
		}
		for(double& v : t.y)
			v *= pf;
	}
	T.emit({{"e", "Reset"}, {"N", N}, {"dim", 1}});
	const int M = 64;
	std::vector<double> midv(N - 1), knotr(N - 1);
	for(int i = 0; i < N - 1; i++)
	{
		double a = t.x[i], b = t.x[i + 1], h = b - a, ya = t.y[i], yb = t.y[i + 1];
		midv[i] = I.Interpolate(a + 0.5 * h);
		double scale = std::max({std::fabs(ya), std::fabs(yb), 1e-300});
		double slack = 64 * EPS * scale;
		int sg		 = sgn(yb - ya);
		intent("interval " + std::to_string(i) + " of N=" + std::to_string(N));
		long nviol = 0, nout = 0;
		double prev = I.Interpolate(a);
		double lo = std::min(ya, yb), hi = std::max(ya, yb);
		std::vector<double> pts;
		pts.push_back(std::nextafter(a, INFINITY));
		for(int k = 1; k < M; k++)
			pts.push_back(a + h * (k / (double)M));
		pts.push_back(a + h * g.u01());
		pts.push_back(std::nextafter(b, -INFINITY));
		std::sort(pts.begin(), pts.end());
		pts.push_back(b);
		for(double x : pts)
		{
			if(!(x > a) || x > b)
				continue;
			double v = I.Interpolate(x);
			if((v - prev) * sg < -slack || (sg == 0 && std::fabs(v - ya) > slack) || std::isnan(v))
				nviol++;
			if(v < lo - slack || v > hi + slack || std::isnan(v))
				nout++;
			prev = v;
		}
		// knots: left exactly, right within rounding
		double kl = I(a), kr = I(b);
		// C1: jump of the first derivative across the right knot, measured by one-sided evaluation just left / right of it
		long c1q = 0;
		if(i + 2 < N)
		{
			double xl = std::nextafter(b, -INFINITY), xr = b;
			double dl = I.Derivative(xl, 1), dr = I.Derivative(xr, 1);
			double h2 = t.x[i + 2] - b;
			double dscale = std::max({std::fabs(yb - ya) / h, std::fabs(t.y[i + 2] - yb) / h2, scale / std::max(h, h2) * 1e-3});
			// the derivative itself changes by ~ f'' * ulp(b) between the two arguments: allow for it
			double curv = (std::fabs(I.Derivative(xl, 2)) + std::fabs(I.Derivative(xr, 2))) * (xr - xl);
			c1q = quant(std::max(0.0, std::fabs(dl - dr) - 4 * curv), 4096 * EPS * dscale);
		}
		// reported derivatives are the derivatives of the returned curve (cubic reconstructed from four samples)
		long double tt[4], vv[4], out[3];
		static const double frac[4] = {0.125, 0.375, 0.625, 0.875};
		long double vmax = scale;
		for(int k = 0; k < 4; k++)
		{
			double x = a + h * frac[k];
			tt[k]	 = (long double)x - (long double)a;
			vv[k]	 = I.Interpolate(x);
			vmax	 = std::max(vmax, fabsl(vv[k]));
		}
		int k0		= (int)g.range(0, 3);
		double xq	= a + h * frac[k0];
		cubic_derivs(tt, vv, tt[k0], h, out);
		double unit = 1e5 * EPS * (double)vmax;
		long dq1 = quant((double)(I.Derivative(xq, 1) * (long double)h - out[0]), unit);
		long dq2 = quant((double)(I.Derivative(xq, 2) * (long double)h * h - out[1]), unit);
		long dq3 = quant((double)(I.Derivative(xq, 3) * (long double)h * h * h - out[2]), unit);
		long dq0 = (I.Derivative(xq, 0) == I.Interpolate(xq) && I.Derivative(xq, 5) == 0.0) ? 0 : 2;
		knotr[i] = kr;
		T.emit({{"e", "Interval"}, {"i", i + 1}, {"sg", sg}, {"nviol", nviol}, {"nout", nout}, {"kl", ulpdist(kl, ya, 1000)},
				{"kr", quant(kr - yb, slack)}, {"c1q", c1q}, {"dq0", dq0}, {"dq1", dq1}, {"dq2", dq2}, {"dq3", dq3}});
	}
	// the 1% extrapolation zones: value continuous with the edge piece (within rounding of the edge ordinate + slope * distance)
	for(int end = 0; end < 2; end++)
	{
		double edge = end == 0 ? t.x[0] : t.x[N - 1], h = end == 0 ? t.x[1] - t.x[0] : t.x[N - 1] - t.x[N - 2];
		double x = edge + (end == 0 ? -1 : 1) * 0.9e-2 * h * g.u01();
		intent("zone");
		double v  = I.Interpolate(x);
		double ye = end == 0 ? t.y[0] : t.y[N - 1], yn = end == 0 ? t.y[1] : t.y[N - 2];
		// inside the zone the curve may move by at most ~ 3 |secant| * 1% of the interval
		double bound = 0.2 * std::fabs(yn - ye) + 64 * EPS * std::max(std::fabs(ye), std::fabs(yn)) + 1e-300;
		T.emit({{"e", "Zone"}, {"end", end}, {"q", quant(v - ye, bound)}});
	}
	// the same curve whatever the order of the queries: revisit intervals after priming the object elsewhere (far jumps, short correlated
	// steps, jumps to the first and last intervals); every value must be the one observed in the sequential pass, bit for bit
	{
		long nq = 0, ndiff = 0, nbad = 0;
		int R = std::min(400, 6 * N);
		for(int r = 0; r < R; r++)
		{
			int s1 = (int)g.range(0, N - 2), t1 = g.coin(0.3) ? N - 2 : (g.coin(0.2) ? 0 : (int)g.range(0, N - 2));
			intent("revisit");
			I.Interpolate(t.x[s1] + 0.5 * (t.x[s1 + 1] - t.x[s1]));
			int s2 = std::min(N - 2, s1 + (int)g.range(0, 2));
			I.Interpolate(t.x[s2] + 0.25 * (t.x[s2 + 1] - t.x[s2]));
			double v = I.Interpolate(t.x[t1] + 0.5 * (t.x[t1 + 1] - t.x[t1]));
			double k = I.Interpolate(t.x[t1 + 1]);
			nq += 2;
			if(bits(v) != bits(midv[t1]))
				ndiff++;
			if(bits(k) != bits(knotr[t1]))
				ndiff++;
			double slack = 64 * EPS * std::max({std::fabs(t.y[t1]), std::fabs(t.y[t1 + 1]), 1e-300});
			if(!(std::fabs(k - t.y[t1 + 1]) <= slack))
				nbad++;
		}
		T.emit({{"e", "Revisit"}, {"nq", nq}, {"ndiff", ndiff}, {"nbad", nbad}});
	}
}

static void record_grid01(Trace& T, Rng& g, int Nx, int Ny)
{
	Table tx = random_table(g, Nx, -1, 0), ty = random_table(g, Ny, -1, 0);
	std::vector<std::vector<double>> F(Nx, std::vector<double>(Ny));
	int fstyle = (int)g.range(0, 3);	  // 3: entries of mixed magnitude (1e-20 .. 1e20 side by side)
	double mag = std::pow(10.0, g.uni(-10, 10));
	double al = g.gauss(), be = g.gauss(), ga = g.gauss(), de = g.gauss();
	for(int i = 0; i < Nx; i++)
		for(int j = 0; j < Ny; j++)
			F[i][j] = fstyle == 0 ? g.gauss() * mag : (fstyle == 1 ? (double)g.range(-2, 2) : (fstyle == 3 ? g.gauss() * std::pow(10.0, g.uni(-20, 20)) : mag * (al + be * tx.x[i] + ga * ty.x[j] + de * tx.x[i] * ty.x[j])));
	intent("construct 2D");
	Interpolation_2D I(tx.x, ty.x, F);
	T.emit({{"e", "Reset"}, {"N", (Nx - 1) * (Ny - 1) + 1}, {"dim", 2}});
	int cell = 0;
	for(int i = 0; i < Nx - 1; i++)
		for(int j = 0; j < Ny - 1; j++)
		{
			cell++;
			double f0 = F[i][j], f1 = F[i + 1][j], f2 = F[i + 1][j + 1], f3 = F[i][j + 1];
			double lo = std::min({f0, f1, f2, f3}), hi = std::max({f0, f1, f2, f3});
			double scale = std::max({std::fabs(lo), std::fabs(hi), 1e-300}), slack = 16 * EPS * scale;
			long nout = 0, nodeq = 0, edgeq = 0, bilq = 0;
			intent("cell " + std::to_string(i) + "," + std::to_string(j));
			double x0 = tx.x[i], x1 = tx.x[i + 1], y0 = ty.x[j], y1 = ty.x[j + 1];
			// grid values at grid nodes: to the rounding of the node's OWN value (the weights of the other corners vanish there)
			auto nodeslack = [&](double f) { return 16 * EPS * std::max(std::fabs(f), 1e-300); };
			nodeq = std::max({quant(I(x0, y0) - f0, nodeslack(f0)), quant(I(x1, y0) - f1, nodeslack(f1)), quant(I(x1, y1) - f2, nodeslack(f2)), quant(I(x0, y1) - f3, nodeslack(f3))});
			for(int k = 0; k < 24; k++)
			{
				double x = x0 + (x1 - x0) * g.u01(), y = y0 + (y1 - y0) * g.u01();
				if(k < 4)
					x = k % 2 ? std::nextafter(x1, -INFINITY) : std::nextafter(x0, INFINITY);
				if(k >= 2 && k < 6)
					y = k % 2 ? std::nextafter(y1, -INFINITY) : std::nextafter(y0, INFINITY);
				double v = I.Interpolate(x, y);
				if(v < lo - slack || v > hi + slack || std::isnan(v))
					nout++;
				if(fstyle == 2)
				{	// unit: rounding of the corner ordinates, whose terms are as large as at the far corners of the cell (not as at the query point)
					double ax = std::max(std::fabs(x0), std::fabs(x1)), ay = std::max(std::fabs(y0), std::fabs(y1));
					bilq = std::max(bilq, quant(v - mag * (al + be * x + ga * y + de * x * y), 64 * EPS * mag * (std::fabs(al) + std::fabs(be) * ax + std::fabs(ga) * ay + std::fabs(de) * ax * ay)));
				}
			}
			// continuity across the cell's upper edges: approach the shared edge from both sides
			if(i + 2 < Nx)
			{
				double y = y0 + (y1 - y0) * g.u01();
				double xb = std::nextafter(x1, -INFINITY);
				double vl = I(xb, y), vr = I(x1, y);
				// moving the argument by one ulp moves the bilinear value by |df| * ulp / h: allow for it
				edgeq = std::max(edgeq, quant(vl - vr, 64 * EPS * scale + (std::fabs(f1 - f0) + std::fabs(f2 - f3)) * 4 * (x1 - xb) / (x1 - x0)));
			}
			if(j + 2 < Ny)
			{
				double x = x0 + (x1 - x0) * g.u01();
				double yb = std::nextafter(y1, -INFINITY);
				double vl = I(x, yb), vr = I(x, y1);
				edgeq = std::max(edgeq, quant(vl - vr, 64 * EPS * scale + (std::fabs(f3 - f0) + std::fabs(f2 - f1)) * 4 * (y1 - yb) / (y1 - y0)));
			}
			T.emit({{"e", "Cell"}, {"i", cell}, {"nout", nout}, {"nodeq", nodeq}, {"edgeq", edgeq}, {"bilq", bilq}});
		}
}

static int record01(uint64_t seed, const std::string& tier, const std::string& out)
{
	guard_install(1500);
	Trace T(out);
	Rng g(seed);
	bool quick = tier == "quick";
	int tables = quick ? 250 : 4000;
	for(int e = 0; e < tables; e++)
	{
		double r = g.u01();
		int N	 = r < 0.4 ? (int)g.range(3, 8) : (r < 0.85 ? (int)g.range(9, 60) : (int)g.range(61, 400));
		record_table01(T, g, N);
		if(e % 5 == 0)
			record_grid01(T, g, (int)g.range(3, 9), (int)g.range(3, 9));
	}
	T.emit({{"e", "Reset"}, {"N", 1}, {"dim", 0}});	 // closes the last table
	finished();
	return 0;
}

// ------------------------------------------------------------------------------------------------ record C08
struct PfState
{
	std::vector<std::pair<bool, double>> ops;
	double value = 1.0;
};
static void pow2_relation(double u, double f1, int& sg, int& ex)
{
	if(f1 == 0.0 && u == 0.0)
	{
		sg = 0;
		ex = 0;
		return;
	}
	if(std::fabs(f1) < 1e-280 || std::fabs(u) < 1e-280)
	{
		sg = 0;	  // subnormal range: scaling by a power of two is no longer exact
		ex = 0;
		return;
	}
	if(f1 == 0.0 || u == 0.0 || !std::isfinite(u) || !std::isfinite(f1))
	{
		sg = 2;
		ex = 0;
		return;
	}
	double ratio = u / f1;
	sg			 = ratio > 0 ? 1 : -1;
	ex			 = std::ilogb(std::fabs(ratio));
	if(u != sg * std::ldexp(f1, ex))
		sg = 2;
}

static void record_table08(Trace& T, Rng& g, int N, int steps)
{
	Table t = random_table(g, N);
	intent("construct N=" + std::to_string(N));
	Interpolation I(t.x, t.y), U(t.x, t.y);	  // U keeps the unit prefactor
	T.emit({{"e", "Reset"}, {"N", N}});
	double pf = 1.0;
	double ymax = 1e-300;
	for(double v : t.y)
		ymax = std::max(ymax, std::fabs(v));
	auto arg = [&](bool allow_zone) {
		int p = (int)g.range(allow_zone ? 0 : 1, allow_zone ? 2 * N : 2 * N - 1);
		if(g.coin(0.25))
			p = (int)(2 * g.range(0, N - 1) + 1);
		return point_of(t, p, (int)g.range(0, 3), &g);
	};
	for(int s = 0; s < steps; s++)
	{
		double r = g.u01();
		if(r < 0.12)
		{
			int e	 = (int)g.range(-45, 45);
			int sg	 = g.coin(0.4) ? -1 : 1;
			bool set = g.coin();
			if(g.coin(0.25))
			{	// a huge or tiny prefactor (|pf| ~ 1e+-270..300), as long as the scaled curve and its integral stay ordinary doubles
				int ee		= (g.coin() ? 1 : -1) * (int)g.range(900, 995);
				double span = t.x[N - 1] - t.x[0];
				double big	= std::ldexp(ymax, ee) * std::max(1.0, span), small = std::ldexp(ymax, ee) * std::min(1.0, span / N);
				if(std::isfinite(big) && big < 1e305 && small > 1e-280)
				{
					e	= ee;
					set = true;
				}
			}
			if(!set && std::fabs(std::log2(std::fabs(pf)) + e) > 300)
				set = true;	  // multiplying on would leave the range in which the scaled curve is an ordinary double
			double f = sg * std::ldexp(1.0, e);
			if(set)
			{
				I.Set_Prefactor(f);
				pf = f;
			}
			else
			{
				I.Multiply(f);
				pf *= f;
			}
			T.emit({{"e", set ? "SetPf" : "Mul"}, {"sg", sg}, {"ex", e}});
			continue;
		}
		if(r < 0.5)
		{
			// integrals
			double x1 = arg(true), x2 = arg(true), x3 = arg(true);
			intent("Integrate");
			double i12 = I.Integrate(x1, x2), i23 = I.Integrate(x2, x3), i13 = I.Integrate(x1, x3), i21 = I.Integrate(x2, x1);
			// rounding allowance: the antiderivative is evaluated per piece, so its error scales with the ordinates times
			// the total width of the pieces touched (not with the possibly much smaller distance between the limits)
			auto seg0 = [&](double xx) { int cc = code_of(t, xx); return cc <= 1 ? 0 : std::min((cc - 1) / 2, N - 2); };
			int sl = std::min({seg0(x1), seg0(x2), seg0(x3)}), sr = std::max({seg0(x1), seg0(x2), seg0(x3)});
			double span = t.x[sr + 1] - t.x[sl];
			double unit = 2048 * EPS * std::fabs(pf) * ymax * std::max(span, 1e-300) + 1e-300;
			// exact integral of the curve returned by Interpolate: Simpson's rule is exact for each cubic piece
			double lo = std::min(x1, x2), hi = std::max(x1, x2);
			int c1 = code_of(t, lo), c2 = code_of(t, hi);
			auto seg = [&](int c) { return c <= 1 ? 0 : std::min((c - 1) / 2, N - 2); };
			long double simpson = 0;
			double a = lo;
			bool resolvable = true;
			for(int k = seg(c1); k <= seg(c2); k++)
			{
				double b = (k == seg(c2)) ? hi : t.x[k + 1];
				if(b > a)
				{
					// cubic through four samples strictly inside piece k (the knot b belongs to the next piece; the curve is
					// continuous), integrated analytically; node offsets are exact differences of doubles
					double be = (b == t.x[k + 1]) ? std::nextafter(b, -INFINITY) : b;
					double xs4[4] = {a, a + (be - a) / 3.0, a + 2.0 * (be - a) / 3.0, be};
					if(!(xs4[0] < xs4[1] && xs4[1] < xs4[2] && xs4[2] < xs4[3]))
						resolvable = false;	  // the limits are only a few ulps apart: nothing to interpolate
					else
					{
						long double tt[4], vv[4];
						for(int q = 0; q < 4; q++)
						{
							tt[q] = (long double)xs4[q] - (long double)a;
							vv[q] = I.Interpolate(xs4[q]);
						}
						long double d1[3], d2[2], d3;
						for(int q = 0; q < 3; q++)
							d1[q] = (vv[q + 1] - vv[q]) / (tt[q + 1] - tt[q]);
						for(int q = 0; q < 2; q++)
							d2[q] = (d1[q + 1] - d1[q]) / (tt[q + 2] - tt[q]);
						d3 = (d2[1] - d2[0]) / (tt[3] - tt[0]);
						long double L = (long double)b - (long double)a, t1 = tt[1], t2 = tt[2];
						simpson += vv[0] * L + (d1[0] - d2[0] * t1 + d3 * t1 * t2) * L * L / 2 + (d2[0] - d3 * (t1 + t2)) * L * L * L / 3 + d3 * L * L * L * L / 4;
					}
				}
				a = b;
			}
			int sg, ex;
			pow2_relation(i12, U.Integrate(x1, x2), sg, ex);
			// bounds: min * length <= I <= max * length (over the ordered interval)
			double mn = I.Local_Minimum(lo, hi), mx = I.Local_Maximum(lo, hi), len = hi - lo;
			double iord = I.Integrate(lo, hi);
			bool bnd	= iord >= mn * len - unit && iord <= mx * len + unit;
			if(getenv("VERIF_DEBUG") && sg == 2)
				fprintf(stderr, "DBGSG N=%d x1=%.17g x2=%.17g i12=%.17g u12=%.17g pf=%g\n", N, x1, x2, i12, U.Integrate(x1, x2), pf);
			if(getenv("VERIF_DEBUG") && (!bnd || (resolvable && quant((double)((long double)iord - simpson), unit) > 1)))
				fprintf(stderr, "DBG N=%d lo=%.17g hi=%.17g iord=%.17g simpson=%.17Lg mn=%.17g mx=%.17g unit=%g pf=%g ymax=%g x0=%.17g xN=%.17g\n", N, lo, hi, iord, simpson, mn, mx, unit, pf, ymax, t.x[0], t.x[N - 1]);
			T.emit({{"e", "Integ"}, {"addq", quant(i12 + i23 - i13, unit)}, {"anti", bits(i21) == bits(-i12) || (i12 == 0 && i21 == 0)},
					{"simpq", resolvable ? quant((double)((long double)iord - simpson), unit) : 0}, {"bnd", bnd}, {"sg", sg}, {"ex", ex}});
			continue;
		}
		// extrema
		bool global = g.coin(0.2);
		double x1 = arg(true), x2 = arg(true);	 // limits may lie in the 1% extrapolation zones
		if(x2 < x1)
			std::swap(x1, x2);
		if(global)
		{
			x1 = t.x[0];
			x2 = t.x[N - 1];
		}
		intent(global ? "Global extrema" : "Local extrema");
		double mn = global ? I.Global_Minimum() : I.Local_Minimum(x1, x2), mx = global ? I.Global_Maximum() : I.Local_Maximum(x1, x2);
		double umn = global ? U.Global_Minimum() : U.Local_Minimum(x1, x2), umx = global ? U.Global_Maximum() : U.Local_Maximum(x1, x2);
		double slack = 64 * EPS * std::fabs(pf) * ymax + 1e-300;	 // (tables of zeros: the unit must not vanish)
		long below = 0, above = 0;
		double smin = INFINITY, smax = -INFINITY;
		int c1 = code_of(t, x1), c2 = code_of(t, x2);
		std::vector<double> pts = {x1, x2};
		for(int k = 0; k < N; k++)
			if(t.x[k] >= x1 && t.x[k] <= x2)
				pts.push_back(t.x[k]);
		// outside the table the continued edge cubic may turn around: its stationary points (located through the sign of the first
		// derivative, 64 samples + bisection) are candidates for the extrema as well
		auto add_stationary = [&](double lo, double hi) {
			if(!(lo < hi) || global)
				return;
			double px = lo, pd = U.Derivative(lo, 1);
			for(int k = 1; k <= 64; k++)
			{
				double x = lo + (hi - lo) * k / 64.0, d = U.Derivative(x, 1);
				if((pd < 0 && d > 0) || (pd > 0 && d < 0))
				{
					double a = px, b = x;
					bool na = pd < 0;
					for(int it = 0; it < 80; it++)
					{
						double m = 0.5 * (a + b);
						if((U.Derivative(m, 1) < 0) == na)
							a = m;
						else
							b = m;
					}
					pts.push_back(0.5 * (a + b));
				}
				px = x;
				pd = d;
			}
		};
		add_stationary(x1, std::min(x2, t.x[0]));
		add_stationary(std::max(x1, t.x[N - 1]), x2);
		size_t exact_pts = pts.size();
		for(int k = 0; k < 40; k++)
			pts.push_back(x1 + (x2 - x1) * g.u01());
		(void)c1;
		(void)c2;
		for(size_t k = 0; k < pts.size(); k++)
		{
			double v = I.Interpolate(pts[k]);
			if(v < mn - slack)
				below++;
			if(v > mx + slack)
				above++;
			if(k < exact_pts)
			{
				smin = std::min(smin, v);
				smax = std::max(smax, v);
			}
		}
		// the reported extrema are attained (at an end point, a tabulated point or a stationary point of the continued edge cubic)
		long attq = std::max(quant(smin - mn, slack), quant(smax - mx, slack));
		// scaling with the prefactor: min/max exchange when it is negative
		int sg, ex, sg2, ex2;
		bool flip = pf < 0;
		pow2_relation(mn, flip ? umx : umn, sg, ex);
		pow2_relation(mx, flip ? umn : umx, sg2, ex2);
		if(sg == 0)
		{
			sg = sg2;
			ex = ex2;
		}
		if(sg2 != 0 && (sg2 != sg || ex2 != ex))
			sg = 2;
		if(getenv("VERIF_DEBUG") && (sg == 2 || below || above || attq > 1))
		{
			fprintf(stderr, "DBGEXT N=%d global=%d x1=%.17g x2=%.17g mn=%.17g mx=%.17g umn=%.17g umx=%.17g pf=%g below=%ld above=%ld attq=%ld slack=%g smin=%.17g smax=%.17g\n", N, (int)global, x1, x2, mn, mx, umn, umx, pf, below, above, (long)attq, slack, smin, smax);
			for(int k = 0; k < N; k++)
				fprintf(stderr, "   x=%.17g y=%.17g\n", t.x[k], t.y[k]);
		}
		T.emit({{"e", "Ext"}, {"global", global}, {"below", below}, {"above", above}, {"attq", attq}, {"sg", sg}, {"ex", ex}});
	}
}

static void record_grid08(Trace& T, Rng& g)
{
	int Nx = (int)g.range(3, 8), Ny = (int)g.range(3, 8);
	Table tx = random_table(g, Nx, -1, 0), ty = random_table(g, Ny, -1, 0);
	std::vector<std::vector<double>> F(Nx, std::vector<double>(Ny));
	double mag = std::pow(10.0, g.uni(-10, 10)), off = g.coin() ? 0.0 : g.gauss() * 3;
	for(auto& r : F)
		for(auto& v : r)
			v = (g.gauss() + off) * mag;
	Interpolation_2D I(tx.x, ty.x, F), U(tx.x, ty.x, F);
	T.emit({{"e", "Reset"}, {"N", Nx}});
	// one long-lived object that is ASSIGNED a new table for every grid: it was the last one asked for its extrema (end of the previous
	// grid), and is now asked again with another table -- the extrema are those of the table it holds now
	static Interpolation_2D P;
	{
		P = Interpolation_2D(tx.x, ty.x, F);
		intent("2D global extrema of an object that was assigned a new table");
		double pmn = P.Global_Minimum(), pmx = P.Global_Maximum();
		double tmin = INFINITY, tmax = -INFINITY;
		for(auto& r : F)
			for(double v : r)
			{
				tmin = std::min(tmin, v);
				tmax = std::max(tmax, v);
			}
		double slack0 = 64 * EPS * mag * 8;
		long below = 0, above = 0;
		for(int k = 0; k < 30; k++)
		{
			double v = P(tx.x[0] + (tx.x[Nx - 1] - tx.x[0]) * g.u01(), ty.x[0] + (ty.x[Ny - 1] - ty.x[0]) * g.u01());
			below += v < pmn - slack0;
			above += v > pmx + slack0;
		}
		T.emit({{"e", "Ext"}, {"global", true}, {"below", below}, {"above", above}, {"attq", std::max(quant(tmin - pmn, slack0), quant(tmax - pmx, slack0))}, {"sg", 1}, {"ex", 0}});
	}
	double pf = 1.0;
	for(int s = 0; s < 12; s++)
	{
		if(g.coin(0.4))
		{
			int e	 = (int)g.range(-45, 45);
			int sg	 = g.coin(0.5) ? -1 : 1;
			bool set = g.coin();
			double f = sg * std::ldexp(1.0, e);
			if(set)
			{
				I.Set_Prefactor(f);
				pf = f;
			}
			else
			{
				I.Multiply(f);
				pf *= f;
			}
			T.emit({{"e", set ? "SetPf" : "Mul"}, {"sg", sg}, {"ex", e}});
			continue;
		}
		intent("2D global extrema");
		double mn = I.Global_Minimum(), mx = I.Global_Maximum(), umn = U.Global_Minimum(), umx = U.Global_Maximum();
		double slack = 64 * EPS * std::fabs(pf) * mag * 8;
		long below = 0, above = 0;
		double smin = INFINITY, smax = -INFINITY;
		for(int i = 0; i < Nx; i++)
			for(int j = 0; j < Ny; j++)
			{
				double v = I(tx.x[i], ty.x[j]);
				smin	 = std::min(smin, v);
				smax	 = std::max(smax, v);
			}
		for(int k = 0; k < 60; k++)
		{
			double v = I(tx.x[0] + (tx.x[Nx - 1] - tx.x[0]) * g.u01(), ty.x[0] + (ty.x[Ny - 1] - ty.x[0]) * g.u01());
			below += v < mn - slack;
			above += v > mx + slack;
		}
		int sg, ex, sg2, ex2;
		bool flip = pf < 0;
		pow2_relation(mn, flip ? umx : umn, sg, ex);
		pow2_relation(mx, flip ? umn : umx, sg2, ex2);
		if(sg == 0)
		{
			sg = sg2;
			ex = ex2;
		}
		if(sg2 != 0 && (sg2 != sg || ex2 != ex))
			sg = 2;
		T.emit({{"e", "Ext"}, {"global", true}, {"below", below}, {"above", above}, {"attq", std::max(quant(smin - mn, slack), quant(smax - mx, slack))}, {"sg", sg}, {"ex", ex}});
	}
	// (the long-lived object is the last one asked before the next grid is assigned to it)
	volatile double keep = P.Global_Minimum() + P.Global_Maximum();
	(void)keep;
}

static int record08(uint64_t seed, const std::string& tier, const std::string& out)
{
	guard_install(1500);
	Trace T(out);
	Rng g(seed);
	bool quick = tier == "quick";
	int tables = quick ? 150 : 2500;
	for(int e = 0; e < tables; e++)
	{
		double r = g.u01();
		int N	 = r < 0.4 ? (int)g.range(3, 8) : (r < 0.85 ? (int)g.range(9, 60) : (int)g.range(61, 400));
		record_table08(T, g, N, quick ? 60 : 120);
		if(e % 4 == 0)
			record_grid08(T, g);
	}
	finished();
	return 0;
}

int main(int argc, char** argv)
{
	std::string mode = argc > 1 ? argv[1] : "";
	if(mode == "replay1d" && argc == 3)
		return replay1d(argv[2]);
	if(mode == "replay2d" && argc == 3)
		return replay2d(argv[2]);
	if(mode == "record01" && argc == 5)
		return record01(std::strtoull(argv[2], nullptr, 10), argv[3], argv[4]);
	if(mode == "record08" && argc == 5)
		return record08(std::strtoull(argv[2], nullptr, 10), argv[3], argv[4]);
	std::cerr << "usage: interp replay1d|replay2d <vectors> | record01|record08 <seed> <tier> <out>" << std::endl;
	return 3;
}
