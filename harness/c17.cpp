// C17 — scalar special functions and vector spherical harmonics.   run <vectors> <seed> <tier> <trace>
#include "common.hpp"
#include "libphysica/Linear_Algebra.hpp"
#include "libphysica/Special_Functions.hpp"

#include <complex>

using namespace vf;
using namespace libphysica;
using cd = std::complex<double>;
static const double EPS = 2.220446049250313e-16;
static const double PI	= 3.14159265358979323846;

static double class_value(int c)
{
	switch(c)
	{
		case 0: return 0.0;
		case 10: return -0.0;
		case 3: return 1e-300;
		case -3: return -1e-300;
		case 4: return 1e300;
		case -4: return -1e300;
		default: return (double)c;
	}
}
static std::string phase_of(cd z)
{
	if(z == cd(0.0, 0.0))
		return "0";
	if(z.imag() == 0.0)
		return z.real() > 0 ? "+1" : "-1";
	if(z.real() == 0.0)
		return z.imag() > 0 ? "+i" : "-i";
	return "mixed";
}
// Dawson's integral from its definition D(x) = int_0^x exp(t^2 - x^2) dt: composite 16-point Gauss-Legendre in long double
// (the integrand is positive and bounded by one: no cancellation) -- the reference of the accuracy clause
static long double dawson_ref(long double x)
{
	static const long double gx[8] = {0.0950125098376374401853193L, 0.2816035507792589132304605L, 0.4580167776572273863424194L, 0.6178762444026437484466718L,
									  0.7554044083550030338951012L, 0.8656312023878317438804679L, 0.9445750230732325760779884L, 0.9894009349916499325961542L};
	static const long double gw[8] = {0.1894506104550684962853967L, 0.1826034150449235888667637L, 0.1691565193950025381893121L, 0.1495959888165767320815017L,
									  0.1246289712555338720524763L, 0.0951585116824927848099251L, 0.0622535239386478928628438L, 0.0271524594117540948517806L};
	long double ax = fabsl(x);
	if(ax == 0)
		return 0;
	// the integrand is negligible below t0 where x^2 - t^2 > 50
	long double t0 = ax * ax > 50.0L ? sqrtl(ax * ax - 50.0L) : 0.0L;
	int panels	   = 64;
	long double h = (ax - t0) / panels, s = 0;
	for(int p = 0; p < panels; p++)
	{
		long double c = t0 + (p + 0.5L) * h;
		for(int k = 0; k < 8; k++)
			for(int sg = -1; sg <= 1; sg += 2)
			{
				long double t = c + sg * 0.5L * h * gx[k];
				s += 0.5L * h * gw[k] * expl(t * t - ax * ax);
			}
	}
	return x < 0 ? -s : s;
}

int main(int argc, char** argv)
{
	guard_install(1500);
	if(argc != 6 || std::string(argv[1]) != "run")
	{
		finished();
		return 3;
	}
	auto cases = read_ndjson(argv[2]);
	Rng g(std::strtoull(argv[3], nullptr, 10));
	bool quick = std::string(argv[4]) == "quick";
	Trace T(argv[5]);
	// ---------------------------------------------------------------- replay of exported cases
	for(auto& c : cases)
	{
		std::string k = c["k"];
		if(k == "round")
		{
			// decimal inputs m * 10^e over 600 decades, both signs: Round must give r * 10^(e + shift)
			long m = c["m"], r = c["r"];
			int d = c["d"], shift = c["shift"].get<int>();
			int64_t worst = 0;
			bool odd	  = true;
			for(int e = -300; e <= 290; e += 7)
			{
				char b1[64], b2[64];
				std::snprintf(b1, sizeof b1, "%ldE%d", m, e);
				std::snprintf(b2, sizeof b2, "%ldE%d", r, e + shift);
				double x = std::strtod(b1, nullptr), ex = std::strtod(b2, nullptr);
				intent(std::string("Round(") + b1 + ")");
				double y = Round(x, (unsigned)d);
				worst	 = std::max(worst, ulpdist(y, ex));
				odd		 = odd && bits(Round(-x, (unsigned)d)) == bits(-y);
			}
			T.emit({{"e", "Round"}, {"m", m}, {"d", d}, {"ulp", worst}, {"odd", odd}});
		}
		else if(k == "roundtie")
		{
			long m = c["m"], r = c["r"];
			int d	 = c["d"];
			double x = (double)m / 10.0;	 // I + 0.5: exact in binary
			intent("Round tie");
			double y = Round(x, (unsigned)d), ym = Round(-x, (unsigned)d);
			T.emit({{"e", "Round"}, {"m", m}, {"d", d}, {"ulp", ulpdist(y, (double)r)}, {"odd", bits(ym) == bits(-y)}});
		}
		else if(k == "table")
		{
			double x = class_value(c["x"]), y = class_value(c["y"]);
			intent("Sign/Step/RelDiff/Floats_Equal");
			double s2 = Sign(x, y);
			double rd = Relative_Difference(x, y);
			T.emit({{"e", "Table"}, {"x", c["x"]}, {"y", c["y"]},
					{"sgn", Sign(x)}, {"sgnS", c["sgn"]}, {"step", (int)StepFunction(x)}, {"stepS", c["step"]},
					{"keeps", bits(s2) == bits(x) || (x == 0 && s2 == 0)}, {"flips", bits(s2) == bits(-x) || (x == 0 && s2 == 0)}, {"keepsS", c["keeps"]},
					{"rdzero", rd == 0.0}, {"rdrange", rd >= 0.0 && rd <= 2.0}, {"rdzeroS", c["rdzero"]},
					{"feq", Floats_Equal(x, y)}, {"feqS", c["feq"]}, {"feqsym", Floats_Equal(x, y) == Floats_Equal(y, x)}});
		}
		else if(k == "vsh")
		{
			int comp = c["comp"], l = c["l"], m = c["m"], lh = c["lh"], mh = c["mh"];
			if(lh < 0 || std::abs(mh) > lh)
				continue;	// such a term never enters the sums
			intent("VSH component");
			cd y = VSH_Y_Component(comp, l, m, lh, mh), p = VSH_Psi_Component(comp, l, m, lh, mh);
			auto sq = [](const json& q) { return (long double)q[0].get<int>() / (long double)q[1].get<int>(); };
			long double ys = sq(c["y"][1]), ps = sq(c["psi"][1]);
			T.emit({{"e", "VSH"}, {"comp", comp}, {"l", l}, {"m", m}, {"lh", lh}, {"mh", mh},
					{"yph", phase_of(y)}, {"yphS", c["y"][0]}, {"pph", phase_of(p)}, {"pphS", c["psi"][0]},
					{"ysq", quant((double)(std::norm(y) - ys), 8 * EPS * std::max((double)ys, 1e-300))}, {"psq", quant((double)(std::norm(p) - ps), 8 * EPS * std::max((double)ps, 1e-300))}});
		}
	}
	// ---------------------------------------------------------------- recorded relations
	auto obs = [&](const std::string& kind, double resid, double unit, bool ok = true) { T.emit({{"e", "Obs"}, {"kind", kind}, {"q", quant(resid, unit)}, {"ok", ok}}); };
	// Round on arbitrary doubles: odd, idempotent, monotone, within half a unit of the d-th digit
	int nr = quick ? 4000 : 80000;
	for(int i = 0; i < nr; i++)
	{
		int d	 = (int)g.range(1, 7);
		double x = std::pow(10.0, g.uni(-300, 300)) * g.uni(1, 10);
		if(i % 5 == 0)
			x = std::nextafter(std::pow(10.0, (double)g.range(-290, 290)), 0.0) * (1.0 - g.uni(0, 1e-9));	// just below a power of ten
		intent("Round random");
		double y = Round(x, d), y2 = Round(y, d), ym = Round(-x, d);
		double unit = std::pow(10.0, std::floor(std::log10(x)) - d + 1);
		double x2 = x * (1.0 + g.uni(0, 1) * std::pow(10.0, -d));
		obs("round_half", std::fabs(y - x), 0.5 * unit * (1.0 + 1e-9));
		obs("round_idem", std::fabs(y2 - y), 4 * EPS * std::fabs(y));
		obs("round_odd", 0.0, 1.0, bits(ym) == bits(-y));
		obs("round_mono", 0.0, 1.0, Round(x2, d) >= y * (1.0 - 4 * EPS));
		if(i % 20 == 0)
		{	// the Vector and Matrix overloads round entry by entry and keep the shape (any shape: wide, tall, single row or column)
			int vr = (int)g.range(1, 5), mr = (int)g.range(1, 4), mc = (int)g.range(1, 4);
			std::vector<double> ve(vr);
			std::vector<std::vector<double>> me(mr, std::vector<double>(mc));
			for(double& e : ve)
				e = (g.coin() ? 1 : -1) * std::pow(10.0, g.uni(-30, 30)) * g.uni(1, 10);
			for(auto& r : me)
				for(double& e : r)
					e = (g.coin() ? 1 : -1) * std::pow(10.0, g.uni(-30, 30)) * g.uni(1, 10);
			intent("Round(Vector) / Round(Matrix) " + std::to_string(mr) + "x" + std::to_string(mc));
			libphysica::Vector rv = Round(libphysica::Vector(ve), d);
			libphysica::Matrix rm = Round(libphysica::Matrix(me), d);
			bool same = rv.Size() == (unsigned)vr && rm.Rows() == (unsigned)mr && rm.Columns() == (unsigned)mc;
			for(int k = 0; same && k < vr; k++)
				same = bits(rv[k]) == bits(Round(ve[k], d));
			for(int a = 0; same && a < mr; a++)
				for(int b = 0; same && b < mc; b++)
					same = rm[a].size() == (size_t)mc && bits(rm[a][b]) == bits(Round(me[a][b], d));
			obs("round_overloads", 0.0, 1.0, same);
		}
	}
	// Dawson, Erfi, Inv_Erf
	int nd = quick ? 3000 : 60000;
	for(int i = 0; i < nd; i++)
	{
		double x = (i % 3 == 0) ? g.uni(-0.4, 0.4) : (i % 3 == 1 ? g.uni(-30, 30) : (g.coin() ? 1 : -1) * g.logu(1e-8, 30));
		if(i % 17 == 0)
			x = (g.coin() ? 1 : -1) * (0.2 + g.uni(-1, 1) * 1e-9);	 // both sides of the series / sum switch
		intent("Dawson_Integral");
		double D = Dawson_Integral(x);
		obs("dawson_abs", D - (double)dawson_ref(x), 2e-7);
		obs("dawson_odd", 0.0, 1.0, bits(Dawson_Integral(-x)) == bits(-D));
		if(std::fabs(x) < 26.0)
		{
			long double ref = 2.0L / sqrtl(3.14159265358979323846264338327950288L) * expl((long double)x * x) * dawson_ref(x);
			obs("erfi_rel", x == 0 ? 0.0 : (double)((Erfi(x) - ref) / ref), 1e-6);
		}
		double p = (i % 2) ? g.uni(-1, 1) : (g.coin() ? 1 : -1) * (1.0 - g.logu(1e-12, 0.5));
		intent("Inv_Erf");
		double xi = Inv_Erf(p);
		// |Inv_Erf(p) - erfinv(p)| <= 1e-4  <=>  erf(xi - 1e-4) <= p <= erf(xi + 1e-4)   (erf is increasing; libm erf trusted)
		obs("inverf", 0.0, 1.0, std::erf(xi - 1.0001e-4) <= p && p <= std::erf(xi + 1.0001e-4));
	}
	// Sign / Floats_Equal relations on random pairs
	for(int i = 0; i < (quick ? 2000 : 20000); i++)
	{
		double a = (g.coin() ? 1 : -1) * g.logu(1e-300, 1e300), b = g.coin(0.3) ? a : (g.coin(0.3) ? a * (1 + g.uni(-1, 1) * 1e-9) : (g.coin() ? 1 : -1) * g.logu(1e-300, 1e300));
		obs("feq_sym", 0.0, 1.0, Floats_Equal(a, b) == Floats_Equal(b, a) && Floats_Equal(a, a) && Floats_Equal(b, b));
		double rd = Relative_Difference(a, b);
		obs("reldiff", std::fabs(rd - std::fabs(a - b) / std::max(std::fabs(a), std::fabs(b))), 4 * EPS, rd >= 0);
		obs("sign2", 0.0, 1.0, std::fabs(Sign(a, b)) == std::fabs(a) && Sign(Sign(a, b)) == Sign(b));
	}
	// spherical harmonics identities for all (l,m), l <= 12, random and special directions
	std::vector<std::pair<double, double>> dirs = {{0.0, 0.3}, {PI, 1.0}, {PI / 2, 0.0}, {PI / 2, PI / 2}, {PI / 2, PI}, {1e-7, 2.0}, {PI - 1e-7, 4.0}};
	int nrand = quick ? 4 : 40;
	for(int i = 0; i < nrand; i++)
		dirs.push_back({std::acos(g.uni(-1, 1)), g.uni(0, 2 * PI)});
	for(int l = 0; l <= 12; l++)
		for(int m = -l; m <= l; m++)
		{
			double conjq = 0, yq = 0, tanq = 0, gradq = 0, gradscale = 1;
			for(auto& dphi : dirs)
			{
				double th = dphi.first, ph = dphi.second;
				intent("VSH l=" + std::to_string(l) + " m=" + std::to_string(m));
				cd Y = Spherical_Harmonics(l, m, th, ph), Ym = Spherical_Harmonics(l, -m, th, ph);
				double sgn = (m % 2 == 0) ? 1.0 : -1.0;
				conjq	   = std::max(conjq, std::abs(Ym - sgn * std::conj(Y)));
				double rh[3] = {std::sin(th) * std::cos(ph), std::sin(th) * std::sin(ph), std::cos(th)};
				auto VY = Vector_Spherical_Harmonics_Y(l, m, th, ph), VP = Vector_Spherical_Harmonics_Psi(l, m, th, ph);
				cd dotp = 0;
				for(int k = 0; k < 3; k++)
				{
					yq = std::max(yq, std::abs(VY[k] - rh[k] * Y));
					dotp += rh[k] * VP[k];
				}
				tanq = std::max(tanq, std::abs(dotp));
				// Psi = r grad Y_lm = thetahat dY/dtheta + phihat (1/sin theta) dY/dphi, by central differences of the library's own Y_lm
				if(std::sin(th) > 1e-3)
				{
					double h = 1e-5;
					cd dth	 = (Spherical_Harmonics(l, m, th + h, ph) - Spherical_Harmonics(l, m, th - h, ph)) / (2 * h);
					cd dph	 = (Spherical_Harmonics(l, m, th, ph + h) - Spherical_Harmonics(l, m, th, ph - h)) / (2 * h);
					double tv[3] = {std::cos(th) * std::cos(ph), std::cos(th) * std::sin(ph), -std::sin(th)}, pv[3] = {-std::sin(ph), std::cos(ph), 0.0};
					for(int k = 0; k < 3; k++)
						gradq = std::max(gradq, std::abs(VP[k] - (tv[k] * dth + pv[k] * dph / std::sin(th))));
					gradscale = std::max(gradscale, (double)(l + 1) * (l + 1) * (l + 1) / (std::sin(th) * std::sin(th)));
				}
			}
			T.emit({{"e", "Harm"}, {"l", l}, {"m", m}, {"conjq", quant(conjq, 1e-12)}, {"yq", quant(yq, 1e-12)}, {"tanq", quant(tanq, 1e-11 * (l + 1))},
					{"gradq", quant(gradq, 1e-8 * gradscale)}});
		}
	T.flush();
	finished();
	return 0;
}
