// C14 — Monte-Carlo integrators.  record <seed> <tier> <trace>
// Uses the guarded seed hook (libphysica::verif_mc_seed) so that a call can be repeated bit for bit.
//   Call  : one observed integration, identified by its key (method, dimension, region, budget, integrand, seed),
//           made in a fresh process ("fresh") and again after a random history of other integrations ("hist");
//           the integrand wrapper counts evaluations outside the hyper-rectangle.
//   Const : constant integrands against c*V.
//   Stat  : 32 differently seeded repetitions of one call: |mean - exact| in units of the standard error of the mean.
//   Front : Integrate_2D / Integrate_3D with Monte-Carlo methods on boxes with disjoint limit ranges per axis.
#include "common.hpp"
#include "libphysica/Integration.hpp"
#include "libphysica/Linear_Algebra.hpp"

namespace libphysica
{
extern unsigned long verif_mc_seed;
}
using namespace vf;
using namespace libphysica;
static const double EPS = 2.220446049250313e-16;

struct Job
{
	std::string method;	  // "Monte-Carlo", "Vegas", "Miser"
	int dim;
	std::vector<double> region;	  // {lo..., hi...}
	int budget;
	int fam;					  // 0 const, 1 exp, 2 gauss, 3 poly, 4 step (piecewise constant; history clause only)
	std::vector<double> par;	  // per-dimension parameters
	unsigned long seed;
	std::string key() const
	{
		std::ostringstream o;
		o << method << "/d" << dim << "/n" << budget << "/f" << fam << "/s" << seed;
		for(double r : region)
			o << "/" << hexbits(r);
		for(double p : par)
			o << ":" << hexbits(p);
		return o.str();
	}
};

static double f_eval(const Job& J, const std::vector<double>& x)
{
	double v = 1.0;
	switch(J.fam)
	{
		case 0:
			return J.par[0];
		case 1:
			for(int j = 0; j < J.dim; j++)
				v *= std::exp(J.par[j] * x[j]);
			return v;
		case 2:
			for(int j = 0; j < J.dim; j++)
			{
				double t = (x[j] - J.par[2 * j]) / J.par[2 * j + 1];
				v *= std::exp(-0.5 * t * t);
			}
			return v;
		case 4:
		{
			bool in = true;
			for(int j = 0; j < std::min(2, J.dim); j++)
				in = in && x[j] < J.par[2 + j];
			return in ? J.par[0] : J.par[1];
		}
		default:
			for(int j = 0; j < J.dim; j++)
				v *= 1.0 + J.par[2 * j] * x[j] + J.par[2 * j + 1] * x[j] * x[j];
			return v;
	}
}
static long double f_exact(const Job& J)
{
	long double v = 1.0L;
	if(J.fam == 4)
	{
		long double V = 1, Vin = 1;
		for(int j = 0; j < J.dim; j++)
		{
			long double lo = J.region[j], hi = J.region[j + J.dim];
			V *= hi - lo;
			Vin *= j < 2 ? (long double)J.par[2 + j] - lo : hi - lo;
		}
		return J.par[0] * Vin + J.par[1] * (V - Vin);
	}
	for(int j = 0; j < J.dim; j++)
	{
		long double lo = J.region[j], hi = J.region[j + J.dim];
		switch(J.fam)
		{
			case 0:
				v *= (hi - lo);
				break;
			case 1:
			{
				long double k = J.par[j];
				v *= fabsl(k) < 1e-12L ? (hi - lo) : (expl(k * hi) - expl(k * lo)) / k;
				break;
			}
			case 2:
			{
				long double mu = J.par[2 * j], s = J.par[2 * j + 1];
				v *= s * sqrtl(1.5707963267948966192L) * (erfl((hi - mu) / (s * 1.41421356237309504880L)) - erfl((lo - mu) / (s * 1.41421356237309504880L)));
				break;
			}
			default:
			{
				long double a = J.par[2 * j], b = J.par[2 * j + 1];
				v *= (hi - lo) + a * (hi * hi - lo * lo) / 2 + b * (hi * hi * hi - lo * lo * lo) / 3;
			}
		}
	}
	if(J.fam == 0)
		v *= J.par[0];
	return v;
}

struct Outcome
{
	double value;
	long nout, neval;
};
static Outcome run_job(const Job& J)
{
	Outcome O{0, 0, 0};
	std::function<double(std::vector<double>&, const double)> f = [&](std::vector<double>& x, const double) {
		O.neval++;
		bool in = (int)x.size() >= J.dim;
		for(int j = 0; in && j < J.dim; j++)
			in = x[j] >= J.region[j] && x[j] <= J.region[j + J.dim];
		if(!in)
			O.nout++;
		return f_eval(J, x);
	};
	std::vector<double> region = J.region;
	verif_mc_seed			   = J.seed;
	O.value					   = Integrate_MC(f, region, J.budget, J.method);
	// the region is passed by (non-const) reference: a caller that uses its vector again must find it as it was
	for(size_t k = 0; k < region.size(); k++)
		if(bits(region[k]) != bits(J.region[k]))
			O.nout += 1000000;
	if(region.size() != J.region.size())
		O.nout += 1000000;
	return O;
}

static Job random_job(Rng& g, int fam_hint = -1, bool tame = false)
{
	static const char* M[3] = {"Monte-Carlo", "Vegas", "Miser"};
	Job J;
	J.method = M[g.range(0, 2)];
	J.dim	 = (int)g.range(1, 6);
	J.budget = (int)g.logu(1e3, tame ? 2e4 : 6e4);
	J.fam	 = fam_hint >= 0 ? fam_hint : (int)g.range(0, 3);
	J.seed	 = (unsigned long)g.range(1, 1000000000);
	J.region.assign(2 * J.dim, 0.0);
	for(int j = 0; j < J.dim; j++)
	{
		double w = g.logu(1e-3, 1e3), c = g.coin(0.3) ? 0.0 : (g.coin() ? 1 : -1) * g.logu(1e-2, 1e2) * (g.coin() ? w : 1.0);
		if(J.fam == 1 || J.fam == 3)
			w = g.logu(1e-3, 3.0);	 // keep exp/polynomial values moderate
		J.region[j]			= c - 0.5 * w;
		J.region[j + J.dim] = c + 0.5 * w;
	}
	switch(J.fam)
	{
		case 0:
			J.par = {(g.coin() ? 1 : -1) * g.logu(1e-3, 1e3)};
			break;
		case 1:
			for(int j = 0; j < J.dim; j++)
				J.par.push_back(g.uni(-1.0, 1.0) / std::max(std::fabs(J.region[j]), std::fabs(J.region[j + J.dim])));
			break;
		case 2:
			for(int j = 0; j < J.dim; j++)
			{
				double lo = J.region[j], hi = J.region[j + J.dim], w = hi - lo;
				J.par.push_back(lo + w * g.uni(0.15, 0.85));								   // peaked off-centre
				J.par.push_back(w * g.uni(J.dim > 3 ? 0.35 : 0.2, 1.5));
			}
			break;
		case 4:
			J.par = {g.uni(0.1, 1.0), g.uni(1.0, 3.0)};
			for(int j = 0; j < std::min(2, J.dim); j++)
				J.par.push_back(J.region[j] + (J.region[j + J.dim] - J.region[j]) * g.uni(0.2, 0.9));
			break;
		default:
			for(int j = 0; j < J.dim; j++)
			{
				double m = std::max(std::fabs(J.region[j]), std::fabs(J.region[j + J.dim]));
				J.par.push_back(g.uni(-1, 1) / m);
				J.par.push_back(g.uni(0, 1) / (m * m));
			}
	}
	return J;
}

static json call_event(const Job& J, const Outcome& O, const std::string& kind, int hlen)
{
	return {{"e", "Call"}, {"key", J.key()}, {"method", J.method}, {"dim", J.dim}, {"budget", J.budget}, {"fam", J.fam}, {"kind", kind}, {"hlen", hlen},
			{"bits", hexbits(O.value)}, {"nout", O.nout}, {"neval", O.neval}, {"fin", std::isfinite(O.value)}};
}

int main(int argc, char** argv)
{
	if(argc != 5 || std::string(argv[1]) != "record")
		return 3;
	Rng g(std::strtoull(argv[2], nullptr, 10));
	bool quick = std::string(argv[3]) == "quick";
	Trace T(argv[4]);
	auto died  = [&](const std::string& what, const ChildResult& r) { T.emit({{"e", "Died"}, {"what", what}, {"how", outcome(r)}, {"msg", (r.err + r.out).substr(0, 200)}}); };
	// ---- (1) history independence: fresh process vs after a random history, same key
	int ncase = quick ? 60 : 600;
	for(int c = 0; c < ncase; c++)
	{
		Job K = random_job(g, c % 5 == 0 ? 2 : (c % 5 == 1 ? 4 : -1));
		if(c % 3 == 0)
		{
			K = random_job(g, (c % 2) ? 4 : -1);	 // piecewise-constant integrands make Miser's flat-region fall-back visible
			K.method = "Miser";
		}
		if(c % 3 == 1)
			K.method = "Vegas";
		if(c % 7 == 3 && K.fam == 2)
			for(int j = 0; j < K.dim; j++)
				K.par[2 * j + 1] = (K.region[j + K.dim] - K.region[j]) * g.uni(0.01, 0.05);	 // sharply peaked: flat (underflowing) far regions
		std::vector<Job> H;
		int hlen = (int)g.range(1, 4);
		for(int h = 0; h < hlen; h++)
		{
			Job J = random_job(g, -1, true);
			if(h == 0 && K.method == "Miser" && c % 2 == 1)
				J = random_job(g, 0, true);	  // a constant integrand: Miser finds no variation anywhere and takes its fall-back split at every level
			if(g.coin(0.5) || h == 0)
				J.method = K.method;	 // at least one earlier call of the same method (shared function-local state)
			H.push_back(J);
		}
		// the call immediately before the observed one often shares its region (or is the very same call): state keyed on the region must not leak either
		if(g.coin(0.6))
		{
			Job J = K;
			if(g.coin(0.7))
			{
				Job F	 = random_job(g, (int)g.range(1, 3), true);
				J.fam	 = F.fam;
				J.budget = F.budget;
				J.seed	 = F.seed;
				// parameters of the other family on K's region
				J.par.clear();
				for(int j = 0; j < J.dim; j++)
				{
					double lo = J.region[j], hi = J.region[j + J.dim], m = std::max(std::fabs(lo), std::fabs(hi));
					if(J.fam == 1)
						J.par.push_back(0.5 / m);
					else if(J.fam == 2)
					{
						J.par.push_back(lo + 0.4 * (hi - lo));
						J.par.push_back(0.5 * (hi - lo));
					}
					else
					{
						J.par.push_back(0.3 / m);
						J.par.push_back(0.2 / (m * m));
					}
				}
			}
			H.push_back(J);
		}
		ChildResult rf = run_child([&]() { Outcome O = run_job(K); return call_event(K, O, "fresh", 0).dump(); }, 120);
		if(!rf.returned)
		{
			died("fresh " + K.key(), rf);
			continue;
		}
		T.emit(json::parse(rf.result));
		ChildResult rh = run_child([&]() {
			for(auto& J : H)
				run_job(J);
			Outcome O = run_job(K);
			return call_event(K, O, "hist", (int)H.size()).dump();
		}, 300);
		if(!rh.returned)
		{
			died("hist " + K.key(), rh);
			continue;
		}
		T.emit(json::parse(rh.result));
	}
	// ---- (2) constants, (3) statistics, (4) front ends: one child per block of cases
	int nconst = quick ? 60 : 400;
	auto unhex = [](const char* h) { uint64_t u = std::strtoull(h, nullptr, 16); double d; std::memcpy(&d, &u, 8); return d; };
	for(int c = -1; c < nconst; c++)
	{
		Job K		  = random_job(g, 0);
		if(c == -1)
		{	// directed: the listed finding (small constant over a small 6-dimensional volume, Vegas)
			static const char* R6[12] = {"bf6493cfa9c33e2c", "c0432b87cb05d0a0", "c020175017f1bc6c", "3fd0c11347e7cde4", "bfa4378ae871296f", "bfb1369eea98ded9",
										 "3f6493cfa9c33e2c", "404323a280139f54", "401ffa2fcc4f703f", "3fd1803caba3c8ea", "bfa38e06f5f59a19", "3f93d68d7362d71b"};
			K.method = "Vegas";
			K.dim	 = 6;
			K.budget = 2374;
			K.seed	 = 410990635ul;
			K.region.clear();
			for(auto h : R6)
				K.region.push_back(unhex(h));
			K.par = {unhex("3f76424286cee630")};
		}
		else if(c % 6 == 1)
		{	// small volumes: six dimensions, every width of the order of 1e-3 (volume ~ 1e-18, far below eps but an ordinary double)
			static const char* M3[3] = {"Monte-Carlo", "Vegas", "Miser"};
			K.method = M3[(c / 6) % 3];
			K.dim	 = 6;
			K.region.assign(12, 0.0);
			for(int j = 0; j < 6; j++)
			{
				double w = g.logu(1e-3, 2.4e-3), cc = g.uni(-1, 1);
				K.region[j]		= cc - 0.5 * w;
				K.region[j + 6] = cc + 0.5 * w;
			}
		}
		ChildResult r = run_child([&]() {
			Outcome O	   = run_job(K);
			long double ex = f_exact(K);
			json ev		   = call_event(K, O, "const", 0);
			ev["e"]		   = "Const";
			ev["q"]		   = quant((double)((O.value - ex) / ex), (64.0 + (double)O.neval) * EPS);	  // recursive summation of neval terms
			ev["gross"]	   = !(std::fabs((double)((O.value - ex) / ex)) < 1e-8);
			return ev.dump();
		}, 120);
		if(!r.returned)
			died("const " + K.key(), r);
		else
			T.emit(json::parse(r.result));
	}
	int nstat = quick ? 45 : 400;
	const int R = 32;
	for(int c = 0; c < nstat; c++)
	{
		Job K = random_job(g, 1 + (c % 3), true);
		if(quick)
			K.budget = std::min(K.budget, 8000);
		ChildResult r = run_child([&]() {
			long double ex = f_exact(K);
			std::vector<double> v;
			long nout = 0;
			Job J	  = K;
			for(int i = 0; i < R; i++)
			{
				J.seed	  = K.seed + 7919ul * (unsigned long)i;
				Outcome O = run_job(J);
				v.push_back(O.value);
				nout += O.nout;
			}
			long double m = 0, s2 = 0;
			for(double x : v)
				m += x;
			m /= R;
			for(double x : v)
				s2 += (x - m) * (x - m);
			long double se = sqrtl(s2 / (R - 1.0L) / R);
			json ev		   = call_event(K, Outcome{(double)m, nout, 0}, "stat", 0);
			ev["e"]		   = "Stat";
			ev["R"]		   = R;
			ev["zq"]	   = quant((double)(m - ex), (double)se + 16 * EPS * (double)fabsl(ex));
			ev["relse"]	   = quant((double)(se / fabsl(ex)), 1e-6);	  // informational
			return ev.dump();
		}, 600);
		if(!r.returned)
			died("stat " + K.key(), r);
		else
			T.emit(json::parse(r.result));
	}
	int nfront = quick ? 36 : 300;
	static const char* M[3] = {"Monte-Carlo", "Vegas", "Miser"};
	for(int c = 0; c < nfront; c++)
	{
		int dim = 2 + (c % 2);
		std::string method = M[(c / 2) % 3];
		// disjoint limit ranges per axis: axis k lives in [10k+1, 10k+9] (scaled), either orientation is NOT used here (regions are given lower-first)
		std::vector<double> lo(dim), hi(dim), kk(dim);
		for(int j = 0; j < dim; j++)
		{
			lo[j] = 10.0 * j + g.uni(1.0, 4.0);
			hi[j] = lo[j] + g.uni(0.5, 4.0);
			kk[j] = g.uni(-0.2, 0.2);
		}
		int budget	  = (int)g.logu(2e3, 2e4);
		unsigned long seed = (unsigned long)g.range(1, 1000000000);
		// the same block of calls is made twice: in a process without history, and after calls of the front ends over another box
		// (every method, both dimensions): the values must be the same bit for bit and every evaluation inside the box of ITS call
		std::string valbits[2];
		ChildResult r;
		for(int warmed = 0; warmed < 2; warmed++)
		{
		r = run_child([&]() {
			long nwrong = 0, nev = 0;
			auto inr = [&](int j, double v) { return v >= lo[j] && v <= hi[j]; };
			std::vector<double> vals;
			if(warmed)
				for(int w = 0; w < 3; w++)
				{
					verif_mc_seed = seed + 7ul * (unsigned long)w;
					Integrate_2D([&](double x, double y) { return x + y; }, 50.0, 51.0 + w, 60.0, 62.0, M[w], 2000);
					Integrate_3D([&](double x, double y, double z) { return x + y + z; }, 50.0, 51.0 + w, 60.0, 62.0, 70.0, 70.5, M[w], 2000);
				}
			for(int rep = 0; rep < R; rep++)
			{
				verif_mc_seed = seed + 104729ul * (unsigned long)rep;
				double v;
				if(dim == 2)
					v = Integrate_2D([&](double x, double y) { nev++; if(!inr(0, x) || !inr(1, y)) nwrong++; return std::exp(kk[0] * x + kk[1] * y); }, lo[0], hi[0], lo[1], hi[1], method, budget);
				else
					v = Integrate_3D([&](double x, double y, double z) { nev++; if(!inr(0, x) || !inr(1, y) || !inr(2, z)) nwrong++; return std::exp(kk[0] * x + kk[1] * y + kk[2] * z); }, lo[0], hi[0], lo[1], hi[1], lo[2], hi[2], method, budget);
				vals.push_back(v);
			}
			long double ex = 1;
			for(int j = 0; j < dim; j++)
				ex *= (expl((long double)kk[j] * hi[j]) - expl((long double)kk[j] * lo[j])) / kk[j];
			long double m = 0, s2 = 0;
			for(double x : vals)
				m += x;
			m /= R;
			for(double x : vals)
				s2 += (x - m) * (x - m);
			long double se = sqrtl(s2 / (R - 1.0L) / R);
			std::string vb;
			for(double x : vals)
				vb += hexbits(x);
			json ev = {{"e", "Front"}, {"method", method}, {"dim", dim}, {"budget", budget}, {"nwrong", nwrong}, {"neval", nev}, {"zq", quant((double)(m - ex), (double)se + 16 * EPS * (double)fabsl(ex))},
					   {"warmed", warmed}, {"vb", vb}};
			return ev.dump();
		}, 600);
		if(!r.returned)
			break;
		valbits[warmed] = json::parse(r.result)["vb"].get<std::string>();
		json ev			= json::parse(r.result);
		ev.erase("vb");
		ev["histsame"] = warmed == 0 || valbits[0] == valbits[1];
		T.emit(ev);
		}
		if(!r.returned)
			died("front " + method, r);
	}
	T.flush();
	return 0;
}
