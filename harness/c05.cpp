// C05 — replay of the matrices exported by MC_Elim (exact determinant and adjugate) through
// Matrix::Determinant / Invertible / Inverse, plain and with power-of-two row/column gradings.
#include "common.hpp"
#include "libphysica/Linear_Algebra.hpp"

using namespace vf;
using libphysica::Matrix;
static const double EPS = 2.220446049250313e-16;

int main(int argc, char** argv)
{
	if(argc != 5 || std::string(argv[1]) != "replay")
	{
		std::cerr << "usage: c05 replay <vectors> <seed> <trace>" << std::endl;
		return 3;
	}
	auto cases = read_ndjson(argv[2]);
	Rng g(std::strtoull(argv[3], nullptr, 10));
	Trace T(argv[4]);
	for(auto& c : cases)
	{
		int n = c["n"];
		std::vector<std::vector<long>> m = c["m"].get<std::vector<std::vector<long>>>(), adj = c["adj"].get<std::vector<std::vector<long>>>();
		long det = c["det"];
		for(int variant = 0; variant < 6; variant++)
		{
			// variant 0: plain; 1: mild gradings; 2: gradings up to a condition of ~1e8;
			// 3: additionally non-dyadic row/column factors, so that entries are genuine reals (every operation rounds);
			// 4 / 5: the whole matrix scaled by 2^-k / 2^+k (k = 16..24): well conditioned, determinant tiny / huge in absolute terms
			if(variant == 3 && det == 0)
				continue;	// rounding the entries of an exactly singular matrix makes it (barely) regular: not a case the statement decides
			std::vector<int> r(n, 0), cc(n, 0);
			std::vector<long double> rf(n, 1.0L), cf(n, 1.0L);
			static const long double NF[6] = {1.0L, 1.0L / 3.0L, 3.0L / 7.0L, 5.0L / 3.0L, 7.0L / 11.0L, 13.0L / 9.0L};
			if(variant == 3)
				for(int i = 0; i < n; i++)
				{
					rf[i] = NF[g.range(0, 5)];
					cf[i] = NF[g.range(0, 5)];
				}
			int span = variant == 0 ? 0 : (variant == 1 ? 3 : (variant == 2 ? 7 : (variant == 3 ? 1 : 0)));
			for(int i = 0; i < n; i++)
			{
				r[i]  = (int)g.range(-span, span);
				cc[i] = (int)g.range(-span, span);
			}
			if(variant >= 4)
			{
				int k = (int)g.range(16, 24) * (variant == 4 ? -1 : 1);
				for(int i = 0; i < n; i++)
				{
					r[i]  = k;
					cc[i] = 0;
				}
			}
			std::vector<std::vector<double>> a(n, std::vector<double>(n));
			long double rowprod = 1, norm = 0, xnorm = 0;
			for(int i = 0; i < n; i++)
			{
				long double rs = 0;
				for(int j = 0; j < n; j++)
				{
					a[i][j] = (double)(ldexpl((long double)m[i][j], r[i] + cc[j]) * rf[i] * cf[j]);
					rs += fabsl(a[i][j]);
				}
				rowprod *= (rs > 0 ? rs : 1);
				norm = std::max(norm, rs);
			}
			int esum = 0;
			for(int i = 0; i < n; i++)
				esum += r[i] + cc[i];
			long double exdet = ldexpl((long double)det, esum);
			for(int i = 0; i < n; i++)
				exdet *= rf[i] * cf[i];
			Matrix M(a);
			json ev = {{"e", "Case"}, {"fam", c["fam"]}, {"n", n}, {"salt", c["salt"]}, {"variant", variant}, {"sing", det == 0}};
			// determinant / invertible (never exit for square input)
			ChildResult dr = run_child([&]() { char buf[64]; std::snprintf(buf, sizeof buf, "%.17g %d", M.Determinant(), (int)M.Invertible()); return std::string(buf); }, 20);
			if(!dr.returned)
			{
				ev["detq"]		 = 1 << 30;
				ev["invertible"] = false;
			}
			else
			{
				double d;
				int inv;
				std::sscanf(dr.result.c_str(), "%lg %d", &d, &inv);
				ev["detq"]		 = quant((double)((long double)d - exdet), 64.0 * n * EPS * (double)rowprod + 1e-300);
				ev["invertible"] = inv != 0;
			}
			// inverse
			ChildResult ir = run_child([&]() {
				Matrix X = M.Inverse();
				std::string s;
				char buf[40];
				for(int i = 0; i < n; i++)
					for(int j = 0; j < n; j++)
					{
						std::snprintf(buf, sizeof buf, "%.17g ", X[i][j]);
						s += buf;
					}
				return s;
			}, 20);
			std::string o = outcome(ir);
			ev["ret"]	  = ir.returned;
			ev["status"]  = ir.signal ? 128 + ir.signal : ir.status;
			ev["diag"]	  = o == "exit_diag";
			ev["mem"]	  = (o == "signal" || o == "memerror" || o == "timeout");
			ev["invq"] = 0;
			ev["resLq"] = 0;
			ev["resRq"] = 0;
			if(ir.returned && det != 0)
			{
				std::vector<std::vector<long double>> X(n, std::vector<long double>(n)), XE(n, std::vector<long double>(n));
				std::istringstream is(ir.result);
				for(int i = 0; i < n; i++)
					for(int j = 0; j < n; j++)
					{
						double v;
						is >> v;
						X[i][j] = v;
					}
				long double err = 0;
				for(int i = 0; i < n; i++)
				{
					long double rs = 0, es = 0;
					for(int j = 0; j < n; j++)
					{
						XE[i][j] = ldexpl((long double)adj[i][j] / (long double)det, -cc[i] - r[j]) / (cf[i] * rf[j]);   // exact inverse of D1 M D2
						rs += fabsl(XE[i][j]);
						es += fabsl(X[i][j] - XE[i][j]);
					}
					xnorm = std::max(xnorm, rs);
					err	  = std::max(err, es);
				}
				long double kappa = norm * xnorm;
				// residuals X M - I and M X - I (infinity norm)
				long double resL = 0, resR = 0;
				for(int i = 0; i < n; i++)
				{
					long double sl = 0, sr = 0;
					for(int j = 0; j < n; j++)
					{
						long double pl = 0, pr = 0;
						for(int k = 0; k < n; k++)
						{
							pl += X[i][k] * (long double)a[k][j];
							pr += (long double)a[i][k] * X[k][j];
						}
						sl += fabsl(pl - (i == j));
						sr += fabsl(pr - (i == j));
					}
					resL = std::max(resL, sl);
					resR = std::max(resR, sr);
				}
				double c0 = 64.0 * n * EPS;
				ev["invq"]	= quant((double)(err / xnorm), c0 * (double)kappa);
				ev["resLq"] = quant((double)resL, c0 * (double)kappa);
				ev["resRq"] = quant((double)resR, c0 * (double)kappa * (double)kappa);
				ev["kappa"] = (double)kappa;
			}
			ev["msg"] = (ir.err + ir.out).substr(0, 120);
			T.emit(ev);
		}
	}
	// ---- directed real-valued family "pivotorder": well-conditioned matrices whose first column holds a tiny diagonal entry, an entry of
	// order one and a small one further down (eps << delta << 1): elimination must bring the LARGEST entry to the pivot position
	for(int rep = 0; rep < 60; rep++)
	{
		int n = (int)g.range(3, 7);
		std::vector<std::vector<double>> a(n, std::vector<double>(n, 0.0));
		for(int i = 0; i < n; i++)
			a[i][i] = 1.0 + 0.25 * (double)g.range(0, 3);
		int q = (int)g.range(1, n - 2), r2 = (int)g.range(q + 1, n - 1);
		a[0][0]	 = std::ldexp(1.0, -(int)g.range(20, 40));
		a[q][0]	 = 1.0;
		a[r2][0] = std::ldexp(1.0, -(int)g.range(8, 16));
		a[0][q]	 = 1.0;
		a[q][r2] = 1.0;
		a[r2][0 + 1 == q ? r2 : 1] += 0.5;
		// reference inverse: Gauss-Jordan with complete pivoting in long double
		std::vector<std::vector<long double>> W(n, std::vector<long double>(2 * n, 0.0L));
		for(int i = 0; i < n; i++)
		{
			for(int j = 0; j < n; j++)
				W[i][j] = a[i][j];
			W[i][n + i] = 1.0L;
		}
		std::vector<int> colperm(n);
		for(int i = 0; i < n; i++)
			colperm[i] = i;
		bool singular = false;
		for(int k = 0; k < n && !singular; k++)
		{
			int pr = k, pc = k;
			for(int i = k; i < n; i++)
				for(int j = k; j < n; j++)
					if(fabsl(W[i][j]) > fabsl(W[pr][pc]))
					{
						pr = i;
						pc = j;
					}
			if(W[pr][pc] == 0)
			{
				singular = true;
				break;
			}
			std::swap(W[k], W[pr]);
			for(int i = 0; i < n; i++)
				std::swap(W[i][k], W[i][pc]);
			std::swap(colperm[k], colperm[pc]);
			long double pv = W[k][k];
			for(int j = 0; j < 2 * n; j++)
				W[k][j] /= pv;
			for(int i = 0; i < n; i++)
				if(i != k)
				{
					long double f = W[i][k];
					for(int j = 0; j < 2 * n; j++)
						W[i][j] -= f * W[k][j];
				}
		}
		if(singular)
			continue;
		std::vector<std::vector<long double>> XE(n, std::vector<long double>(n));
		for(int i = 0; i < n; i++)
			for(int j = 0; j < n; j++)
				XE[colperm[i]][j] = W[i][n + j];
		long double norm = 0, xnorm = 0;
		for(int i = 0; i < n; i++)
		{
			long double rs = 0, xs = 0;
			for(int j = 0; j < n; j++)
			{
				rs += fabsl(a[i][j]);
				xs += fabsl(XE[i][j]);
			}
			norm  = std::max(norm, rs);
			xnorm = std::max(xnorm, xs);
		}
		long double kappa = norm * xnorm;
		if(kappa > 1e4L)
			continue;
		Matrix M(a);
		json ev = {{"e", "Case"}, {"fam", "pivotorder"}, {"n", n}, {"salt", rep}, {"variant", 0}, {"sing", false}, {"detq", 0}, {"invertible", M.Invertible()}};
		ChildResult ir = run_child([&]() {
			Matrix X = M.Inverse();
			std::string s;
			char buf[40];
			for(int i = 0; i < n; i++)
				for(int j = 0; j < n; j++)
				{
					std::snprintf(buf, sizeof buf, "%.17g ", X[i][j]);
					s += buf;
				}
			return s;
		}, 20);
		std::string o = outcome(ir);
		ev["ret"]	  = ir.returned;
		ev["status"]  = ir.signal ? 128 + ir.signal : ir.status;
		ev["diag"]	  = o == "exit_diag";
		ev["mem"]	  = (o == "signal" || o == "memerror" || o == "timeout");
		ev["invq"]	  = 0;
		ev["resLq"]	  = 0;
		ev["resRq"]	  = 0;
		if(ir.returned)
		{
			std::vector<std::vector<long double>> X(n, std::vector<long double>(n));
			std::istringstream is(ir.result);
			long double err = 0;
			for(int i = 0; i < n; i++)
			{
				long double es = 0;
				for(int j = 0; j < n; j++)
				{
					double v;
					is >> v;
					X[i][j] = v;
					es += fabsl(X[i][j] - XE[i][j]);
				}
				err = std::max(err, es);
			}
			ev["invq"]	= quant((double)(err / xnorm), 64.0 * n * EPS * (double)kappa);
			ev["kappa"] = (double)kappa;
		}
		ev["msg"] = (ir.err + ir.out).substr(0, 120);
		T.emit(ev);
	}
	return 0;
}
