// C04 — recorder for the vector/matrix algebra: every operation in every spelling on every shape,
// integer operands scaled by powers of two (exact in IEEE), results scaled back and logged as integers.
#include "common.hpp"
#include "libphysica/Linear_Algebra.hpp"

using namespace vf;
using namespace libphysica;

typedef std::vector<std::vector<long>> IM;
typedef std::vector<long> IV;

static IM rand_im(Rng& g, int r, int c, int style)
{
	IM a(r, IV(c));
	for(auto& row : a)
		for(auto& v : row)
		{
			switch(style)
			{
				case 0: v = g.range(-3, 3); break;
				case 1: v = g.coin(0.5) ? 0 : g.range(-9, 9); break;
				default: v = g.range(-40, 40); break;
			}
		}
	return a;
}
static IV rand_iv(Rng& g, int d, int style)
{
	return rand_im(g, 1, d, style)[0];
}
static Matrix to_m(const IM& a, int e)
{
	std::vector<std::vector<double>> c(a.size(), std::vector<double>(a[0].size()));
	for(size_t i = 0; i < a.size(); i++)
		for(size_t j = 0; j < a[0].size(); j++)
			c[i][j] = std::ldexp((double)a[i][j], e);
	return Matrix(c);
}
static Vector to_v(const IV& a, int e)
{
	std::vector<double> c(a.size());
	for(size_t i = 0; i < a.size(); i++)
		c[i] = std::ldexp((double)a[i], e);
	return Vector(c);
}
static json num(double x, int e)
{
	double y = std::ldexp(x, -e);
	if(std::isfinite(y) && y == std::nearbyint(y) && std::fabs(y) < 1073741824.0)
		return (long)y;
	char buf[64];
	std::snprintf(buf, sizeof buf, "NI:%.17g", y);
	return std::string(buf);
}
static json mjson(const Matrix& M, int e)
{
	json a = json::array();
	for(unsigned i = 0; i < M.Rows(); i++)
	{
		json r = json::array();
		for(unsigned j = 0; j < M.Columns(); j++)
			r.push_back(num(M[i][j], e));
		a.push_back(r);
	}
	return a;
}
static json vjson(const Vector& v, int e)
{
	json a = json::array();
	for(unsigned i = 0; i < v.Size(); i++)
		a.push_back(num(v[i], e));
	return a;
}

static Trace* T;
static long n_req = 0;
static bool precise = false;   // every request in its own child (second pass of a failed batch)

// run fn (returns the JSON text of the result); in a child process when the generator expects a rejection
static void request(json ev, bool expect_defined, const std::function<json()>& fn)
{
	n_req++;
	intent(ev.dump().substr(0, 300));
	if(expect_defined && !precise)
	{
		ev["ret"] = true;
		ev["out"] = fn();
		ev["mem"] = false;
	}
	else
	{
		ChildResult r = run_child([&]() { return fn().dump(); }, 20);
		std::string o = outcome(r);
		ev["ret"]	  = r.returned;
		ev["mem"]	  = (o == "signal" || o == "memerror" || o == "timeout");
		ev["status"]  = r.signal ? 128 + r.signal : r.status;
		ev["diag"]	  = (o == "exit_diag");
		if(r.returned)
			ev["out"] = json::parse(r.result);
	}
	T->emit(ev);
}

static void matrix_ops(Rng& g, int m, int n, int k, int style)
{
	IM a = rand_im(g, m, n, style), a2 = rand_im(g, m, n, style), b = rand_im(g, n, k, style);
	IV v = rand_iv(g, n, style), w = rand_iv(g, m, style);
	int ea = (int)g.range(-30, 30), eb = (int)g.range(-30, 30);
	if(g.coin(0.3))
		ea = eb = 0;
	Matrix A = to_m(a, ea), A2 = to_m(a2, ea), B = to_m(b, eb);
	Vector V = to_v(v, eb), W = to_v(w, eb);
	json ja = a, ja2 = a2, jb = b, jv = v, jw = w;
	auto ev = [&](const char* op, const char* sp, const json& x, const json& y) { return json {{"e", "Op"}, {"op", op}, {"sp", sp}, {"A", x}, {"B", y}}; };
	// sums and differences: member, operator, compound assignment
	request(ev("MPlus", "member", ja, ja2), true, [&] { return mjson(A.Plus(A2), ea); });
	request(ev("MPlus", "operator", ja, ja2), true, [&] { return mjson(A + A2, ea); });
	request(ev("MPlus", "compound", ja, ja2), true, [&] { Matrix C(A); C += A2; return mjson(C, ea); });
	request(ev("MMinus", "member", ja, ja2), true, [&] { return mjson(A.Minus(A2), ea); });
	request(ev("MMinus", "operator", ja, ja2), true, [&] { return mjson(A - A2, ea); });
	request(ev("MMinus", "compound", ja, ja2), true, [&] { Matrix C(A); C -= A2; return mjson(C, ea); });
	// products
	request(ev("MProd", "member", ja, jb), true, [&] { return mjson(A.Product(B), ea + eb); });
	request(ev("MProd", "operator", ja, jb), true, [&] { return mjson(A * B, ea + eb); });
	request(ev("MVec", "member", ja, jv), true, [&] { return vjson(A.Product(V), ea + eb); });
	request(ev("MVec", "operator", ja, jv), true, [&] { return vjson(A * V, ea + eb); });
	request(ev("VMat", "free", jw, ja), true, [&] { return vjson(W * A, ea + eb); });
	request(ev("Outer", "free", jw, jv), true, [&] { return mjson(Outer_Vector_Product(W, V), eb + eb); });
	// scalar multiplication / division (integer and power-of-two scalars)
	long s	  = g.range(-5, 5);
	int es	  = (int)g.range(-10, 10);
	double sd = std::ldexp((double)s, es);
	request(ev("MScal", "member", ja, s), true, [&] { return mjson(A.Product(sd), ea + es); });
	request(ev("MScal", "operator", ja, s), true, [&] { return mjson(A * sd, ea + es); });
	request(ev("MScal", "free", ja, s), true, [&] { return mjson(sd * A, ea + es); });
	double dv = std::ldexp(1.0, es) * (g.coin() ? 1 : -1);
	request(ev("MScal", "Division", ja, dv > 0 ? 1 : -1), true, [&] { return mjson(A.Division(dv), ea - es); });
	request(ev("MScal", "operator/", ja, dv > 0 ? 1 : -1), true, [&] { return mjson(A / dv, ea - es); });
	// unary
	request(ev("Transpose", "member", ja, 0), true, [&] { return mjson(A.Transpose(), ea); });
	request(ev("Norm2", "member", ja, 0), true, [&] { double nr = A.Norm(); return num(std::nearbyint(std::ldexp(nr * nr, -2 * ea)), 0); });
	request(ev("Square", "member", ja, 0), true, [&] { return json(A.Square()); });
	request(ev("MEq", "operator==", ja, ja2), true, [&] { return json(A == A2); });
	request(ev("MEq", "operator==", ja, ja), true, [&] { return json(A == Matrix(A)); });
	if(m == n)
	{
		request(ev("Trace", "member", ja, 0), true, [&] { return num(A.Trace(), ea); });
		IM sy = a, an = a, di = a;
		for(int i = 0; i < m; i++)
			for(int j = 0; j < n; j++)
			{
				sy[i][j] = a[i][j] + a[j][i];
				an[i][j] = a[i][j] - a[j][i];
				di[i][j] = (i == j) ? a[i][j] : 0;
			}
		if(g.coin(0.3) && m > 1)
			sy[0][m - 1] += 1;	 // spoil the symmetry in one corner
		if(g.coin(0.3) && m > 1)
			an[m - 1][0] += 1;
		if(g.coin(0.3) && m > 1)
			di[m - 1][0] = 1;
		for(const IM* x : {&a, &sy, &an, &di})
		{
			Matrix X = to_m(*x, ea);
			json jx	 = *x;
			request(ev("Symmetric", "member", jx, 0), true, [&] { return json(X.Symmetric()); });
			request(ev("Antisymmetric", "member", jx, 0), true, [&] { return json(X.Antisymmetric()); });
			request(ev("Diagonal", "member", jx, 0), true, [&] { return json(X.Diagonal()); });
		}
		request(ev("Identity", "free", m, 0), true, [&] { return mjson(Identity_Matrix(m), 0); });
		request(ev("DiagM", "ctor", jw, 0), true, [&] { std::vector<double> d; for(unsigned i = 0; i < W.Size(); i++) d.push_back(W[i]); return mjson(Matrix(d), eb); });
	}
	else
		request(ev("Trace", "member", ja, 0), false, [&] { return num(A.Trace(), ea); });
	// index-based extraction
	int r = (int)g.range(0, m - 1), c = (int)g.range(0, n - 1);
	auto iev = [&](const char* op, std::vector<int> ix) { return json {{"e", "Idx"}, {"op", op}, {"A", ja}, {"ix", ix}}; };
	request(iev("Row", {r}), true, [&] { return vjson(A.Return_Row(r), ea); });
	request(iev("Col", {c}), true, [&] { return vjson(A.Return_Column(c), ea); });
	if(m > 1)
		request(iev("DelRow", {r}), true, [&] { Matrix C(A); C.Delete_Row(r); return mjson(C, ea); });
	if(n > 1)
		request(iev("DelCol", {c}), true, [&] { Matrix C(A); C.Delete_Column(c); return mjson(C, ea); });
	if(m > 1 && n > 1)
		request(iev("SubMatrix", {r, c}), true, [&] { return mjson(A.Sub_Matrix(r, c), ea); });
	// block constructor [[A (m x n), Bk (m x k)], [C (k x n), D (k x k)]]
	IM bk = rand_im(g, m, k, style), cc = rand_im(g, k, n, style), dd = rand_im(g, k, k, style);
	request({{"e", "Block"}, {"A", ja}, {"B", bk}, {"C", cc}, {"D", dd}}, true,
			[&] { return mjson(Matrix(std::vector<std::vector<Matrix>> {{A, to_m(bk, ea)}, {to_m(cc, ea), to_m(dd, ea)}}), ea); });
	// inconsistent partitions (one block with one more row or column): not defined, at every position of the 2x2 layout
	if(m + n + k <= 7)
		for(int pos = 0; pos < 4; pos++)
			for(int dir = 0; dir < 2; dir++)
			{
				int ra = m, ca = n, rb = m, cb = k, rc = k, cn = n, rd = k, cd = k;
				int* tgt[4][2] = {{&ra, &ca}, {&rb, &cb}, {&rc, &cn}, {&rd, &cd}};
				(*tgt[pos][dir])++;
				IM xa = rand_im(g, ra, ca, style), xb = rand_im(g, rb, cb, style), xc = rand_im(g, rc, cn, style), xd = rand_im(g, rd, cd, style);
				request({{"e", "Block"}, {"A", xa}, {"B", xb}, {"C", xc}, {"D", xd}}, false,
						[&] { return mjson(Matrix(std::vector<std::vector<Matrix>> {{to_m(xa, ea), to_m(xb, ea)}, {to_m(xc, ea), to_m(xd, ea)}}), ea); });
			}
	// grids of blocks with up to three block rows and block columns (heights and widths 1..2); one in three is made inconsistent
	{
		int br = (int)g.range(1, 3), bc = (int)g.range(1, 3);
		std::vector<int> hs(br), ws(bc);
		for(int& h : hs)
			h = (int)g.range(1, 2);
		for(int& w : ws)
			w = (int)g.range(1, 2);
		bool spoil = g.coin(0.33) && br * bc > 1;
		int sr = (int)g.range(0, br - 1), scl = (int)g.range(0, bc - 1), sdir = (int)g.range(0, 1);
		std::vector<std::vector<IM>> G(br, std::vector<IM>(bc));
		json jg = json::array();
		for(int r = 0; r < br; r++)
		{
			json jr = json::array();
			for(int c = 0; c < bc; c++)
			{
				int hh = hs[r] + ((spoil && r == sr && c == scl && sdir == 0) ? 1 : 0), ww = ws[c] + ((spoil && r == sr && c == scl && sdir == 1) ? 1 : 0);
				G[r][c] = rand_im(g, hh, ww, style);
				jr.push_back(G[r][c]);
			}
			jg.push_back(jr);
		}
		request({{"e", "BlockG"}, {"G", jg}}, !spoil, [&] {
			std::vector<std::vector<Matrix>> B(br);
			for(int r = 0; r < br; r++)
				for(int c = 0; c < bc; c++)
					B[r].push_back(to_m(G[r][c], ea));
			return mjson(Matrix(B), ea);
		});
	}
	// scalars that are not powers of two, tiny (subnormal) and huge: every spelling of the division gives entry / s (to rounding),
	// zero entries stay zero, finite quotients stay finite
	{
		static const double SC[] = {3.0, -7.0, 0.1, 1e-310, -4e-320, 1e300, 4.9e-324};
		double sc = SC[g.range(0, 6)];
		long worst = 0;
		bool fin   = true;
		auto cmp   = [&](double got, double x) {
			  double exp = x / sc;
			  if(std::isfinite(exp) != std::isfinite(got) || std::isnan(got))
				  fin = false;
			  else if(std::isfinite(exp))
				  worst = std::max<long>(worst, (long)ulpdist(got, exp, 1000));
		};
		Matrix D1 = A.Division(sc), D2 = A / sc;
		Vector D3 = V / sc;
		for(int i = 0; i < m; i++)
			for(int j = 0; j < n; j++)
			{
				cmp(D1[i][j], A[i][j]);
				cmp(D2[i][j], A[i][j]);
			}
		for(int j = 0; j < n; j++)
			cmp(D3[j], V[j]);
		T->emit({{"e", "Corner"}, {"op", "division"}, {"scalar", hexbits(sc)}, {"ulps", worst}, {"fin", fin}});
	}
}

static void vector_ops(Rng& g, int d, int style)
{
	IV v = rand_iv(g, d, style), w = rand_iv(g, d, style);
	int e	 = g.coin(0.3) ? 0 : (int)g.range(-30, 30);
	Vector V = to_v(v, e), W = to_v(w, e);
	json jv = v, jw = w;
	auto ev = [&](const char* op, const char* sp, const json& x, const json& y) { return json {{"e", "Op"}, {"op", op}, {"sp", sp}, {"A", x}, {"B", y}}; };
	request(ev("VPlus", "operator", jv, jw), true, [&] { return vjson(V + W, e); });
	request(ev("VPlus", "compound", jv, jw), true, [&] { Vector C(V); C += W; return vjson(C, e); });
	request(ev("VMinus", "operator", jv, jw), true, [&] { return vjson(V - W, e); });
	request(ev("VMinus", "compound", jv, jw), true, [&] { Vector C(V); C -= W; return vjson(C, e); });
	request(ev("Dot", "member", jv, jw), true, [&] { return num(V.Dot(W), 2 * e); });
	request(ev("Dot", "operator", jv, jw), true, [&] { return num(V * W, 2 * e); });
	request(ev("VNorm2", "member", jv, 0), true, [&] { double nr = V.Norm(); return num(std::nearbyint(std::ldexp(nr * nr, -2 * e)), 0); });
	long s	  = g.range(-5, 5);
	int es	  = (int)g.range(-10, 10);
	double sd = std::ldexp((double)s, es);
	request(ev("VScal", "member", jv, s), true, [&] { return vjson(V * sd, e + es); });
	request(ev("VScal", "free", jv, s), true, [&] { return vjson(sd * V, e + es); });
	request(ev("VScal", "operator/", jv, 1), true, [&] { return vjson(V / std::ldexp(1.0, es), e - es); });
	request(ev("MEq", "Vector==", jv, jw), true, [&] { return json(V == W); });
	request(ev("MEq", "Vector==", jv, jv), true, [&] { return json(V == Vector(V)); });
	if(d == 3)
		request(ev("Cross", "member", jv, jw), true, [&] { return vjson(V.Cross(W), 2 * e); });
}

// non-conformable (and, next to them, conformable) pairings of shapes
static void shape_pairs(Rng& g, int maxd)
{
	for(int m = 1; m <= maxd; m++)
		for(int n = 1; n <= maxd; n++)
			for(int p = 1; p <= maxd; p++)
				for(int q = 1; q <= maxd; q++)
				{
					IM a = rand_im(g, m, n, 0), b = rand_im(g, p, q, 0);
					Matrix A = to_m(a, 0), B = to_m(b, 0);
					json ja = a, jb = b;
					bool same = (m == p && n == q);
					auto ev	  = [&](const char* op, const char* sp) { return json {{"e", "Op"}, {"op", op}, {"sp", sp}, {"A", ja}, {"B", jb}}; };
					request(ev("MPlus", "member"), same, [&] { return mjson(A.Plus(B), 0); });
					request(ev("MMinus", "member"), same, [&] { return mjson(A.Minus(B), 0); });
					if(!same || g.coin(0.2))
					{
						request(ev("MPlus", "operator"), same, [&] { return mjson(A + B, 0); });
						request(ev("MMinus", "operator"), same, [&] { return mjson(A - B, 0); });
						request(ev("MPlus", "compound"), same, [&] { Matrix C(A); C += B; return mjson(C, 0); });
						request(ev("MMinus", "compound"), same, [&] { Matrix C(A); C -= B; return mjson(C, 0); });
					}
					request(ev("MProd", "member"), n == p, [&] { return mjson(A.Product(B), 0); });
					if(n != p)
						request(ev("MProd", "operator"), false, [&] { return mjson(A * B, 0); });
				}
	for(int m = 1; m <= maxd; m++)
		for(int n = 1; n <= maxd; n++)
			for(int d = 1; d <= maxd; d++)
			{
				IM a = rand_im(g, m, n, 0);
				IV v = rand_iv(g, d, 0);
				Matrix A = to_m(a, 0);
				Vector V = to_v(v, 0);
				json ja = a, jv = v;
				request({{"e", "Op"}, {"op", "MVec"}, {"sp", "member"}, {"A", ja}, {"B", jv}}, d == n, [&] { return vjson(A.Product(V), 0); });
				request({{"e", "Op"}, {"op", "MVec"}, {"sp", "operator"}, {"A", ja}, {"B", jv}}, d == n, [&] { return vjson(A * V, 0); });
				request({{"e", "Op"}, {"op", "VMat"}, {"sp", "free"}, {"A", jv}, {"B", ja}}, d == m, [&] { return vjson(V * A, 0); });
			}
	for(int d = 1; d <= maxd; d++)
		for(int f = 1; f <= maxd; f++)
		{
			IV v = rand_iv(g, d, 0), w = rand_iv(g, f, 0);
			Vector V = to_v(v, 0), W = to_v(w, 0);
			json jv = v, jw = w;
			auto ev = [&](const char* op, const char* sp) { return json {{"e", "Op"}, {"op", op}, {"sp", sp}, {"A", jv}, {"B", jw}}; };
			request(ev("VPlus", "operator"), d == f, [&] { return vjson(V + W, 0); });
			request(ev("VMinus", "operator"), d == f, [&] { return vjson(V - W, 0); });
			request(ev("VPlus", "compound"), d == f, [&] { Vector C(V); C += W; return vjson(C, 0); });
			request(ev("VMinus", "compound"), d == f, [&] { Vector C(V); C -= W; return vjson(C, 0); });
			request(ev("Dot", "member"), d == f, [&] { return num(V.Dot(W), 0); });
			request(ev("Dot", "operator"), d == f, [&] { return num(V * W, 0); });
			request(ev("Cross", "member"), d == 3 && f == 3, [&] { return vjson(V.Cross(W), 0); });
		}
}

static void batch(const std::string& path, Rng& g, const std::function<void(Rng&)>& fn)
{
	Rng saved = g;
	bool ok	  = run_batch(path, [&](Trace& t) { T = &t; precise = false; Rng h = saved; fn(h); });
	if(!ok)
	{
		Trace t(path + ".precise");
		T		= &t;
		precise = true;
		Rng h	= saved;
		fn(h);
		t.flush();
		std::fclose(t.f);
		t.f = nullptr;
		std::ifstream in(path + ".precise", std::ios::binary);
		std::ofstream out(path, std::ios::binary | std::ios::app);
		out << in.rdbuf();
		std::remove((path + ".precise").c_str());
		precise = false;
	}
}

int main(int argc, char** argv)
{
	if(argc != 5 || std::string(argv[1]) != "record")
	{
		std::cerr << "usage: c04 record <seed> <tier> <out>" << std::endl;
		return 3;
	}
	Rng g(std::strtoull(argv[2], nullptr, 10));
	bool quick		 = std::string(argv[3]) == "quick";
	std::string path = argv[4];
	std::remove(path.c_str());
	// every shape triple up to 5 (exhaustive), random above up to 8
	for(int m = 1; m <= 5; m++)
		for(int n = 1; n <= 5; n++)
		{
			Rng h(g.next());
			batch(path, h, [&](Rng& r) {
				for(int k = 1; k <= 5; k++)
					for(int rep = 0; rep < (quick ? 1 : 4); rep++)
						matrix_ops(r, m, n, k, (m + n + k + rep) % 3);
			});
		}
	for(int i = 0; i < (quick ? 6 : 60); i++)
	{
		Rng h(g.next());
		batch(path, h, [&](Rng& r) {
			for(int j = 0; j < 10; j++)
				matrix_ops(r, (int)r.range(1, 8), (int)r.range(1, 8), (int)r.range(1, 8), (int)r.range(0, 2));
		});
	}
	for(int d = 1; d <= 8; d++)
	{
		Rng h(g.next());
		batch(path, h, [&](Rng& r) {
			for(int rep = 0; rep < (quick ? 6 : 40); rep++)
				vector_ops(r, d, rep % 3);
		});
	}
	{
		Rng h(g.next());
		batch(path, h, [&](Rng& r) { shape_pairs(r, quick ? 3 : 4); });
	}
	return 0;
}
