// C11 — minimisers.   run <vectors> <seed> <tier> <trace>
//   NM    : replay of the exact Nelder-Mead runs exported by MC_NelderMead: the sequence of points at which the real
//           Minimization::minimize evaluates the objective must be the model's (dyadic rationals: exact comparison)
//   Min1D : Find_Minimum / Find_Maximum on unimodal and multimodal objectives
//   MinND : Minimization::minimize (three overloads) on convex quadratic bowls with planted minimiser and on multimodal objectives
#include "common.hpp"
#include "libphysica/Numerics.hpp"

using namespace vf;
using namespace libphysica;
static const double EPS = 2.220446049250313e-16;

static double rd(const json& q) { return (double)q[0].get<int>() / (double)q[1].get<int>(); }

namespace libphysica
{
// guarded verification hook in src/Numerics.cpp: the bracketing phase of Find_Minimum on its own, returns {ax, bx, cx, fa, fb, fc}
std::vector<double> Verif_Bracket(std::function<double(double)> func, double a, double b);
}

// Bracketing phase against spec/Bracket.tla: positions and values as ranks (every decision of the code is a comparison)
static int record_bracket(Rng& g, bool quick, Trace& T)
{
	int n = quick ? 1200 : 20000;
	for(int i = 0; i < n; i++)
	{
		int fam	 = (int)g.range(0, 6);
		double c = (g.coin() ? 1 : -1) * g.logu(1e-3, 1e3), s = g.logu(1e-3, 1e3), f0 = g.coin(0.3) ? 0.0 : g.uni(-5, 5), w = g.uni(2, 9);
		std::function<double(double)> f;
		switch(fam)
		{
			case 0: f = [=](double x) { double t = (x - c) / s; return f0 + t * t; }; break;
			case 1: f = [=](double x) { double t = (x - c) / s; return f0 + t * t * t * t; }; break;
			case 2: f = [=](double x) { double t = (x - c) / s; return f0 + std::cosh(std::max(-300.0, std::min(300.0, t))); }; break;
			case 3: f = [=](double x) { double t = (x - c) / s; return f0 + std::sqrt(1.0 + t * t); }; break;
			case 4: f = [=](double x) { double t = (x - c) / s; return f0 + 0.05 * t * t + std::sin(w * t); }; break;	  // many local minima
			case 5: f = [=](double x) { double t = (x - c) / s; return f0 + std::fabs(t) + (t > 0 ? 2.0 * t : 0.0); }; break;	// kink, two slopes
			default: f = [=](double x) { double t = std::floor((x - c) / s); return f0 + t * t; }; break;				  // staircase: many equal values
		}
		// starting abscissae: near or far from the minimiser (many step lengths away), either order, either side
		double d = s * g.logu(1e-3, 1e3), xa = c + (g.coin() ? 1 : -1) * d, xb = xa + (g.coin() ? 1 : -1) * s * g.logu(1e-3, 30);
		if(xa == xb)
			continue;
		std::vector<double> xs, fs;
		std::function<double(double)> wrapped = [&](double x) { double v = f(x); xs.push_back(x); fs.push_back(v); return v; };
		intent("Bracket fam " + std::to_string(fam));
		std::vector<double> tr = Verif_Bracket(wrapped, xa, xb);
		bool fin = true;
		for(double v : fs)
			fin = fin && std::isfinite(v);
		for(double v : xs)
			fin = fin && std::isfinite(v);
		if(!fin || xs.size() > 400)
			continue;	// (outside the quantifier: the objective overflowed far away from its minimum)
		std::vector<double> ux(xs), uf(fs);
		std::sort(ux.begin(), ux.end());
		ux.erase(std::unique(ux.begin(), ux.end()), ux.end());
		std::sort(uf.begin(), uf.end());
		uf.erase(std::unique(uf.begin(), uf.end()), uf.end());
		auto rank = [](const std::vector<double>& u, double v) {
			auto it = std::lower_bound(u.begin(), u.end(), v);
			return (it != u.end() && *it == v) ? (int)(it - u.begin()) + 1 : 0;	  // 0: not a recorded point / value
		};
		T.emit({{"e", "BStart"}, {"fam", fam}, {"k", (int)xs.size()}});
		for(size_t k = 0; k < xs.size(); k++)
			T.emit({{"e", "BEval"}, {"x", rank(ux, xs[k])}, {"f", rank(uf, fs[k])}});
		T.emit({{"e", "BEnd"}, {"a", rank(ux, tr[0])}, {"b", rank(ux, tr[1])}, {"c", rank(ux, tr[2])}, {"fa", rank(uf, tr[3])}, {"fb", rank(uf, tr[4])}, {"fc", rank(uf, tr[5])}});
	}
	T.flush();
	finished();
	return 0;
}

// whole executions of Find_Minimum / Find_Maximum against spec/Trace_FindMin.tla (Bracket.tla, then BrentCore.tla); no hook involved
static int record_findmin(Rng& g, bool quick, Trace& T)
{
	int n = quick ? 800 : 12000;
	for(int i = 0; i < n; i++)
	{
		int fam	 = (int)g.range(0, 5);
		double c = (g.coin() ? 1 : -1) * g.logu(1e-3, 1e3), s = g.logu(1e-3, 1e3), f0 = g.coin(0.3) ? 0.0 : g.uni(-5, 5), w = g.uni(2, 9);
		std::function<double(double)> f;
		switch(fam)
		{
			case 0: f = [=](double x) { double t = (x - c) / s; return f0 + t * t; }; break;
			case 1: f = [=](double x) { double t = (x - c) / s; return f0 + t * t * t * t; }; break;
			case 2: f = [=](double x) { double t = (x - c) / s; return f0 + std::cosh(std::max(-300.0, std::min(300.0, t))); }; break;
			case 3: f = [=](double x) { double t = (x - c) / s; return f0 + std::sqrt(1.0 + t * t); }; break;
			case 4: f = [=](double x) { double t = (x - c) / s; return f0 + 0.05 * t * t + std::sin(w * t); }; break;	  // many local minima
			default: f = [=](double x) { double t = (x - c) / s; return f0 + std::fabs(t) + (t > 0 ? 2.0 * t : 0.0); }; break;	// kink, two slopes
		}
		bool uni  = fam != 4;
		bool maxi = g.coin(0.3);	// Find_Maximum of -f
		double d = s * g.logu(1e-3, 1e2), xa = c + (g.coin() ? 1 : -1) * d, xb = xa + (g.coin() ? 1 : -1) * s * g.logu(1e-3, 30);
		double tol = std::pow(10.0, -g.uni(3, 12));
		if(xa == xb)
			continue;
		std::vector<double> xs, fs;
		std::function<double(double)> wrapped = [&](double x) { double v = f(x); xs.push_back(x); fs.push_back(v); return maxi ? -v : v; };
		intent("Find_Minimum (trace) fam " + std::to_string(fam));
		double ret = maxi ? Find_Maximum(wrapped, xa, xb, tol) : Find_Minimum(wrapped, xa, xb, tol);
		bool fin = std::isfinite(ret);
		for(double v : fs)
			fin = fin && std::isfinite(v);
		if(!fin || xs.size() > 400)
			continue;
		std::vector<double> ux(xs), uf(fs);
		std::sort(ux.begin(), ux.end());
		ux.erase(std::unique(ux.begin(), ux.end()), ux.end());
		std::sort(uf.begin(), uf.end());
		uf.erase(std::unique(uf.begin(), uf.end()), uf.end());
		auto rank = [](const std::vector<double>& u, double v) {
			auto it = std::lower_bound(u.begin(), u.end(), v);
			return (it != u.end() && *it == v) ? (int)(it - u.begin()) + 1 : 0;
		};
		T.emit({{"e", "MStart"}, {"fam", fam}, {"k", (int)xs.size()}, {"max", maxi}});
		for(size_t k = 0; k < xs.size(); k++)
			T.emit({{"e", "BEval"}, {"x", rank(ux, xs[k])}, {"f", rank(uf, fs[k])}});
		T.emit({{"e", "MEnd"}, {"r", rank(ux, ret)}, {"uni", uni}});
	}
	T.flush();
	finished();
	return 0;
}

// whole executions of Minimization::minimize on arbitrary objectives against spec/Trace_NM.tla: objective values as ranks
static int record_nm(Rng& g, bool quick, Trace& T)
{
	int n = quick ? 400 : 6000;
	for(int i = 0; i < n; i++)
	{
		int dim = (int)g.range(1, 6), fam = (int)g.range(0, 5);
		std::vector<double> c(dim), sc(dim);
		for(int j = 0; j < dim; j++)
		{
			c[j]  = g.gauss() * std::pow(10.0, g.uni(-2, 2));
			sc[j] = g.logu(1e-2, 1e2);
		}
		double w = g.uni(1, 6), f0 = g.coin(0.3) ? 0.0 : g.uni(-5, 5);
		std::function<double(std::vector<double>)> f = [=](std::vector<double> x) {
			double s = 0;
			for(int j = 0; j < dim; j++)
			{
				double t = (x[j] - c[j]) / sc[j];
				switch(fam)
				{
					case 0: s += t * t; break;														// bowl
					case 1: s += t * t + 3.0 * (1.0 - std::cos(w * t)); break;						// many local minima
					case 2: s += std::fabs(t) + (t > 0 ? t : 0.0); break;							// kinks
					case 3: s += std::floor(std::fabs(t)); break;									// plateaus: equal values everywhere
					case 4: s += t * t * t * t - 2.0 * t * t + 0.3 * t; break;						// two wells per coordinate
					default: s += (j + 1 < dim ? 10.0 * std::pow((x[j + 1] - c[j + 1]) / sc[j + 1] - t * t, 2) : 0.0) + (1 - t) * (1 - t); break;	// curved valley
				}
			}
			return f0 + s;
		};
		std::vector<double> fs;
		std::function<double(std::vector<double>)> wrapped = [&](std::vector<double> x) { double v = f(x); fs.push_back(v); return v; };
		double ftol = std::pow(10.0, -g.uni(2, 10));
		Minimization M(ftol);
		std::vector<double> start(dim);
		for(int j = 0; j < dim; j++)
			start[j] = c[j] + sc[j] * g.gauss() * std::pow(10.0, g.uni(-1, 1.5));
		int overload = (int)g.range(0, 2);
		intent("minimize (trace) dim " + std::to_string(dim) + " fam " + std::to_string(fam) + " overload " + std::to_string(overload));
		// the process may end here (NMAX): run in a child, results through a string
		ChildResult r = run_child([&]() {
			if(overload == 0)
				M.minimize(start, sc[0] * g.logu(1e-2, 10), wrapped);
			else if(overload == 1)
			{
				std::vector<double> dl(dim);
				for(int j = 0; j < dim; j++)
					dl[j] = sc[j] * g.logu(1e-2, 10) * (g.coin() ? 1 : -1);
				M.minimize(start, dl, wrapped);
			}
			else
			{
				std::vector<std::vector<double>> pp(dim + 1, start);
				for(int k = 1; k <= dim; k++)
					for(int j = 0; j < dim; j++)
						pp[k][j] += sc[j] * g.gauss();
				M.minimize(pp, wrapped);
			}
			std::string sres;
			char b[40];
			std::snprintf(b, sizeof b, "%d %a ", M.nfunc, M.fmin);
			sres += b;
			for(double v : M.y)
			{
				std::snprintf(b, sizeof b, "%a ", v);
				sres += b;
			}
			sres += "| ";
			for(double v : fs)
			{
				std::snprintf(b, sizeof b, "%a ", v);
				sres += b;
			}
			return sres;
		}, 30);
		if(!r.returned)
			continue;	// (NMAX exceeded or time-out: outside what this trace looks at; the S-level events judge termination)
		std::istringstream is(r.result);
		int nfunc;
		std::string tok;
		is >> nfunc >> tok;
		double fmin = std::strtod(tok.c_str(), nullptr);
		std::vector<double> ys, vals;
		bool bar = false, fin = std::isfinite(fmin);
		while(is >> tok)
		{
			if(tok == "|")
			{
				bar = true;
				continue;
			}
			double v = std::strtod(tok.c_str(), nullptr);
			fin		 = fin && std::isfinite(v);
			(bar ? vals : ys).push_back(v);
		}
		if(!fin || vals.size() > 700 || (int)ys.size() != dim + 1)
			continue;
		std::vector<double> uf(vals);
		std::sort(uf.begin(), uf.end());
		uf.erase(std::unique(uf.begin(), uf.end()), uf.end());
		auto rank = [&](double v) {
			auto it = std::lower_bound(uf.begin(), uf.end(), v);
			return (it != uf.end() && *it == v) ? (int)(it - uf.begin()) + 1 : 0;
		};
		T.emit({{"e", "NStart"}, {"mpts", dim + 1}, {"fam", fam}, {"overload", overload}, {"k", (int)vals.size()}});
		for(double v : vals)
			T.emit({{"e", "NEval"}, {"f", rank(v)}});
		json yr = json::array();
		for(double v : ys)
			yr.push_back(rank(v));
		T.emit({{"e", "NEnd"}, {"y", yr}, {"nfunc", nfunc}, {"fmin", rank(fmin)}});
	}
	T.flush();
	finished();
	return 0;
}

int main(int argc, char** argv)
{
	guard_install(1500);
	if(argc == 5 && std::string(argv[1]) == "nmtrace")
	{
		Rng g(std::strtoull(argv[2], nullptr, 10));
		Trace T(argv[4]);
		return record_nm(g, std::string(argv[3]) == "quick", T);
	}
	if(argc == 5 && std::string(argv[1]) == "findmin")
	{
		Rng g(std::strtoull(argv[2], nullptr, 10));
		Trace T(argv[4]);
		return record_findmin(g, std::string(argv[3]) == "quick", T);
	}
	if(argc == 5 && std::string(argv[1]) == "bracket")
	{
		Rng g(std::strtoull(argv[2], nullptr, 10));
		Trace T(argv[4]);
		return record_bracket(g, std::string(argv[3]) == "quick", T);
	}
	if(argc != 6 || std::string(argv[1]) != "run")
	{
		finished();
		return 3;
	}
	auto cases = read_ndjson(argv[2]);
	Rng g(std::strtoull(argv[3], nullptr, 10));
	bool quick = std::string(argv[4]) == "quick";
	Trace T(argv[5]);
	// ---------------------------------------------------------------- replay of model runs
	for(auto& c : cases)
	{
		if(c["k"] != "nm")
			continue;
		auto& o = c["o"];
		int n	= (int)o["a"].size();
		std::vector<double> a, cc;
		for(int i = 0; i < n; i++)
		{
			a.push_back(o["a"][i]);
			cc.push_back(o["c"][i]);
		}
		double b = o["b"], f0 = o["f0"];
		int okind = o.value("kind", 0);
		std::vector<double> dd;
		double ww = 0;
		if(okind == 1)
		{
			for(int i = 0; i < n; i++)
				dd.push_back(o["d"][i]);
			ww = o["w"];
		}
		std::vector<std::vector<double>> ev;
		auto f = [&](std::vector<double> x) {
			ev.push_back(x);
			if(okind == 1)
			{	// two piecewise-linear wells (not convex): f0 + min(sum a|x-c|, w + sum a|x-d|); exact on the dyadic lattice
				double s1 = 0, s2 = ww;
				for(int i = 0; i < n; i++)
				{
					s1 += a[i] * std::fabs(x[i] - cc[i]);
					s2 += a[i] * std::fabs(x[i] - dd[i]);
				}
				return f0 + std::min(s1, s2);
			}
			double s = f0;
			for(int i = 0; i < n; i++)
				s += a[i] * (x[i] - cc[i]) * (x[i] - cc[i]);
			if(n >= 2)
				s += b * (x[0] - cc[0]) * (x[1] - cc[1]);
			return s;
		};
		std::vector<std::vector<double>> pp;
		for(auto& v : c["start"])
		{
			std::vector<double> pt;
			for(auto& q : v)
				pt.push_back(rd(q));
			pp.push_back(pt);
		}
		Minimization M(rd(c["ftol"]));
		intent("minimize (model replay)");
		std::vector<double> ret = M.minimize(pp, f);
		// compare the evaluation sequence with the model's
		size_t nm = c["evals"].size(), same = 0;
		bool done = c["done"];
		for(size_t k = 0; k < std::min(nm, ev.size()); k++)
		{
			bool eq = ev[k].size() == c["evals"][k].size();
			for(size_t j = 0; eq && j < ev[k].size(); j++)
				eq = ev[k][j] == rd(c["evals"][k][j]);
			if(!eq)
				break;
			same++;
		}
		bool seqok = same == nm && (!done || ev.size() == nm);
		// S: state consistency and "never worse than the start"
		double best0 = INFINITY;
		for(auto& v : pp)
			best0 = std::min(best0, f(v));
		bool stateok = M.fmin == f(ret) && M.y[0] == M.fmin && M.current_simplex[0] == ret;
		for(size_t i = 0; i < M.y.size(); i++)
			stateok = stateok && M.y[i] == f(M.current_simplex[i]) && M.y[0] <= M.y[i];
		bool retok = true;
		if(done)
			for(int j = 0; j < n; j++)
				retok = retok && ret[j] == rd(c["p"][0][j]);
		T.emit({{"e", "NM"}, {"dim", n}, {"done", done}, {"seqok", seqok}, {"same", (int)same}, {"nmodel", (int)nm}, {"nreal", (int)ev.size()}, {"retok", retok},
				{"notworse", f(ret) <= best0}, {"stateok", stateok}, {"nfuncok", !done || M.nfunc == c["nfunc"].get<int>()}});
	}
	// ---------------------------------------------------------------- 1D
	int n1 = quick ? 1500 : 30000;
	for(int i = 0; i < n1; i++)
	{
		int fam = i % 6;
		double c = (g.coin() ? 1 : -1) * g.logu(1e-3, 1e3), s = g.logu(1e-3, 1e3), f0 = g.coin(0.3) ? 0.0 : g.uni(-5, 5);
		if(i % 13 == 0)
			c = 0.0;
		std::function<double(double)> f;
		std::string cls = "unimodal";
		if(fam == 0)
			f = [=](double x) { double t = (x - c) / s; return f0 + t * t; };
		else if(fam == 1)
			f = [=](double x) { double t = (x - c) / s; return f0 + t * t * t * t; };	 // quartic-flat
		else if(fam == 2)
			f = [=](double x) { double t = (x - c) / s; return f0 + std::cosh(std::max(-300.0, std::min(300.0, t))); };
		else if(fam == 3)
		{	// Lennard-Jones-like asymmetric well in r = x - (c - s) > 0, minimum at r = s
			f = [=](double x) { double r = x - (c - s); if(r <= 0) return 1e300; double q = s / r; double q6 = q * q * q * q * q * q; return f0 + q6 * q6 - 2.0 * q6; };
		}
		else if(fam == 4)
			f = [=](double x) { double t = (x - c) / s; return f0 + std::sqrt(1.0 + t * t); };
		else
		{
			cls = "multimodal";
			double w = g.uni(1, 8);
			f		 = [=](double x) { double t = (x - c) / s; return f0 + 0.05 * t * t + std::sin(w * t); };
		}
		// starting abscissae: any order, any side, step sizes 1e-3..1e3 (relative to the width scale)
		double step = s * g.logu(1e-3, 1e3), x0 = c + s * g.uni(-20, 20);
		if(fam == 3)
			x0 = (c - s) + s * g.logu(0.3, 20);	  // inside the domain of the well
		double xa = x0, xb = x0 + (g.coin() ? 1 : -1) * step;
		if(fam == 3)
		{	// keep both abscissae where the tail of the well is still resolved by doubles (beyond r ~ 100 s the function is constant to rounding)
			double rb = std::min(std::max(xb - (c - s), 0.3 * s), 30.0 * s);
			xb		  = (c - s) + rb;
			if(xb == xa)
				xb = xa + 0.1 * s;
		}
		if(i % 17 == 5)
		{	// the two starting abscissae carry exactly the same objective value (a tie): f(x) = ((x-c)^2 - d^2) (x - c - 0.3 d) on (c-d, c+d),
			// c and d dyadic so that f vanishes exactly at both; a maximiser is the minimiser of -f for tied starts too
			double cd = std::ldexp((double)g.range(-40, 40), -3), dd = std::ldexp((double)g.range(1, 24), -3);
			cls = "multimodal";
			f	= [=](double x) { double u = x - cd; return (u * u - dd * dd) * (u - 0.3 * dd) / (dd * dd * dd); };
			xa	= cd - dd;
			xb	= cd + dd;
			if(g.coin())
				std::swap(xa, xb);
		}
		double tol = g.logu(1e-12, 1e-3);
		intent("Find_Minimum fam " + std::to_string(fam) + " c=" + hexbits(c) + " s=" + hexbits(s) + " f0=" + hexbits(f0) + " xa=" + hexbits(xa) + " xb=" + hexbits(xb) + " tol=" + hexbits(tol));
		// every evaluation is observed: the point returned must be the best one evaluated (Brent keeps the best point in x)
		double fbest = INFINITY;
		long nev	 = 0;
		double xm = Find_Minimum([&](double x) { double v = f(x); nev++; fbest = std::min(fbest, v); return v; }, xa, xb, tol);
		bool bestok = f(xm) <= fbest;
		double xM	 = Find_Maximum([&](double x) { return -f(x); }, xa, xb, tol);
		bool notworse = f(xm) <= std::min(f(xa), f(xb));
		int64_t dq = -1;
		if(cls == "unimodal")
		{
			// flatness: the largest |x-c| at which f is indistinguishable from f(c)
			double fc = f(c), flat = 0, thr = 16 * EPS * std::max(std::fabs(fc), 1e-300) + 1e-300;
			for(double d = s * 1e-12; d < s * 10; d *= 1.25)
				if(f(c + d) - fc <= thr || f(c - d) - fc <= thr)
					flat = d;
			// Brent's tolerance is tol*|x| + eps (absolute); the bracket closes to four times that
			dq = quant(xm - c, 8.0 * tol * std::max(std::fabs(c), std::fabs(xm)) + 16.0 * EPS + 8.0 * flat + 8 * EPS * s + 1e-300);
		}
		T.emit({{"e", "Min1D"}, {"fam", fam}, {"cls", cls}, {"notworse", notworse}, {"fin", std::isfinite(xm)}, {"maxeq", bits(xM) == bits(xm)}, {"dq", dq}, {"bestok", bestok}, {"nev", nev},
				{"par", {hexbits(c), hexbits(s), hexbits(f0), hexbits(xa), hexbits(xb), hexbits(tol), hexbits(xm)}}});
	}
	// ---------------------------------------------------------------- N-D
	// The first NFIXB cases come from a fixed stream (independent of the seed) and are all bowls: the distance clause is decided on them,
	// so that the cases listed as known findings are identified individually (field "case"); seeded cases add descent/consistency checks.
	int NFIXB = quick ? 400 : 2000;
	int nn = NFIXB + (quick ? 1200 : 12000);
	Rng gfix(11235813), &gseed = g;
	for(int i = 0; i < nn; i++)
	{
		Rng& g = i < NFIXB ? gfix : gseed;
		int dim = (int)g.range(1, 6), overload = i % 3;
		bool bowl = i < NFIXB || (i % 2 == 0);
		bool judged = i < NFIXB;
		// strictly convex quadratic f0 + 1/2 sum lam_k (q_k . (x - c))^2 with an orthonormal frame from Gram-Schmidt
		std::vector<std::vector<double>> Q(dim, std::vector<double>(dim));
		for(int a = 0; a < dim; a++)
		{
			for(int k = 0; k < dim; k++)
				Q[a][k] = g.gauss();
			for(int b = 0; b < a; b++)
			{
				double d = 0;
				for(int k = 0; k < dim; k++)
					d += Q[a][k] * Q[b][k];
				for(int k = 0; k < dim; k++)
					Q[a][k] -= d * Q[b][k];
			}
			double nr = 0;
			for(int k = 0; k < dim; k++)
				nr += Q[a][k] * Q[a][k];
			nr = std::sqrt(nr);
			for(int k = 0; k < dim; k++)
				Q[a][k] /= nr;
		}
		double cond = g.logu(1.0, 1e4), lmin = g.logu(1e-2, 1e2);
		std::vector<double> lam(dim), c(dim);
		for(int k = 0; k < dim; k++)
		{
			lam[k] = lmin * std::pow(cond, dim == 1 ? 0.0 : (double)k / (dim - 1));
			c[k]   = g.uni(-10, 10);
		}
		double f0 = (g.coin() ? 1 : -1) * g.logu(0.1, 10);
		double w  = g.uni(1, 5);
		int mm	  = i < NFIXB ? 0 : (int)g.range(0, 2);	   // (the fixed stream must stay as it is: its failing cases are listed)
		auto f = [&](std::vector<double> x) {
			double sq = 0;
			for(int a = 0; a < dim; a++)
			{
				double pr = 0;
				for(int k = 0; k < dim; k++)
					pr += Q[a][k] * (x[k] - c[k]);
				sq += 0.5 * lam[a] * pr * pr;
			}
			if(!bowl)
			{	// multimodal (only descent and consistency are claimed): a ripple on the bowl, Rastrigin or Himmelblau -- rough enough for shrink steps
				if(mm == 0)
					sq += std::sin(w * (x[0] - c[0])) * lmin;
				else if(mm == 1)
				{
					sq = 10.0 * dim;
					for(int k = 0; k < dim; k++)
						sq += (x[k] - c[k]) * (x[k] - c[k]) - 10.0 * std::cos(6.283185307179586 * (x[k] - c[k]));
				}
				else
				{
					double X = x[0] - c[0], Y = dim > 1 ? x[1] - c[1] : 1.0;
					sq = (X * X + Y - 11) * (X * X + Y - 11) + (X + Y * Y - 7) * (X + Y * Y - 7);
					for(int k = 2; k < dim; k++)
						sq += std::fabs(x[k] - c[k]) * (1.5 + std::cos(5.0 * x[k]));
				}
			}
			return f0 + sq;
		};
		double ftol = g.logu(1e-12, 1e-3), delta = g.logu(1e-3, 1e3);
		std::vector<double> start(dim);
		for(int k = 0; k < dim; k++)
			start[k] = c[k] + g.uni(-1, 1) * g.logu(1e-2, 1e2);
		std::vector<double> deltas(dim);
		for(int k = 0; k < dim; k++)
			deltas[k] = overload == 0 ? delta : delta * g.logu(0.3, 3) * (g.coin() ? 1 : -1);
		if(!bowl && i % 4 != 1)
		{	// the regime in which shrink steps occur: simplices of the size of the ripples
			ftol = 1e-8;
			for(int k = 0; k < dim; k++)
			{
				start[k]  = c[k] + g.uni(-4, 4);
				deltas[k] = g.uni(0.3, 3.0) * (g.coin() ? 1 : -1);
			}
			if(overload == 0)
				delta = deltas[0];
			if(overload == 0)
				for(int k = 0; k < dim; k++)
					deltas[k] = delta;
		}
		std::vector<std::vector<double>> pp(dim + 1, start);
		for(int k = 0; k < dim; k++)
			pp[k + 1][k] += deltas[k];
		if(overload == 2)	// a general (skewed) starting simplex
			for(int k = 1; k <= dim; k++)
				for(int j = 0; j < dim; j++)
					pp[k][j] += 0.3 * delta * g.uni(-1, 1);
		double best0 = INFINITY;
		for(auto& v : pp)
			best0 = std::min(best0, f(v));
		json ev = {{"e", "MinND"}, {"dim", dim}, {"overload", overload}, {"cls", judged ? "bowl" : (bowl ? "bowl-free" : "multimodal")}, {"case", judged ? i : -1}, {"cond", quant(cond, 1.0)}};
		// executed in a child: NMAX exceeded terminates the process
		ChildResult r = run_child([&]() {
			Minimization M(ftol);
			std::vector<double> ret = overload == 0 ? M.minimize(start, delta, f) : (overload == 1 ? M.minimize(start, deltas, f) : M.minimize(pp, f));
			bool stateok = bits(M.fmin) == bits(f(ret)) && bits(M.y[0]) == bits(M.fmin) && M.current_simplex[0] == ret && (int)M.y.size() == dim + 1;
			for(size_t k = 0; stateok && k < M.y.size(); k++)
				stateok = bits(M.y[k]) == bits(f(M.current_simplex[k])) && M.y[0] <= M.y[k];
			double dist = 0, diam = 0;
			for(int k = 0; k < dim; k++)
				dist += (ret[k] - c[k]) * (ret[k] - c[k]);
			for(auto& v : M.current_simplex)
			{
				double d = 0;
				for(int k = 0; k < dim; k++)
					d += (v[k] - ret[k]) * (v[k] - ret[k]);
				diam = std::max(diam, d);
			}
			json o = {{"notworse", f(ret) <= best0}, {"stateok", stateok}, {"dist", std::sqrt(dist)}, {"diam", std::sqrt(diam)}, {"nfunc", M.nfunc}};
			return o.dump();
		}, 60);
		if(!r.returned)
		{
			ev["returned"] = false;
			ev["how"]	   = outcome(r);
			ev["notworse"] = false;
			ev["stateok"]  = false;
			ev["dq"]	   = 1 << 30;
			ev["collapsed"] = false;
		}
		else
		{
			json o		   = json::parse(r.result);
			ev["returned"] = true;
			ev["notworse"] = o["notworse"];
			ev["stateok"]  = o["stateok"];
			double dist = o["dist"], diam = o["diam"];
			// f - fmin <= 16 ftol (|f0| + TINY) at termination  =>  distance <= sqrt(2 * 16 ftol |f0| / lam_min); plus rounding of f
			double bound = std::sqrt(2.0 * 16.0 * (ftol * (std::fabs(f0) + 1e-10) + 64 * EPS * std::fabs(f0)) / lmin);
			ev["dq"]	   = judged ? quant(dist, bound) : -1;
			ev["collapsed"] = diam < 1e-2 * dist;
		}
		T.emit(ev);
	}
	// ---------------------------------------------------------------- one Minimization object used for many calls
	// Every call on a used object must return, and return what a fresh object returns for the same request (bit for bit).
	{
		int nseq = quick ? 3 : 24;
		for(int sq = 0; sq < nseq; sq++)
		{
			uint64_t sseed = 7770 + sq;
			ChildResult r  = run_child([&]() {
				Rng h(sseed);
				Minimization used(1e-8);
				long ndiff = 0, nbadstate = 0, total = 0;
				int ncalls = 60;
				for(int cidx = 0; cidx < ncalls; cidx++)
				{
					// (each sequence stays with one spelling: a counter that only some overloads reset must not be helped by the others)
					int dim = (int)h.range(1, 4), overload = sq % 3;
					h.range(0, 2);
					std::vector<double> c(dim), lam(dim), start(dim), deltas(dim);
					for(int k = 0; k < dim; k++)
					{
						c[k]	  = h.uni(-10, 10);
						lam[k]	  = h.logu(0.5, 20);
						start[k]  = c[k] + h.uni(-4, 4);
						deltas[k] = h.uni(0.3, 2.0) * (h.coin() ? 1 : -1);
					}
					double f0 = h.uni(0.5, 3);
					auto f	  = [&](std::vector<double> x) {
						   double v = f0;
						   for(int k = 0; k < dim; k++)
							   v += 0.5 * lam[k] * (x[k] - c[k]) * (x[k] - c[k]);
						   return v;
					};
					std::vector<std::vector<double>> pp(dim + 1, start);
					for(int k = 0; k < dim; k++)
						pp[k + 1][k] += deltas[k];
					auto call = [&](Minimization& M) { return overload == 0 ? M.minimize(start, deltas[0], f) : (overload == 1 ? M.minimize(start, deltas, f) : M.minimize(pp, f)); };
					Minimization fresh(1e-8);
					std::vector<double> a = call(fresh), b = call(used);
					total += fresh.nfunc;
					bool same = a.size() == b.size() && bits(fresh.fmin) == bits(used.fmin);
					for(size_t k = 0; same && k < a.size(); k++)
						same = bits(a[k]) == bits(b[k]);
					if(!same)
						ndiff++;
					if(!(bits(used.fmin) == bits(f(b)) && used.current_simplex[0] == b && (int)used.y.size() == dim + 1))
						nbadstate++;
				}
				json o = {{"ncalls", ncalls}, {"ndiff", ndiff}, {"nbadstate", nbadstate}, {"evals", total}};
				return o.dump();
			}, 120);
			json ev = {{"e", "MinReuse"}, {"seq", sq}, {"returned", r.returned}, {"how", outcome(r)}, {"ncalls", 0}, {"ndiff", 0}, {"nbadstate", 0}, {"evals", 0}};
			if(r.returned)
			{
				json o		   = json::parse(r.result);
				ev["ncalls"]   = o["ncalls"];
				ev["ndiff"]	   = o["ndiff"];
				ev["nbadstate"] = o["nbadstate"];
				ev["evals"]	   = o["evals"];
			}
			T.emit(ev);
		}
	}
	T.flush();
	finished();
	return 0;
}
