// Shape machine (spec/Shape.tla): drives one real Matrix and one real Vector along the behaviours exported by TLC and
// records, for every step whose history has not been recorded before, the observed state before, the action and the
// observed state after.  With probes on, every distinct observed state is additionally asked the index / conformability
// requests of the C10 vocabulary, each in its own child process (fork gives the child the objects as they are now).
//     shape <behaviours.ndjson> <trace.ndjson> <probes 0|1>
#include <unordered_set>

#include "common.hpp"
#include "libphysica/Linear_Algebra.hpp"

using namespace vf;
using namespace libphysica;

static const long long BADNUM = -999999;
static long long as_int(double x)
{
	if(!(std::fabs(x) < 1e9) || x != std::floor(x))
		return BADNUM;
	return (long long)x;
}

// what the public interface shows of the two objects
static json observe(Matrix& M, Vector& v)
{
	json o;
	unsigned r = M.Rows(), c = M.Columns();
	o["r"] = r;
	o["c"] = c;
	json w = json::array(), m = json::array();
	for(unsigned i = 0; i < r; i++)
	{
		std::vector<double>& row = M[i];
		w.push_back(row.size());
		json jr = json::array();
		for(unsigned j = 0; j < c; j++)
			jr.push_back(j < row.size() ? as_int(M[i][j]) : BADNUM);	  // a short row is reported through w, not read
		m.push_back(jr);
	}
	o["w"] = w;
	o["m"] = m;
	unsigned n = v.Size();
	o["n"]	   = n;
	json vc	   = json::array();
	for(unsigned k = 0; k < n; k++)
		vc.push_back(as_int(v[k]));
	o["v"] = vc;
	// round trips that must not depend on the history of the object
	bool tt = true;
	if(r >= 1 && c >= 1)
	{
		bool full = true;
		for(unsigned i = 0; i < r; i++)
			full = full && M[i].size() == c;
		if(full)
		{
			Matrix T = M.Transpose();
			tt		 = T.Rows() == c && T.Columns() == r;
			for(unsigned i = 0; tt && i < r; i++)
				for(unsigned j = 0; j < c; j++)
					if(T[j].size() != r || T[j][i] != M[i][j])
						tt = false;
			Matrix C(M);
			tt = tt && C.Rows() == r && C.Columns() == c;
			for(unsigned i = 0; tt && i < r; i++)
				if(M.Return_Row(i).Size() != c)
					tt = false;
			for(unsigned j = 0; tt && j < c; j++)
				if(M.Return_Column(j).Size() != r)
					tt = false;
		}
	}
	// copies of the vector (copy construction, assignment, by-value passing) are the vector
	{
		Vector c1(v), c2;
		c2 = v;
		if(c1.Size() != n || c2.Size() != n)
			tt = false;
		for(unsigned k = 0; tt && k < n; k++)
			if(c1[k] != v[k] || c2[k] != v[k])
				tt = false;
	}
	o["tt"] = tt;
	return o;
}

static Matrix pattern(int r, int c)
{
	std::vector<std::vector<double>> e(r, std::vector<double>(c));
	for(int i = 0; i < r; i++)
		for(int j = 0; j < c; j++)
			e[i][j] = 10 * (i + 1) + (j + 1);
	return Matrix(e);
}

static void apply(Matrix& M, Vector& v, const std::string& a, int x, int y, int z)
{
	if(a == "MConst")
		M = Matrix((unsigned)x, (unsigned)y, (double)z);
	else if(a == "MPattern")
		M = pattern(x, y);
	else if(a == "MDiag")
	{
		std::vector<double> d(x);
		for(int i = 0; i < x; i++)
			d[i] = i + 1;
		M = Matrix(d);
	}
	else if(a == "MResize")
		M.Resize(x, y);
	else if(a == "MAssign")
		M.Assign(x, y, (double)z);
	else if(a == "MDelRow")
		M.Delete_Row((unsigned)(x - 1));
	else if(a == "MDelCol")
		M.Delete_Column((unsigned)(x - 1));
	else if(a == "MTranspose")
		M = M.Transpose();
	else if(a == "MSub")
		M = M.Sub_Matrix(x - 1, y - 1);
	else if(a == "MSet")
		M[x - 1][y - 1] = (double)z;
	else if(a == "MAddOne")
	{
		Matrix one(M.Rows(), M.Columns(), 1.0);
		if(z == 0)
			M += one;
		else if(z == 1)
			M = M.Plus(one);
		else
			M = M + one;
	}
	else if(a == "MScale")
	{
		if(z == 0)
			M = M.Product(2.0);
		else if(z == 1)
			M = M * 2.0;
		else
			M = 2.0 * M;
	}
	else if(a == "VConst")
		v = Vector((unsigned)x, (double)z);
	else if(a == "VList")
	{
		std::vector<double> e(x);
		for(int k = 0; k < x; k++)
			e[k] = 101 + k;
		v = Vector(e);
	}
	else if(a == "VResize")
		v.Resize((unsigned)x);
	else if(a == "VAssign")
		v.Assign((unsigned)x, (double)z);
	else if(a == "VSet")
		v[x - 1] = (double)z;
	else if(a == "VRow")
		v = M.Return_Row((unsigned)(x - 1));
	else if(a == "VCol")
		v = M.Return_Column((unsigned)(x - 1));
	else if(a == "VMatVec")
	{
		if(z == 0)
			v = M.Product(v);
		else
			v = M * v;
	}
	else if(a == "VVecMat")
		v = v * M;
	else if(a == "VAddOne")
	{
		Vector one(v.Size(), 1.0);
		if(z == 0)
			v += one;
		else
			v = v + one;
	}
	else
	{
		std::string msg = "VERIF-UNKNOWN-ACTION " + a + "\n";
		(void)!write(errfd_ref(), msg.data(), msg.size());
		_exit(4);
	}
}

static volatile double sink;
static unsigned uidx(long v) { return v == 9999 ? 0xFFFFFFFFu : (unsigned)v; }
static void probe(Matrix& M, Vector& v, const std::string& p, long i, long j)
{
	if(p == "MIdx")
		sink = M[uidx(i)].size();
	else if(p == "MIdxC")
	{
		const Matrix& C = M;
		sink			= C[uidx(i)].size();
	}
	else if(p == "RetRow")
		sink = M.Return_Row(uidx(i)).Size();
	else if(p == "RetCol")
		sink = M.Return_Column(uidx(i)).Size();
	else if(p == "DelRow")
		M.Delete_Row(uidx(i));
	else if(p == "DelCol")
		M.Delete_Column(uidx(i));
	else if(p == "VIdx")
	{
		sink		= v[uidx(i)];
		v[uidx(i)] = 2.0;
	}
	else if(p == "VIdxC")
	{
		const Vector& c = v;
		sink			= c[uidx(i)];
	}
	else if(p == "PlusSame")
		sink = M.Plus(Matrix(M.Rows(), M.Columns(), 1.0)).Rows();
	else if(p == "PlusT")
		sink = M.Plus(Matrix(M.Columns(), M.Rows(), 1.0)).Rows();
	else if(p == "MinusEqT")
	{
		M -= Matrix(M.Columns(), M.Rows(), 1.0);
		sink = M.Rows();
	}
	else if(p == "MatVec")
		sink = (M * v).Size();
	else if(p == "VecMat")
		sink = (v * M).Size();
	else if(p == "TraceDet")
		sink = (i == 0) ? M.Trace() : M.Determinant();
	else if(p == "SubM")
		sink = M.Sub_Matrix((int)i, (int)j).Rows();
	else if(p == "VPlusSame" || p == "VPlusOther")
		sink = (v + Vector(v.Size() + (p == "VPlusOther" ? 1 : 0), 1.0)).Size() + (Vector(v.Size() + (p == "VPlusOther" ? 1 : 0), 1.0) - v).Size();	  // v on either side
	else if(p == "VMinusEqSame" || p == "VMinusEqOther")
	{
		v -= Vector(v.Size() + (p == "VMinusEqOther" ? 1 : 0), 1.0);
		sink = v.Size();
	}
	else if(p == "VDotSame" || p == "VDotOther")
		sink = v.Dot(Vector(v.Size() + (p == "VDotOther" ? 1 : 0), 1.0));
}

int main(int argc, char** argv)
{
	if(argc != 4)
	{
		std::cerr << "usage: shape <behaviours.ndjson> <trace.ndjson> <probes 0|1>" << std::endl;
		return 3;
	}
	guard_install(3000);
	bool probes = std::string(argv[3]) == "1";
	Trace T(argv[2]);
	std::ifstream in(argv[1]);
	std::string line;
	std::unordered_set<std::string> seen_hist, seen_state;
	long nbeh = 0;
	while(std::getline(in, line))
	{
		if(line.empty())
			continue;
		json b = json::parse(line);
		nbeh++;
		Matrix M;
		Vector v;
		std::string key;
		json pre;
		bool have_pre = false;
		for(auto& s : b["h"])
		{
			std::string a = s["a"];
			int x = s["x"], y = s["y"], z = s["z"];
			key += a + "," + std::to_string(x) + "," + std::to_string(y) + "," + std::to_string(z) + ";";
			bool fresh = seen_hist.insert(key).second;
			if(fresh && !have_pre)
				pre = observe(M, v);
			intent("behaviour " + std::to_string(nbeh) + ": " + key);
			apply(M, v, a, x, y, z);
			have_pre = false;
			if(fresh)
			{
				json post = observe(M, v);
				T.emit({{"e", "Tr"}, {"pre", pre}, {"a", a}, {"x", x}, {"y", y}, {"z", z}, {"post", post}, {"hist", key}});
				pre		 = post;
				have_pre = true;
				if(probes)
				{
					// probes depend on the shape and on how the representation came about (the last action): one set per (shape, widths, last action)
					long r = post["r"], c = post["c"], n = post["n"];
					std::string wk = post["w"].dump();
					bool mkey = a[0] == 'M' && seen_state.insert("M" + std::to_string(r) + "," + std::to_string(c) + wk + a).second;
					bool vkey = a[0] == 'V' && seen_state.insert("V" + std::to_string(n) + a).second;
					bool xkey = seen_state.insert("X" + std::to_string(r) + "," + std::to_string(c) + "," + std::to_string(n) + wk).second;
					std::vector<std::tuple<std::string, long, long>> ps;
					if(mkey)
					{
						for(const char* p : {"MIdx", "MIdxC", "RetRow", "DelRow"})
							for(long i : {r - 1, r, r + 1, 9999L})
								if(i >= 0)
									ps.emplace_back(p, i, 0);
						for(const char* p : {"RetCol", "DelCol"})
							for(long i : {c - 1, c, c + 1, 9999L})
								if(i >= 0 && !(std::string(p) == "RetCol" && r == 0))	// Return_Column of a matrix without rows: not specified
									ps.emplace_back(p, i, 0);
						if(r >= 1 && c >= 1)
						{
							for(const char* p : {"PlusSame", "PlusT", "MinusEqT"})
								ps.emplace_back(p, 0, 0);
							ps.emplace_back("TraceDet", 0, 0);
							ps.emplace_back("TraceDet", 1, 0);
							ps.emplace_back("SubM", r - 1, c - 1);
							ps.emplace_back("SubM", r, c - 1);
							ps.emplace_back("SubM", r - 1, c);
						}
					}
					if(vkey)
					{
						for(const char* p : {"VIdx", "VIdxC"})
							for(long i : {n - 1, n, n + 1, 9999L})
								if(i >= 0)
									ps.emplace_back(p, i, 0);
						for(const char* p : {"VPlusSame", "VPlusOther", "VMinusEqSame", "VMinusEqOther", "VDotSame", "VDotOther"})
							ps.emplace_back(p, 0, 0);
					}
					if(xkey && r >= 1 && c >= 1)
						for(const char* p : {"MatVec", "VecMat"})
							ps.emplace_back(p, 0, 0);
					for(auto& t : ps)
					{
						std::string p = std::get<0>(t);
						long i = std::get<1>(t), j = std::get<2>(t);
						ChildResult res = run_child([&]() { probe(M, v, p, i, j); return std::string("ok"); }, 10);
						std::string o	= outcome(res);
						T.emit({{"e", "Probe"}, {"st", post}, {"p", p}, {"i", i}, {"j", j}, {"ret", res.returned}, {"diag", o == "exit_diag"},
								{"mem", o == "signal" || o == "memerror" || o == "timeout"}, {"how", o}, {"hist", key}, {"msg", (res.err + res.out).substr(0, 300)}});
					}
				}
			}
		}
	}
	T.flush();
	finished();
	return 0;
}
