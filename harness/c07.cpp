// C07 — coherence of densities, CDFs, quantiles and likelihoods.   run <vectors> <seed> <tier> <trace>
#include "common.hpp"
#include "libphysica/Numerics.hpp"
#include "libphysica/Statistics.hpp"

using namespace vf;
using namespace libphysica;
static const double EPS = 2.220446049250313e-16;

static long double big(const json& v)
{
	long double x = 0;
	for(int i = (int)v.size() - 1; i >= 0; i--)
		x = x * 10000.0L + (long double)v[i].get<int>();
	return x;
}
// integral of f over [a,b]: composite 16-point Gauss-Legendre in long double (trusted harness quadrature)
static long double quad(const std::function<double(double)>& f, double a, double b, int panels = 8, bool split = true)
{
	static const long double gx[8] = {0.0950125098376374401853193L, 0.2816035507792589132304605L, 0.4580167776572273863424194L, 0.6178762444026437484466718L,
									  0.7554044083550030338951012L, 0.8656312023878317438804679L, 0.9445750230732325760779884L, 0.9894009349916499325961542L};
	static const long double gw[8] = {0.1894506104550684962853967L, 0.1826034150449235888667637L, 0.1691565193950025381893121L, 0.1495959888165767320815017L,
									  0.1246289712555338720524763L, 0.0951585116824927848099251L, 0.0622535239386478928628438L, 0.0271524594117540948517806L};
	// intervals far from zero relative to their width are split geometrically (densities with power-law behaviour near the origin)
	if(split && a > 0 && b / a > 1.5)
	{
		long double s = 0;
		double lo	  = a;
		while(lo < b)
		{
			double hi = std::min(b, lo * 1.5);
			s += quad(f, lo, hi, 4, false);
			lo = hi;
		}
		return s;
	}
	long double h = ((long double)b - a) / panels, s = 0;
	for(int p = 0; p < panels; p++)
	{
		long double c = a + (p + 0.5L) * h;
		for(int k = 0; k < 8; k++)
			s += 0.5L * h * gw[k] * ((long double)f((double)(c + 0.5L * h * gx[k])) + (long double)f((double)(c - 0.5L * h * gx[k])));
	}
	return s;
}

// one continuous family on an ascending grid: density >= 0, CDF in [0,1] non-decreasing, 0 / 1 in the far tails, increments = integral of the density
static json grid_event(const std::string& fam, const std::string& tol, double tolv, const std::function<double(double)>& pdf, const std::function<double(double)>& cdf,
					   std::vector<double> xs, double far_lo, double far_hi, bool has_lo_tail)
{
	std::sort(xs.begin(), xs.end());
	bool nonneg = true, range = true, fin = true;
	double up = 0, inc = 0, prev = 0, prevx = 0;
	bool first = true;
	for(double x : xs)
	{
		intent(fam);
		double p = pdf(x), c = cdf(x);
		fin	   = fin && std::isfinite(p) && std::isfinite(c);
		nonneg = nonneg && p >= 0.0;
		range  = range && c >= 0.0 && c <= 1.0;
		if(!first)
		{
			up = std::max(up, prev - c);	 // a decrease of the CDF
			if(x > prevx)
			{
				// densities with an integrable singularity or a jump at the support boundary: the quadrature interval starts inside
				long double I = quad(pdf, prevx, x, 16);
				inc			  = std::max(inc, (double)fabsl((long double)c - (long double)prev - I));
			}
		}
		prev  = c;
		prevx = x;
		first = false;
	}
	double clo = cdf(far_lo), chi = cdf(far_hi);
	return {{"e", "Grid"}, {"fam", fam}, {"tol", tol}, {"fin", fin}, {"nonneg", nonneg}, {"range", range}, {"monoq", quant(up, tolv)}, {"incq", quant(inc, tolv)},
			{"lo0", !has_lo_tail || clo <= tolv}, {"hi1", chi >= 1.0 - tolv && chi <= 1.0}};
}

int main(int argc, char** argv)
{
	guard_install(1500);
	if(argc != 6 || std::string(argv[1]) != "run")
	{
		finished();
		return 3;
	}
	auto cases = read_ndjson(argv[2]);
	Rng g(std::strtoull(argv[3], nullptr, 10));
	bool quick = std::string(argv[4]) == "quick";
	Trace T(argv[5]);
	Quiet* quiet = new Quiet();
	// ---------------------------------------------------------------- exact discrete families
	for(auto& c : cases)
	{
		std::string k = c["k"];
		if(k == "row")
		{	// Pascal row n (k = 0..n/2): binomial masses for p = j/8
			int n = c["n"];
			if(n > 170 || (quick && n > 30 && n % 10 != 0 && n != 170 && n != 169))
				continue;
			for(int j = 0; j <= 12; j++)
			{
				// p = j/8, and (j = 9..12) p within 2^-7 and 2^-12 of one and of zero: there (1-p)^n or p^n leaves the range of doubles
				// (n = 170: 2^-1190, 2^-2040), which a recurrence started from that power does not survive
				long double p = j <= 8 ? j / 8.0L : (j == 9 ? 1.0L - 0.0078125L : (j == 10 ? 0.0078125L : (j == 11 ? 1.0L - 0.000244140625L : 0.000244140625L)));
				long double worstp = 0, worstc = 0, acc = 0;
				double libsum = 0;
				bool nonneg = true, mono = true;
				double prevc = -1;
				for(int x = 0; x <= n; x++)
				{
					long double C	= big(c["c"][std::min(x, n - x)]);
					long double ref = C * powl(p, x) * powl(1.0L - p, n - x);
					if(j == 0)
						ref = (x == 0) ? 1.0L : 0.0L;
					if(j == 8)
						ref = (x == n) ? 1.0L : 0.0L;
					acc += ref;
					intent("PMF_Binomial");
					double pm = PMF_Binomial((unsigned)n, (double)p, (unsigned)x), cd = CDF_Binomial((unsigned)n, (double)p, (unsigned)x);
					worstp = std::max(worstp, fabsl(pm - ref));
					worstc = std::max(worstc, fabsl(cd - acc));
					libsum += pm;
					nonneg = nonneg && pm >= 0;
					mono   = mono && cd >= prevc;
					prevc  = cd;
				}
				bool outside = PMF_Binomial((unsigned)n, (double)p, (unsigned)(n + 1)) == 0.0;
				T.emit({{"e", "Binom"}, {"n", n}, {"k8", j}, {"pq", quant((double)worstp, 64 * EPS)}, {"cq", quant((double)worstc, 64 * EPS * (n + 1))},
						{"sumq", quant(libsum - 1.0, 64 * EPS * (n + 1))}, {"nonneg", nonneg}, {"mono", mono}, {"outside", outside}, {"last1", std::fabs(prevc - 1.0) <= 64 * EPS * (n + 1)}});
			}
		}
		else if(k == "pois")
		{
			int m8 = c["m8"], cnt = c["cnt"];
			long double mu = m8 / 8.0L, em = expl(-mu);
			long double cref = em * (big(c["cnum"]) / big(c["cden"])), pref = em * (big(c["pnum"]) / big(c["pden"]));
			intent("PMF/CDF_Poisson");
			double pm = PMF_Poisson((double)mu, (unsigned)cnt), cd = CDF_Poisson((double)mu, (unsigned)cnt);
			bool hi	  = cnt + 1 > 100;
			// likelihoods at signal + background = mu
			double s = (double)mu * 0.625, b = (double)mu - s;
			double lk = Likelihood_Poisson(s, (unsigned long)cnt, b), llk = Log_Likelihood_Poisson(s, (unsigned long)cnt, b);
			long double lref = logl(pref);
			T.emit({{"e", "Pois"}, {"m8", m8}, {"cnt", cnt}, {"tol", hi ? "1e-3" : "1e-12"},
					{"pq", quant((double)(pm - pref), 1e-11 * (double)pref + 1e-300)}, {"cq", quant((double)(cd - cref), hi ? 1e-3 : 1e-12)}, {"range", cd >= 0 && cd <= 1 && pm >= 0},
					{"likq", quant((double)(lk - pref), 1e-11 * (double)pref + 1e-300)}, {"loglikq", quant((double)(llk - lref), 1e-11 * std::max(1.0L, fabsl(lref)))}});
		}
	}
	// ---------------------------------------------------------------- Poisson: CDF = sum of PMF on the library's own values; inverse; binned likelihoods
	int np = quick ? 300 : 5000;
	for(int i = 0; i < np; i++)
	{
		double mu = g.logu(1e-3, 1e3);
		unsigned kmax = (unsigned)std::min(500.0, mu + 12 * std::sqrt(mu) + 20);
		double acc = 0, worst = 0, prev = -1;
		bool mono = true, range = true;
		for(unsigned k = 0; k <= kmax; k++)
		{
			intent("CDF_Poisson sum");
			acc += PMF_Poisson(mu, k);
			double cd = CDF_Poisson(mu, k);
			double tol = (k + 1 > 100) ? 1e-3 : 1e-11;
			worst	   = std::max(worst, std::fabs(cd - acc) / tol);
			mono	   = mono && cd >= prev - tol;	 // non-decreasing to the accuracy of the CDF itself
			range	   = range && cd >= 0 && cd <= 1;
			prev	   = cd;
		}
		T.emit({{"e", "PoisSum"}, {"q", quant(worst, 1.0)}, {"mono", mono}, {"range", range}});
		// inverse: CDF_Poisson(Inv_CDF_Poisson(n, c), n) = c
		unsigned n = (unsigned)g.range(0, 500);
		double cc  = g.coin(0.3) ? g.logu(1e-9, 0.5) : g.uni(0.001, 0.999);
		intent("Inv_CDF_Poisson");
		double muinv = Inv_CDF_Poisson(n, cc);
		double back	 = CDF_Poisson(muinv, n);
		T.emit({{"e", "InvPois"}, {"hi", n + 1 > 100}, {"tol", n + 1 > 100 ? "1e-3" : "1e-7"}, {"fin", std::isfinite(muinv) && muinv >= 0}, {"q", quant(back - cc, n + 1 > 100 ? 1e-3 : 1e-7)}});
		// ... also in the far tails, where an absolute tolerance says nothing: the level reached differs from the requested one by
		// at most 1e-4 of the tail probability (the inverse is iterated to a relative 1e-8 in the mean; series branch a <= 100)
		{
			unsigned nt = (unsigned)g.range(0, 99);
			double t	= g.logu(1e-11, 0.5);
			double ct	= g.coin() ? t : 1.0 - t;
			intent("Inv_CDF_Poisson tail");
			double mt = Inv_CDF_Poisson(nt, ct);
			double bt = CDF_Poisson(mt, nt);
			T.emit({{"e", "InvPoisTail"}, {"side", ct < 0.5 ? 0 : 1}, {"fin", std::isfinite(mt) && mt >= 0}, {"q", quant(bt - ct, 1e-4 * std::min(ct, 1.0 - ct) + 1e-15)}});
		}
		// binned likelihood = product over bins; log versions = logarithm
		int nb = (int)g.range(1, 6);
		std::vector<double> sg(nb), bk(nb);
		std::vector<unsigned long> ob(nb);
		long double prod = 1, lsum = 0;
		for(int j = 0; j < nb; j++)
		{
			sg[j] = g.logu(1e-3, 50);
			bk[j] = g.coin(0.3) ? 0.0 : g.logu(1e-3, 50);
			ob[j] = (unsigned long)g.range(0, 60);
			long double pmf = PMF_Poisson(sg[j] + bk[j], (unsigned)ob[j]);
			prod *= pmf;
			lsum += logl(pmf);
		}
		intent("Likelihood_Poisson_Binned");
		double L = Likelihood_Poisson_Binned(sg, ob, bk), LL = Log_Likelihood_Poisson_Binned(sg, ob, bk);
		T.emit({{"e", "Lik"}, {"q", quant((double)(L - prod), 1e-11 * nb * (double)prod + 1e-300)}, {"lq", quant((double)(LL - lsum), 1e-11 * std::max(1.0L, fabsl(lsum)))}});
	}
	// ---------------------------------------------------------------- continuous families
	int ng = quick ? 120 : 2500;
	for(int i = 0; i < ng; i++)
	{
		int fam = i % 7;
		if(fam == 0)
		{
			double a = g.uni(-10, 10), b = a + g.logu(1e-3, 1e3);
			std::vector<double> xs = {a, b, std::nextafter(a, -INFINITY), std::nextafter(b, INFINITY), a - 1, b + 1};
			for(int k = 0; k < 12; k++)
				xs.push_back(g.uni(a, b));
			// the density jumps at the ends: increments are checked inside the support only
			std::vector<double> in;
			for(double x : xs)
				if(x >= a && x <= b)
					in.push_back(x);
			T.emit(grid_event("uniform", "1e-12", 1e-12, [=](double x) { return PDF_Uniform(x, a, b); }, [=](double x) { return CDF_Uniform(x, a, b); }, in, a - 5, b + 5, true));
			json o = {{"e", "Edge"}, {"fam", "uniform"}, {"ok", PDF_Uniform(a - 1, a, b) == 0 && PDF_Uniform(b + 1, a, b) == 0 && CDF_Uniform(a - 1, a, b) == 0 && CDF_Uniform(b + 1, a, b) == 1
																	  && CDF_Uniform(a, a, b) == 0 && CDF_Uniform(b, a, b) == 1}};
			T.emit(o);
		}
		else if(fam == 1)
		{
			double mu = g.uni(-100, 100), s = g.logu(1e-3, 1e3);
			std::vector<double> xs;
			for(int k = 0; k < 16; k++)
				xs.push_back(mu + s * g.uni(-9, 9));
			T.emit(grid_event("normal", "1e-12", 1e-12, [=](double x) { return PDF_Gauss(x, mu, s); }, [=](double x) { return CDF_Gauss(x, mu, s); }, xs, mu - 40 * s, mu + 40 * s, true));
			// quantile
			// (every normal case asks for the far lower tail, the far upper tail and the centre: the tails are where a guard of the
			// inverse error function acts, and a random choice between them can leave one unvisited in a short run)
			for(int part = 0; part < 3; part++)
			{
				double p = part == 0 ? g.logu(1e-14, 0.5) : (part == 1 ? 1.0 - g.logu(1e-14, 0.5) : g.uni(0.001, 0.999));
				intent("Quantile_Gauss");
				double q = Quantile_Gauss(p, mu, s);
				// CDF_Gauss = (1 + erf)/2 is itself rounded at about 1e-16 absolute (coarse relative to p in the far lower tail)
				T.emit({{"e", "Quantile"}, {"ok", CDF_Gauss(q - 1.5e-4 * s, mu, s) - 4 * EPS <= p && p <= CDF_Gauss(q + 1.5e-4 * s, mu, s) + 4 * EPS}});
			}
			// the two-dimensional normal density of independent coordinates is the product of the one-dimensional densities (whose
			// interval integrals the Grid event above ties to CDF_Gauss): widths differ by up to six decades, points out to 9 sigma
			{
				std::pair<double, double> mean(mu, g.uni(-100, 100)), sigma(s, g.coin(0.15) ? s : g.logu(1e-3, 1e3));
				long worst = 0;
				bool nonneg = true;
				intent("PDF_Gauss_2D");
				for(int k = 0; k < 12; k++)
				{
					double x = mean.first + sigma.first * g.uni(-9, 9), y = mean.second + sigma.second * g.uni(-9, 9);
					if(k == 0)
						x = mean.first, y = mean.second;
					double v = PDF_Gauss_2D(x, y, mean, sigma), w = PDF_Gauss(x, mean.first, sigma.first) * PDF_Gauss(y, mean.second, sigma.second);
					double z = 0.5 * (std::pow((x - mean.first) / sigma.first, 2) + std::pow((y - mean.second) / sigma.second, 2));
					nonneg	 = nonneg && v >= 0;
					worst	 = std::max<long>(worst, quant(v - w, (64 + 8 * z) * EPS * std::fabs(w) + 1e-300));
				}
				T.emit({{"e", "Gauss2D"}, {"q", worst}, {"nonneg", nonneg}});
			}
		}
		else if(fam == 2)
		{
			double m = g.logu(1e-3, 1e3);
			std::vector<double> xs = {0.0};
			for(int k = 0; k < 14; k++)
				xs.push_back(m * g.logu(1e-6, 40));
			T.emit(grid_event("exponential", "1e-12", 1e-12, [=](double x) { return PDF_Exponential(x, m); }, [=](double x) { return CDF_Exponential(x, m); }, xs, -1.0, 60 * m, true));
			T.emit({{"e", "Edge"}, {"fam", "exponential"}, {"ok", PDF_Exponential(-1e-9 * m, m) == 0 && CDF_Exponential(-1e-9 * m, m) == 0}});
		}
		else if(fam == 3)
		{
			double a = g.logu(1e-3, 1e3);
			std::vector<double> xs = {0.0};
			for(int k = 0; k < 14; k++)
				xs.push_back(a * g.logu(1e-4, 12));
			T.emit(grid_event("maxwell", "1e-12", 1e-12, [=](double x) { return PDF_Maxwell_Boltzmann(x, a); }, [=](double x) { return CDF_Maxwell_Boltzmann(x, a); }, xs, -1.0, 30 * a, true));
		}
		else if(fam == 4 || fam == 5)
		{
			double dof = (fam == 4) ? g.uni(0.5, 400.0) : (double)g.range(1, 400);
			if(i % 21 == 4)
				dof = g.uni(196.0, 204.0);	 // both sides of the a = dof/2 = 100 switch of the incomplete gamma function
			bool hi = dof / 2 > 100;
			double sd = std::sqrt(2 * dof);
			std::vector<double> xs;
			double lo = dof < 8 ? 1e-3 : 0.0;	// the density behaves like x^(dof/2-1) at zero (unbounded below two degrees of freedom, non-smooth below eight): increments are checked from 1e-3 on, where the harness quadrature (geometric panels) is accurate
			for(int k = 0; k < 14; k++)
				xs.push_back(std::max(lo, dof + sd * g.uni(-6, 9)));
			xs.push_back(std::max(lo, dof - 2.0));
			xs.push_back(lo);
			T.emit(grid_event(hi ? "chi2hi" : "chi2", hi ? "2e-3" : "1e-9", hi ? 2e-3 : 1e-9, [=](double x) { return PDF_Chi_Square(x, dof); }, [=](double x) { return CDF_Chi_Square(x, dof); }, xs, -1.0,
							  dof + 60 * sd + 60, true));
		}
		else
		{
			int nw = (int)g.range(1, 6);
			std::vector<double> w(nw + 1);
			double sum = 0;
			for(auto& x : w)
			{
				x = g.uni(0, 1);
				sum += x;
			}
			for(auto& x : w)
				x /= sum;
			std::vector<double> xs;
			for(int k = 0; k < 14; k++)
				xs.push_back(g.logu(1e-3, 40));
			T.emit(grid_event("chibar", "1e-9", 1e-9, [=](double x) { return PDF_Chi_Bar_Square(x, w); }, [=](double x) { return CDF_Chi_Bar_Square(x, w); }, xs, -1.0, 400, true));
		}
	}
	// ---------------------------------------------------------------- kernel density estimate
	int nk = quick ? 25 : 400;
	for(int i = 0; i < nk; i++)
	{
		int n = g.coin(0.3) ? (int)g.range(1, 4) : (int)g.range(5, 400);	  // also samples of one to four points
		std::vector<DataPoint> data;
		double lo = g.uni(-5, 5), w = g.logu(0.1, 100);
		for(int k = 0; k < n; k++)
			data.push_back(DataPoint(lo + w * (g.coin(0.5) ? g.u01() : std::fabs(g.gauss()) * 0.2), g.coin(0.5) ? 1.0 : g.uni(0.1, 3.0)));
		double bw = (g.coin(0.5) && n >= 5) ? 0.0 : w * g.logu(0.01, 0.5);	  // (the rule-of-thumb bandwidth needs a spread: tiny samples get an explicit one)
		intent("Perform_KDE");
		Interpolation kde = Perform_KDE(data, lo, lo + w, bw);
		bool nonneg = true;
		for(int k = 0; k <= 1500; k++)
			nonneg = nonneg && kde(lo + w * k / 1500.0) >= -1e-300;	  // (the interpolation of underflowing tails may round to -4.9e-324)
		double I = kde.Integrate(lo, lo + w);
		if(getenv("VERIF_DEBUG") && (!nonneg || quant(I - 1.0, 1e-5) > 1))
		{
			dprintf(errfd_ref(), "DBGKDE n=%d lo=%.17g w=%.17g bw=%.17g I=%.17g nonneg=%d\n", n, lo, w, bw, I, (int)nonneg);
			for(auto& p : data)
				dprintf(errfd_ref(), "   %.17g %.17g\n", p.value, p.weight);
		}
		T.emit({{"e", "KDE"}, {"nonneg", nonneg}, {"intq", quant(I - 1.0, 1e-5)}});
	}
	T.flush();
	delete quiet;
	finished();
	return 0;
}
