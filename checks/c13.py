"""C13 — named 1D methods and nested multi-dimensional integrals agree with analysis."""
import json
import os

import vf


def run(ctx):
    ctx.assumptions += ["polynomial cases: exact rational integral per axis from spec/NestedQuad.tla, axes with disjoint ranges [0,2], [3,4], [5,7]",
                        "non-polynomial families are kept regular (damped oscillation with at most two periods and lambda*L <= 5, rational with poles outside the Bernstein ellipse 1.6, "
                        "Gaussian windows of at most six standard deviations); accuracy is relative to the L1 norm of the integrand",
                        "nested 3D Trapezoidal is not run (8.6e9 evaluations per integral)"]
    cfg = os.path.join(ctx.work, "MC_Nested.cfg")
    open(cfg, "w").write(open(os.path.join(vf.SPEC, "MC_Nested.cfg")).read().replace("SALTS = 1", "SALTS = 1" if ctx.quick() else "SALTS = 4"))
    out = os.path.join(ctx.work, "nest.out")
    ctx.mc("MC_Nested", cfg, env={"OUT": out})
    vec = os.path.join(ctx.work, "vectors.ndjson")
    n = 0
    with open(vec, "w") as fh:
        for line in open(out):
            rec = vf.unescape_csv_json_line(line)
            fh.write(json.dumps(rec) + "\n")
            n += 1
            if n in (3, 200):
                ctx.sample({"replay_case": rec})
    ctx.cov["replayed_cases"] += n
    exe = ctx.harness("c13")
    trace = os.path.join(ctx.work, "trace.ndjson")
    rc, o, err = vf.run_exe([exe, "run", vec, str(ctx.seed), ctx.tier, trace], timeout=3300)
    d = [l for l in err.splitlines() if l.startswith("VERIF-DIED")]
    if d:
        ctx.violation("died " + d[0].split("intent=")[-1][:40], "library terminated while integrating: " + d[0], {"stderr": err[-1500:]})
    elif rc != 0:
        raise vf.EngineError("c13 rc=%s %s" % (rc, err[-1500:]))

    def key_of(execu, bad):
        e = bad.get("e")
        if e == "Nest":
            why = []
            if bad.get("nwrong"):
                why.append("argument outside the limits of its own axis")
            if bad.get("leaves") and bad.get("nleaf") != bad.get("leaves"):
                why.append("evaluation count differs from order^dim")
            if bad.get("errq", 0) > 1 or not bad.get("sgnok"):
                why.append("value")
            return "Nest %s dim %d%s: %s" % (bad["meth"], bad["dim"], " par" if bad.get("par") else "", ", ".join(why) or "tolerance/leaf bookkeeping")
        if e == "One":
            why = []
            if bad.get("errq", 0) > 1:
                why.append("gross error" if bad.get("gross") else "beyond the stated accuracy (within 100x)")
            if not bad.get("neg"):
                why.append("reversed limits do not negate")
            if not bad.get("zero"):
                why.append("equal limits not zero")
            if bad.get("nout"):
                why.append("evaluation outside the interval")
            return "One %s family %d: %s" % (bad["meth"], bad["fam"], ", ".join(why))
        if e == "Sph":
            why = [k for k in ("badnorm", "badcos", "badphi") if bad.get(k)] + (["value"] if bad.get("errq", 0) > 1 else [])
            return "Sph %s %s: %s" % (bad["meth"], "full sphere" if bad.get("full") else "sub-range", ", ".join(why))
        return str(e)

    ctx.validate_all("Trace_Nested", trace, key_of, group_start="__each__", max_rejections=25,
                     what_of=lambda ex, bad: "rejected by spec/Trace_Nested.tla: %s" % json.dumps(bad)[:400])
    lines = open(trace).read().splitlines()
    ctx.sample({"trace_event": json.loads(lines[0])})
    ctx.sample({"trace_event": json.loads(lines[-1])})
    ctx.count(len(lines), ["%d" % i for i in range(len(lines))])
    ctx.cov["exhaustive"] = True
    ctx.cov["rule"] = ("model: every method x dimension 1..3 x orientation pattern x parameter (default/explicit) x %d polynomial triples (exhaustive), wiring invariant over the nest; "
                       "replay: each exported case (3D Trapezoidal skipped; slow adaptive 3D cases thinned in the quick tier); traces: + smooth families x 6 methods, spherical overload" % (2 if ctx.quick() else 5))
