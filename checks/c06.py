"""C06 — Gamma-function family: accuracy over the whole domain and self-consistency."""
import json
import os

import vf

MACHINES = [("Memo", ["Memo_Next"]), ("Tab", []), ("Pas", []), ("QS", [])]


def died(err):
    d = [l for l in err.splitlines() if l.startswith("VERIF-DIED")]
    return d[0] if d else None


def run(ctx):
    ctx.assumptions += ["exact values (n!, binomial coefficients, Gamma at half-integers over sqrt(pi), the rational series of Q at integer and half-integer a) "
                        "are computed by TLC from spec/Gamma.tla in arbitrary-precision integer arithmetic (spec/Big.tla)",
                        "the replayer supplies the transcendental factors with libm long-double expl / erfcl / sqrtl / logl (trusted); lgammal is the "
                        "reference for GammaLn at non-half-integer arguments",
                        "inverse round trips are not required where the quantile underflows (a < 0.06 and p below P(1e-290, a)): no double x satisfies the clause there"]
    exe = ctx.harness("c06")
    vec = os.path.join(ctx.work, "vectors.ndjson")
    nvec = 0
    consts = "CONSTANTS HLEN = 3 NMAX = %d NCHK = 60 ABIG = {%s}" % (400, "" if ctx.quick() else "1200, 2000")
    with open(vec, "w") as fh:
        for name, need in MACHINES:
            cfg = os.path.join(ctx.work, "MC_Gamma_%s.cfg" % name)
            body = open(os.path.join(vf.SPEC, "MC_Gamma_%s.cfg" % name)).read().splitlines()
            open(cfg, "w").write("\n".join([consts] + [l for l in body if not l.startswith("CONSTANTS")]) + "\n")
            out = os.path.join(ctx.work, "g_%s.out" % name)
            ctx.mc("MC_Gamma", cfg, env={"OUT": out})
            for line in open(out):
                rec = vf.unescape_csv_json_line(line)
                fh.write(json.dumps(rec) + "\n")
                nvec += 1
                if rec["k"] in ("hist", "q") and nvec % 301 == 0:
                    rec = dict(rec)
                    for f in ("num", "den"):
                        if f in rec:
                            rec[f] = "(%d limbs)" % len(rec[f])
                    ctx.sample({"replay_case": rec})
    rtrace = os.path.join(ctx.work, "replay_trace.ndjson")
    trace = os.path.join(ctx.work, "trace.ndjson")
    for cmd, tr in (([exe, "replay", vec, rtrace], rtrace), ([exe, "record", str(ctx.seed), ctx.tier, trace], trace)):
        rc, out, err = vf.run_exe(cmd, timeout=3000)
        if died(err):
            it = died(err).split("intent=")[-1]
            fn = it.split("(")[0]
            ctx.violation("died " + fn, "library terminated while serving a meaningful request: " + died(err), {"stderr": err[-1500:]})
        elif rc != 0:
            raise vf.EngineError("c06 %s rc=%s %s" % (cmd[1], rc, err[-1500:]))
    ctx.cov["replayed_cases"] += nvec

    def key_of(execu, bad):
        e = bad.get("e")
        over = sorted(k for k, v in bad.items() if (k.endswith("q") and isinstance(v, int) and not isinstance(v, bool) and v > 1))
        flags = sorted(k for k, v in bad.items() if v is False and k in ("stable", "inrange", "zero", "fin"))
        if e == "Fact":
            return "Fact memo: " + ",".join(over + flags + (["table-length"] if not over and not flags else []))
        if e == "Q":
            return "Q %s %s: %s" % (bad.get("branch"), bad.get("tol"), ",".join(over + flags) or "unit/branch")
        if e == "Rel":
            return "Rel %s%s: %s" % (bad.get("kind"), " a>100" if bad.get("hi") else "", ",".join(over + flags))
        if e == "Inv":
            return "Inv %s: %s" % ("a>100" if bad.get("hi") else "a<=100", ",".join(over + flags))
        if e == "Binom":
            return "Binom %s: %s" % ("n>170" if bad.get("n", 0) > 170 else "n<=170", ",".join(over + flags))
        return "%s %s: %s" % (e, bad.get("kind", ""), ",".join(over + flags))

    for tr in (rtrace, trace):
        if os.path.exists(tr) and os.path.getsize(tr):
            with open(tr) as fh:
                fh.readline()
                ctx.sample({"trace_event": json.loads(fh.readline())})
            ctx.validate_all("Trace_Gamma", tr, key_of, group_start="Reset", max_rejections=10,
                             what_of=lambda ex, bad: "rejected by spec/Trace_Gamma.tla: %s" % json.dumps(bad)[:400])
    ctx.count(ctx.cov["trace_events"], ["V%d" % i for i in range(nvec)])
    ctx.cov["exhaustive"] = True
    ctx.cov["rule"] = ("model: every Factorial call history of length 3 over 10 boundary arguments (memo machine), n! for all n<=170, Pascal rows 0..400, "
                       "exact Q-series on the lattice a in {1/2..12 step 1/2, 20, 50, 99..102 step 1/2, 150, 200, 400}%s x ~40 abscissae each (dense at x=a+1, "
                       "tails to a+40sqrt(a)+40); replay: one case per exported state; record: random real arguments (Gamma recurrence, P/Q relations on "
                       "ascending x grids, inverse round trips)" % ("" if ctx.quick() else " + {600, 1000}"))
