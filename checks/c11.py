"""C11 — minimisers never end worse than they started and converge on convex bowls."""
import json
import os

import vf


def run(ctx):
    ctx.assumptions += ["Nelder-Mead model: integer-coefficient quadratics (values >= 1) from integer starting simplices in 1 and 2 dimensions, ftol in {1/4, 1/64}, at most 6 iterations; all quantities are dyadic rationals",
                        "1D distance bound: 8 tol max(|c|,|x|) + 16 eps + 8 x (half-width over which the objective is constant to 16 eps |f(c)|); Lennard-Jones-like wells are started where their tail is still resolved by doubles (r <= 30 s)",
                        "N-D distance bound: sqrt(2 * 16 (ftol |f0| + 64 eps |f0|) / lambda_min)"]
    out = os.path.join(ctx.work, "nm.out")
    cfg = os.path.join(ctx.work, "MC_NelderMead.cfg")
    open(cfg, "w").write(open(os.path.join(vf.SPEC, "MC_NelderMead.cfg")).read().replace("WIDE = FALSE", "WIDE = FALSE" if ctx.quick() else "WIDE = TRUE"))
    ctx.mc("MC_NelderMead", cfg, env={"OUT": out})
    vec = os.path.join(ctx.work, "vectors.ndjson")
    n = 0
    kinds = set()
    with open(vec, "w") as fh:
        for line in open(out):
            rec = vf.unescape_csv_json_line(line)
            fh.write(json.dumps(rec) + "\n")
            n += 1
            kinds.update(rec["kinds"])
            if n == 7:
                ctx.sample({"replay_case": {k: rec[k] for k in ("o", "ftol", "start", "kinds", "done", "nfunc")}})
    ctx.cov["replayed_cases"] += n
    if not {"reflect", "expand", "contract", "shrink"} <= kinds:
        raise vf.EngineError("vacuous Nelder-Mead model: step kinds exercised = %s" % sorted(kinds))
    ctx.notes.append("Nelder-Mead step kinds exercised by the model: %s (shrink steps come from the two-well objectives)" % sorted(kinds))
    exe = ctx.harness("c11")
    trace = os.path.join(ctx.work, "trace.ndjson")
    rc, o, err = vf.run_exe([exe, "run", vec, str(ctx.seed), ctx.tier, trace], timeout=3300)
    d = [l for l in err.splitlines() if l.startswith("VERIF-DIED")]
    if d:
        it = d[0].split("intent=")[-1]
        ctx.violation("died " + " ".join(it.split()[:3])[:40], "library terminated on a meaningful minimisation request: " + d[0][:400] + " | " + err[-300:].replace("\n", " "), {"stderr": err[-1500:]})
    elif rc != 0:
        raise vf.EngineError("c11 rc=%s %s" % (rc, err[-1500:]))

    def key_of(execu, bad):
        e = bad.get("e")
        if e == "NM":
            return "NM replay: %s" % ("worse than the start" if not bad["notworse"] else "reported state inconsistent with the objective")
        if e == "Min1D":
            why = []
            if not bad["fin"] or not bad["notworse"]:
                why.append("worse than the starting abscissae")
            if not bad["maxeq"]:
                why.append("Find_Maximum(f) differs from Find_Minimum(-f)")
            if bad["cls"] == "unimodal" and not (0 <= bad["dq"] <= 1):
                why.append("not within the distance implied by the tolerance")
            return "Min1D family %d: %s" % (bad["fam"], ", ".join(why))
        if e == "MinND":
            if not bad["returned"]:
                return "MinND dim %d: terminated the process (%s)" % (bad["dim"], bad.get("how"))
            if not bad["notworse"]:
                return "MinND dim %d overload %d: worse than the best starting vertex" % (bad["dim"], bad["overload"])
            if not bad["stateok"]:
                return "MinND dim %d overload %d: reported state inconsistent with the objective" % (bad["dim"], bad["overload"])
            return "MinND bowl fixed-stream case %d" % bad.get("case", -1)
        return str(e)

    ctx.validate_collect("Trace_Min", trace, key_of,
                     what_of=lambda ex, bad: "rejected by spec/Trace_Min.tla: %s" % json.dumps({k: v for k, v in bad.items() if k != "par"})[:300])
    # A-level for the one-dimensional minimiser: Brent.tla (bracket holds the minimiser, x best so far, accuracy on return)
    cfgb = os.path.join(ctx.work, "Brent.cfg")
    open(cfgb, "w").write(open(os.path.join(vf.SPEC, "Brent.cfg")).read().replace("N = 12 TS = {1, 2}", "N = 12 TS = {1, 2}" if ctx.quick() else "N = 18 TS = {1, 2, 3}"))
    ctx.mc("Brent", cfgb, timeout=1800)
    # A-level for the bracketing phase: Bracket.tla (design check on a grid), then recorded executions of the real Bracket() through the
    # guarded hook Verif_Bracket, positions and values as ranks, validated action by action against the same module
    cfgk = os.path.join(ctx.work, "MC_Bracket.cfg")
    open(cfgk, "w").write(open(os.path.join(vf.SPEC, "MC_Bracket.cfg")).read().replace("N = 10 GL = 3", "N = 10 GL = 3" if ctx.quick() else "N = 13 GL = 4"))
    ctx.mc("MC_Bracket", cfgk, timeout=2400, workers=8,
           need_actions=("NEvalA", "NEvalB", "NEvalC", "NInsideLow", "NInsideHigh", "NInsideUndecided", "NGolden", "NOutsideShift", "NOutsideMore", "NExtra", "NExit"))
    # unbounded: the inductive invariant of Bracket.tla for every abscissa and every value whatsoever (TLAPS, 41 obligations)
    okp, nobl, outp = vf.tlaps("Bracket_Proof", ctx.work)
    if not okp:
        raise vf.EngineError("TLAPS did not prove spec/proofs/Bracket_Proof.tla:\n" + outp[-2000:])
    ctx.notes.append("TLAPS: all %d obligations of proofs/Bracket_Proof.tla proved (the bracketing phase keeps its invariant and returns a bracketing triple for every objective)" % nobl)
    # a second engine for the same inductive invariant: Apalache (symbolic, unbounded integers), base case and inductive step
    oka, outa = vf.apalache_inductive("Bracket_Ind", ctx.work)
    if oka == "refuted":
        raise vf.EngineError("Apalache refutes the inductive invariant of spec/apalache/Bracket_Ind.tla:\n" + outa[-2000:])
    if oka == "ok":
        ctx.notes.append("Apalache: Inv of apalache/Bracket_Ind.tla is inductive (BInit => Inv at length 0, InvInit /\\ BNext => Inv' at length 1; unbounded integers)")
    else:       # the TLAPS proof above already covers the same invariant; a second engine that does not start is not a failed check
        ctx.notes.append("Apalache did not run to completion here (%s); the invariant is covered by the TLAPS proof" % outa[-120:].replace("\n", " "))
    okq, nobq, outq = vf.tlaps("Brent_Proof", ctx.work)
    if not okq:
        raise vf.EngineError("TLAPS did not prove spec/proofs/Brent_Proof.tla:\n" + outq[-2000:])
    ctx.notes.append("TLAPS: all %d obligations of proofs/Brent_Proof.tla proved (Brent's bookkeeping keeps x in a never-growing bracket, x = the better of x and u, values ordered; for every position and value)" % nobq)
    for mode, module, marker, label in (("bracket", "Trace_Bracket", '"BStart"', "bracketing phase (hook Verif_Bracket)"),
                                        ("findmin", "Trace_FindMin", '"MStart"', "Find_Minimum/Find_Maximum, whole executions"),
                                        ("nmtrace", "Trace_NM", '"NStart"', "Minimization::minimize on arbitrary objectives, whole executions")):
        btrace = os.path.join(ctx.work, mode + ".ndjson")
        rc, o, err = vf.run_exe([exe, mode, str(ctx.seed), ctx.tier, btrace], timeout=1500)
        bd = [l for l in err.splitlines() if l.startswith("VERIF-DIED")]
        if bd or rc != 0:
            ctx.drift("%s: the recorder ended early (%s)" % (label, bd[0][:200] if bd else err[-200:]))
            continue
        bl = [l for l in open(btrace).read().splitlines() if l.strip()]
        # one TLC run over all executions; on rejection, report the execution and go on with the rest (at most 5 reports)
        groups, cur = [], []
        for l in bl:
            if marker in l and cur:
                groups.append(cur)
                cur = []
            cur.append(l)
        if cur:
            groups.append(cur)
        nrej, start = 0, 0
        while start < len(groups) and nrej < 5:
            part = os.path.join(ctx.work, "%s-%d.ndjson" % (mode, nrej))
            open(part, "w").write("\n".join(l for g in groups[start:] for l in g) + "\n")
            ok, consumed, total = ctx.validate(module, part)
            if ok:
                break
            pos, gi = 0, start
            for gi in range(start, len(groups)):
                if consumed < pos + len(groups[gi]):
                    break
                pos += len(groups[gi])
            g = groups[gi]
            ctx.drift("%s: execution %d (%s) is not a behaviour of spec/%s.tla: rejected at its event %d of %d: %s; evaluations so far %s" % (
                label, gi, g[0][:70], module, consumed - pos + 1, len(g), g[min(consumed - pos, len(g) - 1)][:120],
                " ".join(x[x.find('"f"'):].strip("{}") for x in g[1:min(consumed - pos + 1, 14)])))
            nrej += 1
            start = gi + 1
        ctx.cov["traces_validated_against_impl"] += len(groups) - nrej
        ctx.cov["trace_events"] += len(bl)
        ctx.notes.append("%s: %d recorded executions (%d evaluations) validated against spec/%s.tla, %d rejected" % (label, len(groups), sum(1 for l in bl if '"BEval"' in l or '"NEval"' in l), module, nrej))
    if not ctx.violations:
        import re as _re
        e = {"TRACE": trace}
        r = vf.tlc("Trace_Min", "Trace_Min_A.cfg", env=e, workers=1, metaroot=ctx.work, timeout=900)
        m = _re.search(r'<<\s*"REJECTED-EVENTS",\s*<<(.*?)>>\s*>>', r.out, _re.S)
        rej = [int(x) for x in _re.findall(r"\d+", m.group(1))] if m else None
        lines_all = open(trace).read().splitlines()
        if rej is None:
            ctx.drift("A-level validation of the minimiser traces did not run to the end")
        else:
            known_idx = set(i + 1 for i, l in enumerate(lines_all) if '"MinND"' in l and '"cls": "bowl"' in l.replace('"cls":"bowl"', '"cls": "bowl"'))
            extra = [i for i in rej if i not in known_idx]
            b1d = [i for i in extra if '"Min1D"' in lines_all[i - 1]]
            if b1d:
                ctx.drift("Find_Minimum does not return the best point it evaluated (or needs more than 250 evaluations) in %d recorded executions, e.g. %s" % (len(b1d), lines_all[b1d[0] - 1][:200]))
    # A-level: the real evaluation sequences are the model's (drift only)
    nm_bad = [json.loads(l) for l in open(trace) if '"NM"' in l and ('"seqok": false' in l or '"seqok":false' in l or '"retok":false' in l or '"nfuncok":false' in l)]
    if nm_bad:
        ctx.drift("Minimization::minimize evaluates other points than spec/NelderMead.tla on %d of %d exact model runs (first: %s)" % (len(nm_bad), n, json.dumps(nm_bad[0])[:200]))
    lines = open(trace).read().splitlines()
    ctx.sample({"trace_event": json.loads(lines[0])})
    ctx.sample({"trace_event": {k: v for k, v in json.loads(lines[-1]).items() if k != "par"}})
    ctx.count(len(lines), ["%d" % i for i in range(len(lines))])
    ctx.cov["exhaustive"] = True
    ctx.cov["rule"] = ("model: Nelder-Mead on 48 two-dimensional and 12 one-dimensional integer quadratics x integer starting simplices x 2 tolerances (exhaustive, exact): y is the objective, best value monotone, psum, nfunc, "
                       "best vertex first; replay: every model run through the real minimize (evaluation sequence compared exactly); traces: Find_Minimum/Find_Maximum on 6 families, minimize (3 overloads) on bowls of dimension 1..6 "
                       "(condition number to 1e4, steps 1e-3..1e3, ftol 1e-12..1e-3) and multimodal objectives")
