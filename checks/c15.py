"""C15 — QR factors and eigenpairs satisfy their defining equations."""
import json
import os

import vf


def run(ctx):
    ctx.assumptions += ["exact families: symmetric integer matrices assembled from 1x1 and [[a,b],[b,a]] blocks with an even integer spectrum (magnitude ratios 0.5..0.67, both signs), conjugated by a permutation; planted eigenpairs verified exactly by TLC",
                        "random symmetric matrices Q diag(lambda) Q^T with planted spectrum (ratios 0.1..0.8, either sign); QR inputs U diag(s) V^T with condition number up to 1e6 and integer matrices with zeros",
                        "tolerances: spectrum 1e-10 ||M||, residual 1e-11 ||M||, parallelism 1e-9 (the library's own convergence thresholds are 1e-12 and 1e-10); every request in a child process with a 4 s limit"]
    out = os.path.join(ctx.work, "eig.out")
    ctx.mc("MC_Eigen", "MC_Eigen.cfg", env={"OUT": out})
    vec = os.path.join(ctx.work, "vectors.ndjson")
    n = 0
    with open(vec, "w") as fh:
        for line in open(out):
            rec = vf.unescape_csv_json_line(line)
            fh.write(json.dumps(rec) + "\n")
            n += 1
            if n in (3, 400):
                ctx.sample({"replay_case": rec})
    ctx.cov["replayed_cases"] += n
    exe = ctx.harness("c15")
    trace = os.path.join(ctx.work, "trace.ndjson")
    rc, o, err = vf.run_exe([exe, "run", vec, str(ctx.seed), ctx.tier, trace], timeout=3300)
    if rc != 0:
        raise vf.EngineError("c15 rc=%s %s" % (rc, err[-1500:]))

    def key_of(execu, bad):
        if bad.get("e") == "QR":
            return "QR n=%d: %s" % (bad["n"], "did not return (%s)" % bad["how"] if not bad["returned"] else ("R not upper triangular" if not bad["triu"] else "Q not orthogonal / QR != M"))
        why = []
        if not bad["valret"]:
            why.append("Eigenvalues did not return (%s)" % bad["valhow"])
        elif not bad["cnt"] or bad["valq"] > 1 or bad["sumq"] > 1:
            why.append("spectrum")
        if not bad["sysret"]:
            why.append("Eigensystem did not return (%s)" % bad["syshow"])
        elif not bad["syscnt"] or bad["normq"] > 1 or bad["resq"] > 1 or bad["parq"] > 1 or bad.get("sysvalq", 0) > 1:
            why.append("eigenpairs")
        return "Eig %s n=%d: %s" % (bad["cls"], bad["n"], ", ".join(why))

    ctx.validate_collect("Trace_Eigen", trace, key_of, what_of=lambda ex, bad: "rejected by spec/Trace_Eigen.tla: %s" % json.dumps(bad)[:400])
    lines = open(trace).read().splitlines()
    ctx.sample({"trace_event": json.loads(lines[0])})
    ctx.sample({"trace_event": json.loads(lines[-1])})
    ctx.count(len(lines), ["%d" % i for i in range(len(lines))])
    ctx.cov["exhaustive"] = True
    ctx.cov["rule"] = ("model: every block pattern of sizes 1..7 x pool offset x 6 permutations: planted eigenpairs satisfy M v = lambda v exactly, trace, separation, orthogonality (exhaustive); "
                       "replay: exported matrices (every 5th in the quick tier, all diagonal ones) through Eigenvalues/Eigensystem; traces: + random symmetric matrices and QR of random non-singular matrices")
