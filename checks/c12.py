"""C12 — Gauss-Legendre rules are valid quadrature rules of every order on every interval."""
import json
import os

import vf


def run(ctx):
    ctx.assumptions += ["exactness is tested on the Legendre basis of the interval (every degree 1..2n-1, three-term recurrence in long double) and on shifted monomials up to degree 60; "
                        "a rule with n nodes that is exact to degree 2n-1 is the Gauss-Legendre rule, so nodes are not compared with tabulated roots",
                        "allowances: (512+4 sqrt n) eps L for the weight sum, (256+4n) eps L + 8n eps M for exactness residuals (L=|b-a|, M=max(|a|,|b|)); 256 eps reflects the "
                        "Newton tolerance 1e-14 of the implementation"]
    out = os.path.join(ctx.work, "mom.out")
    ctx.mc("MC_GL", "MC_GL_Fill.cfg")
    ctx.mc("MC_GL", "MC_GL_Map.cfg")
    ctx.mc("MC_GL", "MC_GL_Mom.cfg", env={"OUT": out})
    vec = os.path.join(ctx.work, "vectors.ndjson")
    seen = set()
    with open(vec, "w") as fh:
        for line in open(out):
            if line in seen:
                continue
            seen.add(line)
            fh.write(json.dumps(vf.unescape_csv_json_line(line)) + "\n")
    ctx.cov["replayed_cases"] += len(seen)
    exe = ctx.harness("c12")
    trace = os.path.join(ctx.work, "trace.ndjson")
    rc, o, err = vf.run_exe([exe, "record", str(ctx.seed), ctx.tier, trace, vec], timeout=3000)
    d = [l for l in err.splitlines() if l.startswith("VERIF-DIED")]
    if d:
        ctx.violation("died", "library terminated while computing a rule: " + d[0], {"stderr": err[-1500:]})
    elif rc != 0:
        raise vf.EngineError("c12 record rc=%s %s" % (rc, err[-1500:]))

    def key_of(execu, bad):
        e = bad.get("e")
        if e == "Rule":
            over = sorted(k for k, v in bad.items() if k.endswith("q") and isinstance(v, int) and not isinstance(v, bool) and v > 1)
            flags = sorted(k for k, v in bad.items() if v is False and k in ("fin", "mono", "inside", "wsign", "beyond", "width2"))
            par = "odd" if bad.get("n", 0) % 2 else "even"
            return "Rule %s n %s%s: %s" % (bad.get("cls"), par, " reversed" if bad.get("rev") else "", ",".join(over + flags) or "order/coverage")
        if e == "Moment":
            return "Moment deg<=2n-1 residual"
        if e == "Lengths":
            return "Lengths %s" % ("equal rejected" if bad.get("lv") == bad.get("lr") else "mismatch accepted or silent")
        return str(e)

    # a recorder that died leaves a truncated trace: the completeness invariant does not apply to it
    n_ok = ctx.validate_all("Trace_GL", trace, key_of, cfg="Trace_GL_rest.cfg" if d else None, group_start="__each__", max_rejections=10, rest_cfg="Trace_GL_rest.cfg",
                            what_of=lambda ex, bad: "rule rejected by spec/Trace_GL.tla: %s" % json.dumps(bad)[:400])
    lines = open(trace).read().splitlines()
    ctx.sample({"trace_event": json.loads(lines[2])})
    ctx.sample({"trace_event": json.loads(lines[-20])})
    ctx.count(len(lines), ["n%d%s" % (json.loads(l).get("n", 0), json.loads(l).get("cls", "")) for l in lines if '"Rule"' in l])
    ctx.cov["exhaustive"] = True
    ctx.cov["rule"] = ("model: slot-filling machine for every n<=512, affine-map laws on rational stand-in rules over all integer intervals in -3..3 (both orientations), exact moments; "
                       "traces: every order n=1..512 on [-1,1] (exhaustive) + random intervals (offset/width to 1e6, 40% reversed) + orders up to 4000; distinct = distinct (n, class)")
