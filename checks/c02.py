"""C02 — Find_Root returns a root of the bracketed function to the requested accuracy."""
import json
import os

import vf


def run(ctx):
    ctx.assumptions += ["functions are generated from continuous families (linear, power laws, monotone maps g(x)-g(r), products of simple roots, oscillating, "
                        "CDF-like, cubic, flat x^p-c, wide brackets, 1/x-1/r); the accuracy clause is witnessed by the function's own signs on the window "
                        "x+-accuracy (65 samples) or by the distance to a planted root",
                        "positions of the model are the ranks of the abscissae of one execution (ordered grid)"]
    quick = ctx.quick()
    # ---- model: the Ridder machine on a grid; the pinned stopping rule is refuted, the verified one proved
    consts = "CONSTANTS N = %d ACCS = {%s} RULE = \"%s\" MAXIT = 50"
    body = open(os.path.join(vf.SPEC, "MC_Ridder.cfg")).read().splitlines()[1:]
    cfg = os.path.join(ctx.work, "MC_Ridder.cfg")
    open(cfg, "w").write("\n".join([consts % (16 if quick else 24, "1, 2, 3" if quick else "1, 2, 3, 5", "verified")] + body) + "\n")
    ctx.mc("MC_Ridder", cfg, need_actions=("Start", "Mid", "NewPoint", "Eval4", "Check"), timeout=1800)
    cfg2 = os.path.join(ctx.work, "MC_Ridder_old.cfg")
    body2 = [l for l in body if "AccOK" not in l and "NoCap" not in l] + ["INVARIANT AccOK"]
    open(cfg2, "w").write("\n".join([consts % (12, "1, 2", "iterates")] + body2) + "\n")
    r = ctx.mc("MC_Ridder", cfg2, expect_ok=False)
    if r.inv_violated != "AccOK":
        raise vf.EngineError("expected TLC to refute AccOK for the successive-iterates stopping rule; got:\n" + r.out[-1500:])
    ctx.notes.append("TLC refutes AccOK for RULE=\"iterates\" (stopping on successive iterates can return a point with no sign change within the accuracy) "
                     "and proves it for RULE=\"verified\"; this is why the accuracy clause is decided on recorded executions of the real code")
    # ---- recorded executions
    exe = ctx.harness("c02")
    trace = os.path.join(ctx.work, "trace.ndjson")
    rc, out, err = vf.run_exe([exe, "record", str(ctx.seed), ctx.tier, trace], timeout=3000)
    if rc != 0:
        raise vf.EngineError("c02 record rc=%s %s" % (rc, err[-1500:]))

    def key_of(execu, bad):
        call = execu[0] if execu and execu[0].get("e") == "Call" else {}
        fam = call.get("fam", "?")
        e = bad.get("e")
        if e == "Died":
            return "%s: terminated on a bracket with a sign change (%s)" % (fam, bad.get("how"))
        if e == "Reject":
            return "reject %s: %s" % (bad.get("pat"), "returned" if bad.get("returned") else "no diagnostic/status")
        if e == "Eval":
            return "%s: evaluation outside the bracket" % fam if not bad.get("inb") else "%s: evaluation after a zero end" % fam
        if e == "Return":
            why = []
            if not bad.get("inb"):
                why.append("returned point outside the bracket")
            if not bad.get("same"):
                why.append("order of the ends changes the result")
            if call.get("sLo", 1) * call.get("sHi", 1) >= 0:
                why.append("zero end not returned as is")
            else:
                if not (bad.get("chg") or 0 <= bad.get("dq", -1) <= 1):
                    why.append("no sign change within the accuracy")
                if bad.get("linq", -1) > 1:
                    why.append("linear function not solved exactly")
            return "%s: %s" % (fam, "; ".join(why) or "return not allowed here")
        return "%s: %s" % (fam, e)

    # group = one execution (Call ... Return) or one Reject event
    n_ok = ctx.validate_all("Trace_Root", trace, key_of, group_start="Call", max_rejections=10,
                            what_of=lambda ex, bad: "Find_Root execution rejected by spec/Trace_Root.tla (family %s): %s" % (
                                (ex[0].get("fam") if ex else "?"), json.dumps(bad)[:300]))
    # A-level (algorithm structure): drift only
    if not ctx.violations:
        ok, consumed, total = ctx.validate("Trace_Root", trace, cfg="Trace_Root_A.cfg")
        if not ok:
            ctx.drift("recorded executions satisfy the property but do not follow the Ridder machine of spec/Ridder.tla (first deviation at event %d of %d)" % (consumed + 1, total))
    with open(trace) as fh:
        lines = fh.readlines()
    for i in (0, 1, 2):
        if i < len(lines):
            ctx.sample({"trace_event": json.loads(lines[i])})
    fams = set()
    for l in lines:
        if '"Call"' in l:
            fams.add(json.loads(l)["fam"])
    ctx.count(len(lines), ["%s#%d" % (f, i) for f in fams for i in range(1)])
    ctx.cov["distinct_nontrivial"] = sum(1 for l in lines if '"Return"' in l)
    ctx.cov["exhaustive"] = False
    ctx.cov["rule"] = ("model: Ridder machine on a grid of %d positions, every single root (zero or sign change), every triple of sign changes, brackets without sign change, "
                       "accuracies %s, every choice of x3 rounding and x4 (exhaustive); traces: %d recorded executions (each bracket in both orders) over %d function families "
                       "+ rejected brackets in child processes" % (17 if quick else 25, "1..3" if quick else "1,2,3,5", ctx.cov["distinct_nontrivial"], len(fams)))
