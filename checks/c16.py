"""C16 — rotations and spherical coordinates are geometrically correct for every axis."""
import json
import os

import vf


def run(ctx):
    ctx.assumptions += ["exact matrices: (cos, sin) from Pythagorean triples in all quadrants, unit axes from Pythagorean quadruples with all sign patterns; the angle is handed over as atan2(s, c) + 2 pi k, the axis with a random positive length",
                        "recorded relations use residual units 16-64 eps (rotations) and 1e-12 / 1e-11 (axis-relative spherical coordinates)"]
    out = os.path.join(ctx.work, "geo.out")
    ctx.mc("MC_Geometry", "MC_Geometry.cfg", env={"OUT": out})
    vec = os.path.join(ctx.work, "vectors.ndjson")
    n = 0
    with open(vec, "w") as fh:
        for line in open(out):
            rec = vf.unescape_csv_json_line(line)
            fh.write(json.dumps(rec) + "\n")
            n += 1
            if n == 5:
                ctx.sample({"replay_case": rec})
    ctx.cov["replayed_cases"] += n
    exe = ctx.harness("c16")
    trace = os.path.join(ctx.work, "trace.ndjson")
    rc, o, err = vf.run_exe([exe, "run", vec, str(ctx.seed), ctx.tier, trace], timeout=3000)
    d = [l for l in err.splitlines() if l.startswith("VERIF-DIED")]
    if d:
        ctx.violation("died " + d[0].split("intent=")[-1][:50], "library terminated on a meaningful geometric request: " + d[0], {"stderr": err[-1500:]})
    elif rc != 0:
        raise vf.EngineError("c16 rc=%s %s" % (rc, err[-1500:]))

    def key_of(execu, bad):
        if bad.get("e") == "Rot":
            return "Rot: exact Rodrigues matrix"
        return "Obs %s axis class %s%s" % (bad.get("kind"), bad.get("cls"), "" if bad.get("fin") else " (not finite)")

    # (a recorder that died leaves a truncated trace: the coverage invariant does not apply to it)
    ctx.validate_all("Trace_Geometry", trace, key_of, cfg="Trace_Geometry_rest.cfg" if d else None, group_start="__each__", max_rejections=12, rest_cfg="Trace_Geometry_rest.cfg",
                     what_of=lambda ex, bad: "rejected by spec/Trace_Geometry.tla: %s" % json.dumps(bad)[:300])
    # ---- beyond the listed properties: Angle, Normalize, Normalized (note level)
    atrace = os.path.join(ctx.work, "aux.ndjson")
    rc, o, err = vf.run_exe([exe, "aux", str(ctx.seed), ctx.tier, atrace], timeout=1500)
    if rc != 0 or any(l.startswith("VERIF-DIED") for l in err.splitlines()):
        ctx.drift("Angle/Normalize (no listed property): the recorder ended early: %s" % err[-300:])
    else:
        ok, consumed, total = ctx.validate("Trace_Geometry", atrace, cfg="Trace_Geometry_rest.cfg")
        if not ok:
            al = open(atrace).read().splitlines()
            ctx.drift("Angle/Normalize/Normalized (no listed property; spec/Trace_Geometry.tla TAux): event %d of %d rejected: %s" % (consumed + 1, total, al[min(consumed, len(al) - 1)][:250]))
        else:
            ctx.cov["trace_events"] += total
    lines = open(trace).read().splitlines()
    ctx.sample({"trace_event": json.loads(lines[0])})
    ctx.sample({"trace_event": json.loads(lines[-1])})
    ctx.count(len(lines), ["%d" % i for i in range(len(lines))])
    ctx.cov["exhaustive"] = True
    ctx.cov["rule"] = ("model: 28 rational angles x 54 rational unit axes x 3 second angles x 3 vectors: proper orthogonality, fixed axis, composition, right-handed turning (exhaustive, exact); "
                       "replay: each exact matrix; traces: random angles in [-4pi,4pi], axes on the sphere / coordinate directions / within 1e-12..1e-6 of +-z / exactly +-z, lengths 1e-6..1e6")
