"""C18 — samplers are reproducible from the generator state and draw from the stated law."""
import json
import os

import vf


def run(ctx):
    ctx.assumptions += ["generator states and outputs are compared through 64-bit FNV digests of the streamed std::mt19937 state / of the IEEE bit patterns of the outputs",
                        "law clauses: Kolmogorov-Smirnov / chi-square p-values computed by the recorder (boost::math for the Poisson masses and the chi-square tail), fixed seeds, threshold 1e-9; "
                        "Metropolis samples are thinned by 30 so that they are nearly independent"]
    cfg = os.path.join(ctx.work, "MC_Samplers.cfg")
    open(cfg, "w").write(open(os.path.join(vf.SPEC, "MC_Samplers.cfg")).read().replace("GMAX = 40", "GMAX = 40" if ctx.quick() else "GMAX = 90"))
    ctx.mc("MC_Samplers", cfg)
    exe = ctx.harness("c18")
    trace = os.path.join(ctx.work, "trace.ndjson")
    rc, o, err = vf.run_exe([exe, "record", str(ctx.seed), ctx.tier, trace], timeout=3300)
    d = [l for l in err.splitlines() if l.startswith("VERIF-DIED")]
    if d:
        ctx.violation("died " + d[0].split("intent=")[-1][:40], "library terminated while sampling (meaningful request): " + d[0], {"stderr": err[-1500:]})
    elif rc != 0:
        raise vf.EngineError("c18 rc=%s %s" % (rc, err[-1500:]))

    def key_of(execu, bad):
        e = bad.get("e")
        if e == "Sample":
            why = []
            if bad["n"] != bad["nreq"]:
                why.append("wrong number of samples")
            if not bad["insup"]:
                why.append("sample outside the support/domain")
            if bad["after"] == bad["before"]:
                why.append("generator passed was not used")
            return "Sample %s: %s" % (bad["fn"], ", ".join(why) or "not a function of (parameters, generator state)")
        if e == "Count":
            return "Count: number of Metropolis samples / domain for some (sample, thinning, burn-in)"
        if e == "Law":
            return "Law %s: goodness of fit below 1e-9" % bad["fn"]
        return str(e)

    ctx.validate_all("Trace_Samplers", trace, key_of, group_start="__never__", max_rejections=1,
                     what_of=lambda ex, bad: "rejected by spec/Trace_Samplers.tla: %s" % json.dumps(bad)[:300])
    lines = open(trace).read().splitlines()
    ctx.sample({"trace_event": json.loads(lines[0])})
    ctx.sample({"trace_event": json.loads(lines[-1])})
    ctx.count(len(lines), [l[:120] for l in lines if '"Sample"' in l][:5000])
    ctx.cov["exhaustive"] = True
    ctx.cov["rule"] = ("model: burn-in/thinning bookkeeping for every (sample, thinning>=1, burn-in) in 0..%d (exhaustive); traces: interleaved sampler calls on one generator, each repeated on a copy of "
                       "the generator (immediately or after other samplers), the (sample,thinning,burn-in) grid 0..%d^3 + sparse to 200, goodness-of-fit of 15 large samples" % (40 if ctx.quick() else 90, 8 if ctx.quick() else 12))
