"""C03 — adaptive Simpson integration meets its error request and is exact on quintics."""
import json
import os

import vf


def run(ctx):
    ctx.assumptions += ["exact integrals of the generated families are closed forms evaluated in long double (planted truth, not a reference integrator)",
                        "rounding allowance 64 (depth+4) eps (b-a) max|f|"]
    cfg = os.path.join(ctx.work, "MC_Simpson.cfg")
    open(cfg, "w").write(open(os.path.join(vf.SPEC, "MC_Simpson.cfg")).read().replace("DMAX = 3", "DMAX = 3" if ctx.quick() else "DMAX = 4"))
    ctx.mc("MC_Simpson", cfg, timeout=1500, heap="16g")
    ctx.mc("MC_SimpsonPanel")
    exe = ctx.harness("c03")
    trace = os.path.join(ctx.work, "trace.ndjson")
    rc, out, err = vf.run_exe([exe, "record", str(ctx.seed), ctx.tier, trace], timeout=3000)
    d = [l for l in err.splitlines() if l.startswith("VERIF-DIED")]
    if d:
        ctx.violation("died " + d[0].split("intent=")[-1][:60], "library terminated on a meaningful request: " + d[0], {"stderr": err[-1500:]})
    elif rc != 0:
        raise vf.EngineError("c03 record rc=%s %s" % (rc, err[-1500:]))
    else:
        info = json.loads(out.strip().splitlines()[-1])
        ctx.cov["abandoned_executions"] = info["abandoned"]
        if info["abandoned"] > 0.05 * info["executions"]:
            ctx.notes.append("%d of %d executions abandoned on the evaluation budget (3e6 evaluations)" % (info["abandoned"], info["executions"]))

    def key_of(execu, bad):
        if bad["e"] == "Panel":
            return "panel " + ("outside interval" if not bad.get("inb") else "not a pending frame / beyond depth")
        if bad["e"] == "Return":
            bits = [k for k in ("swapneg", "epssame", "allinb") if not bad.get(k)]
            if bad.get("errq", 0) > 1:
                bits.append("error-%s" % bad.get("cls"))
            return "return " + (" ".join(bits) if bits else "count/closure/warning")
        return str(bad["e"])

    with open(trace) as fh:
        for i, line in enumerate(fh):
            if i in (0, 1, 2):
                ctx.sample({"trace_event": json.loads(line)})
    ctx.validate_all("Trace_Simpson", trace, key_of, group_start="Call", max_rejections=4,
                     what_of=lambda ex, bad: "Integrate execution rejected by Trace_Simpson at %s; call %s; return %s" % (
                         json.dumps(bad), json.dumps(ex[0]), json.dumps(ex[-1])[:300]))
    # A-level (structure of the recursion: order of the evaluations, pending frames, closure): drift only
    if not ctx.violations:
        ok, consumed, total = ctx.validate("Trace_Simpson", trace, cfg="Trace_Simpson_A.cfg")
        if not ok:
            al = open(trace).read().splitlines()
            ctx.drift("recorded executions satisfy the property but do not follow the frame machine of spec/Simpson.tla (first deviation at event %d of %d: %s)" % (consumed + 1, total, al[min(consumed, len(al) - 1)][:160]))
    ctx.count(ctx.cov["trace_events"])
    ctx.cov["rule"] = ("model: every adaptive bisection tree for depth limits 0..3 (thorough 0..4) with the environment choosing accept/recurse; exact panel identity for "
                       "monomials x^0..x^6 on 10 panels; traces: one execution per Integrate call on polynomials (deg<=5), estimator-regular families and arbitrary integrands")
