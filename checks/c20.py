"""C20 — exported data read back unchanged; units convert consistently in every build."""
import json
import os
import struct
import sys

import vf

sys.path.insert(0, os.path.join(vf.VERIF, "lib"))
import units_parse  # noqa: E402

BUILDS = [("g++", "-O0"), ("g++", "-O2"), ("clang++", "-O0"), ("clang++", "-O2")]


def ordered(bits_hex):
    i = int(bits_hex, 16)
    return -(i & 0x7FFFFFFFFFFFFFFF) if i >> 63 else i


def run(ctx):
    ctx.assumptions += ["unit definitions are parsed from src/Natural_Units.cpp by lib/units_parse.py (products, quotients, decimal literals, pow(expr, integer)); M_PI, sqrt and non-integer powers are opaque to the exact algebra",
                        "static initialisation rule: an initialiser without function call whose operands are all defined earlier and static is folded by the compiler; confirmed by four builds (g++/clang++ x -O0/-O2)",
                        "six significant digits: relative error <= 5e-6 (+ rounding); values are generated so that value/unit stays a normal double"]
    # ---- models
    ctx.mc("MC_ExportImport", "MC_ExportImport.cfg" if ctx.quick() else "MC_ExportImport.cfg")
    defs = os.path.join(ctx.work, "defs.ndjson")
    src = os.path.join(vf.REPO, "src", "Natural_Units.cpp")
    try:
        parsed = units_parse.parse(src)
    except Exception as ex:     # the grammar is deliberately small: a definition outside it cannot be decided
        raise vf.EngineError("cannot parse unit definitions: %s" % ex)
    with open(defs, "w") as fh:
        for d in parsed:
            fh.write(json.dumps(d) + "\n")
    r = ctx.mc("UnitsInit", "UnitsInit.cfg", env={"DEFS": defs}, workers=4, expect_ok=False)
    if not r.ok:
        inv = r.inv_violated
        m = None
        import re
        m = re.search(r"The invariant of (\w+) is equal to FALSE", r.out)
        which = inv or (m.group(1) if m else None)
        if which in ("InitOrderSafe", "UnitsExact", "DimsRight", "AllDefined", "NonZero"):
            what = {"InitOrderSafe": "a dynamically initialised unit constant reads another dynamically initialised constant that is defined later in the translation unit (its value depends on the build)",
                    "UnitsExact": "a derived unit constant does not equal its SI definition (exact decimal algebra over the parsed definitions)",
                    "DimsRight": "a constant has the wrong mass dimension (power of GeV)",
                    "AllDefined": "a unit definition reads a name that is not defined in Natural_Units.cpp",
                    "NonZero": "a unit definition has a zero literal"}[which]
            ctx.violation("units source: " + which, what + " [spec/UnitsInit.tla, invariant %s]" % which, {"tlc": r.out[-2500:]})
        else:
            raise vf.EngineError("UnitsInit did not run cleanly:\n" + r.out[-2500:])
    # ---- recorded round trips and In_Units
    exe = ctx.harness("c20")
    trace = os.path.join(ctx.work, "trace.ndjson")
    scratch = os.path.join(ctx.work, "files")
    os.makedirs(scratch, exist_ok=True)
    rc, o, err = vf.run_exe([exe, "record", str(ctx.seed), ctx.tier, trace, scratch], timeout=3000)
    d = [l for l in err.splitlines() if l.startswith("VERIF-DIED")]
    if d:
        ctx.violation("died " + d[0].split("intent=")[-1][:40], "library terminated during a meaningful export/import/In_Units request: " + d[0], {"stderr": err[-1500:]})
    elif rc != 0:
        raise vf.EngineError("c20 rc=%s %s" % (rc, err[-1500:]))
    # ---- the unit constants in four builds
    L = ctx.lib()
    outs = []
    for cxx, opt in BUILDS:
        obj = os.path.join(ctx.work, "nu_%s%s.o" % (cxx, opt))
        binp = os.path.join(ctx.work, "up_%s%s" % (cxx, opt))
        r1 = vf.sh([cxx, "-std=c++14", opt, "-w", "-I", os.path.join(vf.REPO, "include"), "-I", L["dir"], "-c", src, "-o", obj])
        r2 = vf.sh([cxx, "-std=c++14", opt, "-w", "-I", os.path.join(vf.REPO, "include"), "-I", L["dir"], os.path.join(vf.HARNESS, "units_print.cpp"), obj, L["lib"], "-lconfig++", "-o", binp]) if r1.returncode == 0 else r1
        if r1.returncode or r2.returncode:
            raise vf.EngineError("units printer does not build with %s %s:\n%s" % (cxx, opt, (r1.stdout + r2.stdout)[-2000:]))
        rc, o, err = vf.run_exe([binp], timeout=60)
        if rc != 0:
            raise vf.EngineError("units printer failed (%s %s): %s" % (cxx, opt, err[-500:]))
        outs.append({l.split()[0]: l.split()[1:] for l in o.splitlines() if l.strip()})
    with open(trace, "a") as fh:
        for name in outs[0]:
            v, dfn = outs[0][name]
            val = struct.unpack(">d", bytes.fromhex(v))[0]
            same = all(b.get(name) == outs[0][name] for b in outs)
            fh.write(json.dumps({"e": "Unit", "name": name, "nonzero": val != 0.0 and val == val, "ulp": min(abs(ordered(v) - ordered(dfn)), 1 << 30), "samebits": same,
                                 "builds": len(outs)}) + "\n")

    def key_of(execu, bad):
        e = bad.get("e")
        if e == "Unit":
            return "Unit %s: %s" % (bad["name"], "zero/NaN" if not bad["nonzero"] else ("differs between builds" if not bad["samebits"] else "differs from its defining product"))
        if e == "Import":
            return "Import: %s" % ("shape" if execu and (bad["rows"] != execu[0].get("rows") or bad["cols"] != execu[0].get("cols")) else "value beyond six significant digits")
        if e == "Export":
            return "Export %s: lines on disk" % bad.get("kind")
        if e == "InUnits":
            return "InUnits: %s" % ("overloads disagree" if not bad["same"] else ("rounding" if not bad["roundok"] else "does not undo the multiplication"))
        return str(e)

    ctx.validate_all("Trace_Files", trace, key_of, group_start="Export", max_rejections=10,
                     what_of=lambda ex, bad: "rejected by spec/Trace_Files.tla: %s (export: %s)" % (json.dumps(bad)[:300], json.dumps(ex[0])[:200] if ex else ""))
    # ---- beyond the listed properties: Save_Function of the interpolation classes as exporters of the same file machine (note level)
    strace = os.path.join(ctx.work, "saved.ndjson")
    rc, o, err = vf.run_exe([exe, "saved", str(ctx.seed), ctx.tier, strace, scratch], timeout=1500)
    if rc != 0 or any(l.startswith("VERIF-DIED") for l in err.splitlines()):
        ctx.drift("Save_Function (no listed property): the recorder ended early: %s" % err[-300:])
    else:
        ok, consumed, total = ctx.validate("Trace_Files", strace)
        if not ok:
            sl = open(strace).read().splitlines()
            ctx.drift("Save_Function (no listed property; spec/ExportImport.tla SavedRows/SavedOK): event %d of %d rejected: %s (after %s)" % (consumed + 1, total, sl[min(consumed, len(sl) - 1)][:200], sl[max(consumed - 1, 0)][:120]))
        else:
            ctx.cov["trace_events"] += total
            ctx.cov["traces_validated_against_impl"] += total // 2
    lines = open(trace).read().splitlines()
    ctx.sample({"trace_event": json.loads(lines[0])})
    ctx.sample({"trace_event": json.loads(lines[1])})
    ctx.sample({"trace_event": json.loads(lines[-1])})
    ctx.count(len(lines), ["%d" % i for i in range(len(lines))])
    ctx.cov["exhaustive"] = True
    ctx.cov["rule"] = ("model: file machine for rows 1..5 x columns 1..4 x header lines 0..3 (exhaustive); initialisation order and exact unit algebra over all %d parsed definitions; "
                       "traces: %d recorded export/import round trips (tables, lists, functions; 1..200 rows, 1..12 columns, 0..3 header lines, per-column units over 60 decades), In_Units overloads, "
                       "%d unit constants in 4 builds" % (len(parsed), sum(1 for l in lines if '"Export"' in l), len(outs[0])))
