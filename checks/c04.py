"""C04 — vector and matrix algebra obeys the algebraic laws for every conformable shape."""
import json
import os

import shape_machine
import vf


def key_of(execu, bad):
    e = bad.get("e")
    if e == "Op":
        state = "returned" if bad.get("ret") else ("memory-error" if bad.get("mem") else "exited")
        return "%s/%s %s" % (bad.get("op"), bad.get("sp"), state)
    if e == "Idx":
        return "Idx %s" % bad.get("op")
    if e == "Block":
        return "Block constructor %s" % ("returned" if bad.get("ret") else "exited")
    if e == "BlockG":
        return "Block grid constructor %s" % ("returned" if bad.get("ret") else "exited")
    if e == "Corner":
        return "scalar %s by %s" % (bad.get("op"), "a non-finite quotient" if not bad.get("fin") else "more than 2 ulp")
    return str(e)


def shape(x):
    if isinstance(x, list) and x and isinstance(x[0], list):
        return "%dx%d" % (len(x), len(x[0]))
    if isinstance(x, list):
        return "vec%d" % len(x)
    return str(x)


def what_of(execu, bad):
    if bad.get("e") == "Corner":
        return "scalar division by %s: %s (every spelling must give entry/s to 2 ulp, finite where the quotient is finite); event %s" % (
            bad.get("scalar"), "non-finite or NaN result" if not bad.get("fin") else "%s ulp off" % bad.get("ulps"), json.dumps(bad)[:200])
    if bad.get("e") == "BlockG":
        return "block constructor on a %dx%d grid of blocks: %s; event %s" % (len(bad.get("G", [])), len(bad.get("G", [[]])[0]),
            "returned although the partition is inconsistent, or returned another matrix than the definition" if bad.get("ret") else "terminated although the partition is consistent (or without diagnostic)", json.dumps(bad)[:300])
    if bad.get("e") == "Block":
        return "block constructor on blocks %s | %s / %s | %s: %s; event %s" % (
            shape(bad.get("A")), shape(bad.get("B")), shape(bad.get("C")), shape(bad.get("D")),
            "returned although the partition is inconsistent, or returned another matrix than the definition" if bad.get("ret") else "terminated although the partition is consistent (or without diagnostic)", json.dumps(bad)[:200])
    return "%s (%s) on shapes %s, %s: %s; event %s" % (
        bad.get("op"), bad.get("sp"), shape(bad.get("A")), shape(bad.get("B")),
        "returned a result that differs from the definition, or returned for non-conformable operands" if bad.get("ret")
        else ("memory error / signal" if bad.get("mem") else "terminated although the request is defined (or without diagnostic)"),
        json.dumps(bad)[:500])


def run(ctx):
    ctx.assumptions += ["operands are small integers times powers of two, for which every result entry is exact in IEEE double",
                        "Norm() is checked through round(Norm()^2)"]
    cfg = os.path.join(ctx.work, "MC_LinAlg.cfg")
    open(cfg, "w").write(open(os.path.join(vf.SPEC, "MC_LinAlg.cfg")).read().replace("MAXD = 4 SALTS = 6", "MAXD = 4 SALTS = 6" if ctx.quick() else "MAXD = 5 SALTS = 12"))
    ctx.mc("MC_LinAlg", cfg)
    exe = ctx.harness("c04")
    trace = os.path.join(ctx.work, "trace.ndjson")
    rc, out, err = vf.run_exe([exe, "record", str(ctx.seed), ctx.tier, trace], timeout=2400)
    if rc != 0:
        raise vf.EngineError("c04 record rc=%s %s" % (rc, err[-1500:]))
    with open(trace) as fh:
        for i, line in enumerate(fh):
            if i in (0, 7, 400, 3000):
                ctx.sample({"trace_event": json.loads(line)})
    ctx.validate_all("Trace_LinAlg", trace, key_of, group_start="__each__", what_of=what_of, max_rejections=12)
    ops = set()
    for line in open(trace):
        ev = json.loads(line)
        ops.add((ev.get("op", ev["e"]), ev.get("sp", ""), shape(ev.get("A")), shape(ev.get("B"))))
    # operands with a history: the representation invariant (components.size()==rows, every row has columns entries) and the
    # definitions of Transpose / Sub_Matrix / Return_Row/Column / M*v / v*M hold after every sequence of size-changing calls (spec/Shape.tla)
    shape_rule, shape_events = shape_machine.run(ctx, probes=True, variants=["gcc"])
    ctx.count(ctx.cov["trace_events"], ops)
    ctx.cov["rule"] = ("objects with a history: " + shape_rule + " of spec/Shape.tla replayed in the real objects (%d events); " % shape_events +
                       "one event per (operation, spelling, operands); every shape triple (m,n,k)<=5 exhaustively, random up to 8, all pairings of "
                       "shapes <=3 (quick) / <=4 (thorough) for definedness; distinct = distinct (operation, spelling, operand shapes)")
