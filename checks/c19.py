"""C19 — partition, grid, search, list and summary-statistics helpers."""
import json
import os

import vf

CONST_Q = "CONSTANTS WMAX = 128 TMAX = 1024 RLIM = 12 SMAX = 13 LMAX = 5 VMAX = 4 DLEN = 5 DHI = 2 RNDLEN = 200"
CONST_T = "CONSTANTS WMAX = 128 TMAX = 1024 RLIM = 24 SMAX = 25 LMAX = 6 VMAX = 4 DLEN = 6 DHI = 2 RNDLEN = 200"
MACHINES = {
    "WD": ("WD_Init", "WD_Next", ["WD_Refines"]),
    "Range": ("Range_Init", "Range_Next", ["Range_OK", "Range_Export"]),
    "Closest": ("Cl_Init", "Cl_Next", ["Cl_Refines", "Cl_Export"]),
    "Lists": ("Li_Init", "Li_Next", ["Li_Laws", "Li_Export"]),
    "Stats": ("St_Init", "St_Next", ["St_Laws", "St_Export"]),
}


def died(err):
    d = [l for l in err.splitlines() if l.startswith("VERIF-DIED")]
    return d[0] if d else None


def run(ctx):
    ctx.assumptions += ["replayed expectations are exact rationals computed by TLC from spec/Helpers.tla; doubles are compared within a few ulps of the data scale",
                        "integer-valued test data are exact in IEEE double"]
    # unbounded, on the model side: TLAPS proves the index formula of Workload_Distribution (WDCore!WDIndex, which Helpers!WD_A uses)
    # correct for EVERY (workers, tasks); TLC below checks the same formula against WD_S for all workers <= 128, tasks <= 1024
    ok, nobl, out = vf.tlaps("WD_Proof", ctx.work)
    if not ok:
        raise vf.EngineError("TLAPS did not prove spec/proofs/WD_Proof.tla:\n" + out[-2000:])
    ctx.notes.append("TLAPS: all %d obligations of proofs/WD_Proof.tla proved (Workload_Distribution's index formula for every workers >= 1 and tasks >= 0)" % nobl)
    exe = ctx.harness("c19")
    vec = os.path.join(ctx.work, "vectors.ndjson")
    seen = set()
    nvec = 0
    with open(vec, "w") as fh:
        for name, (init, nxt, invs) in MACHINES.items():
            cfg = os.path.join(ctx.work, "MC_Helpers_%s.cfg" % name)
            open(cfg, "w").write("\n".join([CONST_Q if ctx.quick() else CONST_T, "INIT " + init, "NEXT " + nxt] +
                                           ["INVARIANT " + i for i in invs] + ["CHECK_DEADLOCK FALSE", ""]))
            out = os.path.join(ctx.work, "h_%s.out" % name)
            ctx.mc("MC_Helpers", cfg, env={"OUT": out})
            if os.path.exists(out):
                for line in open(out):
                    if line in seen:
                        continue
                    seen.add(line)
                    rec = vf.unescape_csv_json_line(line)
                    fh.write(json.dumps(rec) + "\n")
                    nvec += 1
                    if nvec % 3001 == 7:
                        ctx.sample({"replay_case": rec})
        # beyond the listed properties: Time_Display against spec/TimeDisplay.tla (laws of the mixed-radix decomposition checked by TLC on the
        # boundary lattice; cases exported; disagreements of the library are reported as a note)
        out = os.path.join(ctx.work, "h_time.out")
        ctx.mc("MC_TimeDisplay", "MC_TimeDisplay.cfg", env={"OUT": out}, workers=4)
        for line in open(out):
            fh.write(json.dumps(vf.unescape_csv_json_line(line)) + "\n")
            nvec += 1
    # ---- replay (deterministic helpers) + S-observations of the replayed Closest cases
    rtrace = os.path.join(ctx.work, "replay_trace.ndjson")
    rc, out, err = vf.run_exe([exe, "replay", vec, rtrace], timeout=1200)
    if died(err):
        ctx.violation("died " + died(err).split("intent=")[-1].split(" ")[0], "library terminated on a meaningful helper request: " + died(err), {"stderr": err[-1500:]})
    elif rc != 0:
        raise vf.EngineError("c19 replay rc=%s %s" % (rc, err[-1500:]))
    else:
        res = json.loads(out.strip().splitlines()[-1])
        ctx.cov["replayed_cases"] += res["cases"]
        ctx.count(res["cases"], ["V%d" % i for i in range(nvec)])
        for f in res["fails"]:
            ctx.violation("replay " + f["key"], "%s disagrees with its element-wise definition (spec/Helpers.tla): %s" % (f["key"], json.dumps(f["detail"])[:400]), f)
        if res.get("tdrift"):
            ctx.drift("Time_Display (no listed property; spec/TimeDisplay.tla): the displayed fields differ from the exact mixed-radix decomposition in %d of the exported cases, e.g. %s" % (res["tdrift"], json.dumps(res["tdrifts"][:3])))
        if res.get("wdrift"):
            ctx.drift("Weighted_Average: the squared standard error for unequal weights differs from the ratio-estimator form of spec/Helpers.tla (WSE2) in %d cases, e.g. %s" % (res["wdrift"], json.dumps(res["wdrifts"][:2])))
        if res["drift"]:
            ctx.drift("Locate_Closest_Location picks another (equally near) element than the upper_bound model in %d cases, e.g. %s" % (res["drift"], json.dumps(res["drifts"][:2])))
    # ---- recorded observations
    trace = os.path.join(ctx.work, "trace.ndjson")
    rc, out, err = vf.run_exe([exe, "record", str(ctx.seed), ctx.tier, trace], timeout=1500)
    if died(err):
        ctx.violation("died " + died(err).split("intent=")[-1].split(" ")[0], "library terminated on a meaningful helper request: " + died(err), {"stderr": err[-1500:]})
    elif rc != 0:
        raise vf.EngineError("c19 record rc=%s %s" % (rc, err[-1500:]))

    def key_of(execu, bad):
        e = bad.get("e")
        if e == "Space":
            return "trace Space %s" % bad.get("kind")
        if e == "Rel":
            return "trace Rel %s" % bad.get("kind")
        return "trace " + str(e)

    for tr in (rtrace, trace):
        if os.path.exists(tr) and os.path.getsize(tr):
            with open(tr) as fh:
                ctx.sample({"trace_event": json.loads(fh.readline())})
            ctx.validate_all("Trace_Helpers", tr, key_of, group_start="__each__",
                             what_of=lambda ex, bad: "helper result rejected by spec/Trace_Helpers.tla: %s" % json.dumps(bad)[:400])
    ctx.count(ctx.cov["trace_events"])
    ctx.cov["rule"] = ("model: full 128x1024 workload grid (A=>S), Range grid, all sorted lists x targets, list templates and exact statistics over "
                       "small alphabets (exhaustive) + one 200-long pseudo-random data set; replay: one case per exported state (distinct = distinct exported lines); "
                       "traces: one event per recorded helper call")
    ctx.cov["exhaustive"] = True
