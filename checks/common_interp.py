"""Shared driver code for C01 / C08 (harness/interp.cpp)."""
import json
import os

import vf


def died(err):
    d = [l for l in err.splitlines() if l.startswith("VERIF-DIED")]
    return d[0] if d else None


def export_vectors(ctx, module, cfg_text, name):
    cfg = os.path.join(ctx.work, name + ".cfg")
    open(cfg, "w").write(cfg_text)
    out = os.path.join(ctx.work, name + ".out")
    ctx.mc(module, cfg, env={"OUT": out})
    vec = os.path.join(ctx.work, name + ".ndjson")
    seen = set()
    n = 0
    with open(vec, "w") as fh:
        if os.path.exists(out):
            for line in open(out):
                if line in seen:
                    continue
                seen.add(line)
                rec = vf.unescape_csv_json_line(line)
                fh.write(json.dumps(rec) + "\n")
                n += 1
                if n in (3, 2001):
                    ctx.sample({"replay_case": {k: rec[k] for k in list(rec)[:4]}})
    return vec, n


def run_replay(ctx, exe, mode, vec, nvec, s_filter=None, drift_note=True):
    rc, out, err = vf.run_exe([exe, mode, vec], timeout=2400)
    if died(err):
        ctx.violation("died " + died(err).split("intent=")[-1][:60], "library terminated while replaying a lattice case: " + died(err), {"stderr": err[-1500:]})
        return
    if rc != 0:
        raise vf.EngineError("interp %s rc=%s %s" % (mode, rc, err[-1500:]))
    res = json.loads(out.strip().splitlines()[-1])
    ctx.cov["replayed_cases"] += res["cases"]
    ctx.count(res.get("checks", res["cases"]), ["%s%d" % (mode, i) for i in range(nvec)])
    for f in res["fails"]:
        if s_filter and not s_filter(f["key"]):
            continue
        ctx.violation("replay " + f["key"], "%s: real code disagrees with the exact specification value: %s" % (f["key"], json.dumps(f["detail"])[:500]), f)
    if res.get("drift") and drift_note:
        ctx.drift("%d values differ from the exact Steffen model although the property-level clauses hold, e.g. %s" % (
            res["drift"], json.dumps(res["drifts"][:1])[:400]))
    return res


def run_record(ctx, exe, mode, trace_module, key_fields):
    trace = os.path.join(ctx.work, mode + ".ndjson")
    rc, out, err = vf.run_exe([exe, mode, str(ctx.seed), ctx.tier, trace], timeout=2400)
    if died(err):
        ctx.violation("died " + died(err).split("intent=")[-1][:60], "library terminated on a meaningful request while recording: " + died(err), {"stderr": err[-1500:]})
    elif rc != 0:
        raise vf.EngineError("interp %s rc=%s %s" % (mode, rc, err[-1500:]))
    if not os.path.exists(trace) or os.path.getsize(trace) == 0:
        return

    def key_of(execu, bad):
        bits = [str(bad.get("e"))]
        for k in key_fields.get(bad.get("e"), []):
            v = bad.get(k)
            if isinstance(v, bool):
                if not v:
                    bits.append("!" + k)
            elif isinstance(v, int) and v > (1 if k.endswith("q") or k in ("kr", "dq1", "dq2", "dq3", "q") else 0):
                bits.append(k)
        if bad.get("sg") == 2:
            bits.append("prefactor-scaling")
        return " ".join(bits)

    def what_of(execu, bad):
        return "observation rejected by spec/%s.tla: %s (table: %s)" % (trace_module, json.dumps(bad), json.dumps(execu[0]))

    with open(trace) as fh:
        for i, line in enumerate(fh):
            if i in (1, 40):
                ctx.sample({"trace_event": json.loads(line)})
    ctx.validate_all(trace_module, trace, key_of, what_of=what_of)
    ctx.count(ctx.cov["trace_events"])
