"""C17 — scalar special functions and vector spherical harmonics match their definitions."""
import json
import os

import vf


def run(ctx):
    ctx.assumptions += ["Dawson's integral is referred to its defining integral int_0^x exp(t^2-x^2) dt evaluated by a composite 16-point Gauss rule in long double (positive integrand, no cancellation); libm erf is trusted for the Inv_Erf clause",
                        "Round on decimal inputs m*10^e (ties excluded: their direction depends on the binary expansion) over e = -300..290; arbitrary doubles through relations",
                        "Psi = r grad Y_lm is checked by central differences of the library's own Spherical_Harmonics (step 1e-5, allowance 1e-8 (l+1)^3 / sin^2 theta)"]
    vec = os.path.join(ctx.work, "vectors.ndjson")
    n = 0
    with open(vec, "w") as fh:
        for name in ("Round", "Table", "VSH"):
            out = os.path.join(ctx.work, "sc_%s.out" % name)
            ctx.mc("MC_Scalars", "MC_Scalars_%s.cfg" % name, env={"OUT": out}, workers=8)
            for line in open(out):
                rec = vf.unescape_csv_json_line(line)
                fh.write(json.dumps(rec) + "\n")
                n += 1
                if n % 700 == 5:
                    ctx.sample({"replay_case": rec})
    ctx.cov["replayed_cases"] += n
    exe = ctx.harness("c17")
    trace = os.path.join(ctx.work, "trace.ndjson")
    rc, o, err = vf.run_exe([exe, "run", vec, str(ctx.seed), ctx.tier, trace], timeout=3000)
    d = [l for l in err.splitlines() if l.startswith("VERIF-DIED")]
    if d:
        ctx.violation("died " + d[0].split("intent=")[-1][:40], "library terminated on a meaningful request: " + d[0], {"stderr": err[-1500:]})
    elif rc != 0:
        raise vf.EngineError("c17 rc=%s %s" % (rc, err[-1500:]))

    def key_of(execu, bad):
        e = bad.get("e")
        if e == "Round":
            return "Round decimal d=%d: %s" % (bad["d"], "not odd" if not bad["odd"] else "value")
        if e == "Table":
            why = []
            if bad["sgn"] != bad["sgnS"]:
                why.append("Sign")
            if bad["step"] != bad["stepS"]:
                why.append("StepFunction")
            if not (bad["keeps"] if bad["keepsS"] else bad["flips"]):
                why.append("Sign(x,y)")
            if bad["rdzero"] != bad["rdzeroS"] or not bad["rdrange"]:
                why.append("Relative_Difference")
            if bad["feq"] != bad["feqS"] or not bad["feqsym"]:
                why.append("Floats_Equal")
            return "Table classes (%s,%s): %s" % (bad["x"], bad["y"], ",".join(why))
        if e == "VSH":
            return "VSH %s coefficient component %d (l'-l=%d, m'-m=%d)" % ("Y" if (bad["yph"] != bad["yphS"] or bad["ysq"] > 1) else "Psi", bad["comp"], bad["lh"] - bad["l"], bad["mh"] - bad["m"])
        if e == "Harm":
            return "Harm identities: %s" % ",".join(k for k in ("conjq", "yq", "tanq", "gradq") if bad.get(k, 0) > 1) or "order"
        if e == "Obs":
            return "Obs %s" % bad.get("kind")
        return str(e)

    # (a recorder that died leaves a truncated trace: the coverage invariant does not apply to it)
    ctx.validate_all("Trace_Scalars", trace, key_of, cfg="Trace_Scalars_rest.cfg" if d else None, group_start="__each__", max_rejections=12, rest_cfg="Trace_Scalars_rest.cfg",
                     what_of=lambda ex, bad: "rejected by spec/Trace_Scalars.tla: %s" % json.dumps(bad)[:300])
    lines = open(trace).read().splitlines()
    ctx.sample({"trace_event": json.loads(lines[0])})
    ctx.sample({"trace_event": json.loads(lines[-1])})
    ctx.count(len(lines), ["%d" % i for i in range(len(lines))])
    ctx.cov["exhaustive"] = True
    ctx.cov["rule"] = ("model: Round on 38 mantissas x digits 1..7 (laws), decision tables on 10x10 value classes, VSH coefficient rules for all l<=12, |m|<=l, 3 components, 6 targets with the "
                       "completeness law sum|coef|^2 = 1 (exhaustive); replay: each exported case (Round over 85 decades steps, both signs); traces: harmonics identities for every (l,m), l<=12, "
                       "on special and random directions, relations for Round/Dawson/Erfi/Inv_Erf/Sign/Floats_Equal on random arguments")
