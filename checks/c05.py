"""C05 — Inverse and Determinant are correct for every square matrix."""
import json
import os

import vf


def run(ctx):
    ctx.assumptions += ["exact determinant/adjugate come from spec/Elim.tla (Bareiss with row exchange, integer arithmetic)",
                        "real-valued entries are reached through power-of-two row/column gradings of integer matrices (condition up to ~1e8)"]
    cfg = os.path.join(ctx.work, "MC_Elim.cfg")
    open(cfg, "w").write(open(os.path.join(vf.SPEC, "MC_Elim.cfg")).read().replace("NMAX = 7 SALTS = 5", "NMAX = 7 SALTS = 3" if ctx.quick() else "NMAX = 7 SALTS = 14"))
    out = os.path.join(ctx.work, "elim.out")
    ctx.mc("MC_Elim", cfg, env={"OUT": out})
    ctx.mc("MC_Elim", "MC_Elim_all.cfg")
    vec = os.path.join(ctx.work, "vectors.ndjson")
    seen = set()
    n = 0
    with open(vec, "w") as fh:
        for line in open(out):
            if line in seen:
                continue
            seen.add(line)
            rec = vf.unescape_csv_json_line(line)
            fh.write(json.dumps(rec) + "\n")
            n += 1
            if n in (5, 200):
                ctx.sample({"replay_case": rec})
    exe = ctx.harness("c05")
    trace = os.path.join(ctx.work, "trace.ndjson")
    rc, o, err = vf.run_exe([exe, "replay", vec, str(ctx.seed), trace], timeout=2400)
    if rc != 0:
        raise vf.EngineError("c05 replay rc=%s %s" % (rc, err[-1500:]))
    ctx.cov["replayed_cases"] += n

    def key_of(execu, bad):
        why = []
        if bad["detq"] > 1:
            why.append("determinant")
        if bad["invertible"] == bad["sing"]:
            why.append("invertible-flag")
        if bad["mem"]:
            why.append("memory-error")
        if bad["ret"] == bad["sing"]:
            why.append("inverse-returned-for-singular" if bad["ret"] else "inverse-refused-invertible")
        if bad["ret"] and (bad["invq"] > 1 or bad["resLq"] > 1 or bad["resRq"] > 1):
            why.append("inverse-inaccurate")
        if not bad["ret"] and not (bad["status"] != 0 and bad["diag"]):
            why.append("silent-exit")
        return "%s n=%d: %s" % (bad["fam"], bad["n"], ",".join(why))

    ctx.validate_all("Trace_Elim", trace, key_of, group_start="__each__", max_rejections=12,
                     what_of=lambda ex, bad: "matrix family %s n=%d salt=%d variant=%d (exactly %s): %s" % (
                         bad["fam"], bad["n"], bad["salt"], bad["variant"], "singular" if bad["sing"] else "invertible", json.dumps(bad)[:400]))
    ctx.count(ctx.cov["trace_events"], [l for l in seen])
    ctx.cov["exhaustive"] = True
    ctx.cov["rule"] = ("model: laws of the exact determinant on every 2x2 matrix over -2..2 and every 3x3 matrix over -1..1 (exhaustive) and on 10 structured "
                       "families of sizes 1..7; replay: every exported matrix plain and under two random power-of-two row/column gradings (distinct = distinct exported matrices)")
