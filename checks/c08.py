"""C08 — interpolation integrals and extrema are those of the interpolated curve."""
import os

import vf
from checks.common_interp import export_vectors, run_replay, run_record

C08_KEYS = ("steffen-integral", "Local_Minimum", "Local_Maximum", "Global_Minimum", "Global_Maximum")


def run(ctx):
    ctx.assumptions += ["prefactors in recorded histories are +-2^k (exact scaling)",
                        "Simpson's rule on Interpolate values is exact for each cubic piece, so it states 'Integrate is the integral of the returned curve' without an oracle"]
    exe = ctx.harness("interp")
    body = "\nINIT Init\nNEXT Next\nINVARIANT Props\nCHECK_DEADLOCK FALSE\n"
    for name, consts in (("MC_Spline", "CONSTANTS NMAX = 4 SPACINGS = {1,3} YVALS = {0,2} MAXOPS = 0 G = 2" if ctx.quick() else
                          "CONSTANTS NMAX = 4 SPACINGS = {1,3} YVALS = {0,1,3} MAXOPS = 0 G = 2"),
                         ("MC_Spline_pf", "CONSTANTS NMAX = 3 SPACINGS = {1,3} YVALS = {0,3} MAXOPS = 2 G = 2" if ctx.quick() else
                          "CONSTANTS NMAX = 3 SPACINGS = {1,3} YVALS = {0,1,3} MAXOPS = 2 G = 4")):
        cfg = os.path.join(ctx.work, name + ".cfg")
        open(cfg, "w").write(consts + body)
        ctx.mc("MC_Spline", cfg, timeout=1500)
    st = "CONSTANTS NMAX = 4 SPACINGS = {1,2,3} YMAX = 2 NPAR = 5" if ctx.quick() else "CONSTANTS NMAX = 5 SPACINGS = {1,2,3} YMAX = 2 NPAR = 6"
    vec, n = export_vectors(ctx, "MC_Steffen", st + "\nINIT Init\nNEXT Next\nINVARIANT Export\nCHECK_DEADLOCK FALSE\n", "steffen")
    # integrals of the Steffen curve are compared with the exact model value (agreement with Steffen's particular slopes);
    # extrema at knots are property-level (they are min/max of the data)
    res = run_replay(ctx, exe, "replay1d", vec, n, s_filter=lambda k: k.startswith(C08_KEYS), drift_note=False)
    if res:
        bad = [d for d in res.get("drifts", []) if d["key"].startswith("steffen-integral")]
        for d in bad[:5]:
            ctx.violation("replay Integrate(knot,knot)", "Integrate between tabulated points differs from the exact integral of the Steffen curve: %s" % str(d["detail"])[:400], d)
    run_record(ctx, exe, "record08", "Trace_Spline", {"Integ": ["addq", "anti", "simpq", "bnd"], "Ext": ["below", "above", "attq"]})
    ctx.cov["exhaustive"] = True
    ctx.cov["rule"] = ("model: every lattice table (<=4 knots) x every ordered/reversed pair of lattice limits x every prefactor reachable by <=2 Set_Prefactor/Multiply calls; "
                       "replay: Integrate/Local_/Global_ extrema between all knot pairs of every exported table under 7 prefactors; traces: one event per recorded query")
