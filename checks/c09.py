"""C09 — interpolation results do not depend on the history of earlier calls."""
import json
import os
from concurrent.futures import ThreadPoolExecutor

import vf

EXPORT_N = [3, 4, 5, 11, 12, 13, 25, 40]


def _mc_one(ctx, N, export_path):
    cfg = os.path.join(ctx.work, "MC_Locate_%d.cfg" % N)
    base = open(os.path.join(vf.SPEC, "MC_Locate.cfg")).read().replace("CONSTANT N = 12", "CONSTANT N = %d" % N)
    open(cfg, "w").write(base)
    env = {"OUT": export_path} if export_path else None
    return N, vf.tlc("MC_Locate", cfg, env=env, workers=2, metaroot=ctx.work, heap="2g")


def run(ctx):
    ctx.assumptions += [
        "position codes are computed by the recorder with std::lower_bound on the table (projection, not an oracle)",
        "prefactors used in recorded histories are +-2^k so that scaling is exact in IEEE arithmetic",
        "TLC and the CommunityModules Json/CSV/IOUtils modules are trusted",
    ]
    # ---------------------------------------------------------------- 1. model checking: A => S for every N in 3..40
    Ns = list(range(3, 41))
    exports = {N: os.path.join(ctx.work, "loc_%d.out" % N) for N in EXPORT_N}
    with ThreadPoolExecutor(max_workers=8) as ex:
        results = list(ex.map(lambda N: _mc_one(ctx, N, exports.get(N)), Ns))
    for N, r in results:
        ctx.cov["states"] += r.distinct
        ctx.cov["transitions"] += r.generated
        if not r.ok:
            raise vf.EngineError("MC_Locate N=%d failed:\n%s" % (N, r.out[-2000:]))
    ctx.cov["tlc_runs"].append({"module": "MC_Locate", "N": "3..40", "distinct_total": sum(r.distinct for _, r in results),
                                "invariants": ["CacheInRange", "ReturnOK", "HistoryFree", "CorrRule"]})
    pool_cfg = os.path.join(ctx.work, "MC_Locate2.cfg")
    open(pool_cfg, "w").write(open(os.path.join(vf.SPEC, "MC_Locate2.cfg")).read().replace(
        "CONSTANT N = 5", "CONSTANT N = %d" % (5 if ctx.quick() else 7)))
    ctx.mc("MC_Locate2", pool_cfg)

    # ---------------------------------------------------------------- 2. replay: one implementation test per transition
    exe = ctx.harness("c09")
    vec = os.path.join(ctx.work, "vectors.ndjson")
    ncases = 0
    with open(vec, "w") as fh:
        for N in EXPORT_N:
            for rec in vf.unescape_csv_json(exports[N]):
                fh.write(json.dumps(rec) + "\n")
                ncases += 1
                if ncases % 997 == 1:
                    ctx.sample({"replay_case": rec})
    rc, out, err = vf.run_exe([exe, "replay", vec], timeout=900)
    if rc != 0:
        died = [l for l in err.splitlines() if l.startswith("VERIF-DIED")]
        if died:
            ctx.violation("replay-died", "library terminated while replaying a Locate transition of the model: " + died[0], {"stderr": err[-2000:]})
        else:
            raise vf.EngineError("c09 replay failed rc=%s\n%s" % (rc, err[-2000:]))
    else:
        res = json.loads(out.strip().splitlines()[-1])
        ctx.cov["replayed_cases"] += res["cases"]
        ctx.count(res["cases"], ["T%d" % i for i in range(ncases)])
        for f in res["fails"]:
            ctx.violation("locate-segment N=%d p=%d" % (f["N"], f["p"]),
                          "Locate returned segment %d which does not contain position code %d (N=%d) after call path %s" % (
                              f["j"], f["p"], f["N"], f["path"]), f)
        if res["drift"]:
            ctx.drift("Locate returns a different (still valid) segment than the Hunt/Bisection model in %d of %d transitions, e.g. %s" % (
                res["drift"], res["cases"], json.dumps(res["drifts"][:2])))

    # ---------------------------------------------------------------- 3. recorded histories -> Trace_Locate
    trace = os.path.join(ctx.work, "trace.ndjson")
    rc, out, err = vf.run_exe([exe, "record", str(ctx.seed), ctx.tier, trace], timeout=1500)
    died = [l for l in err.splitlines() if l.startswith("VERIF-DIED")]
    if died:
        ctx.violation("record-died " + died[0].split("intent=")[-1][:80],
                      "library terminated on a meaningful request during a recorded history: " + died[0], {"stderr": err[-2000:]})
    elif rc != 0:
        raise vf.EngineError("c09 record failed rc=%s\n%s" % (rc, err[-2000:]))

    def key_of(execu, bad):
        if bad.get("e") == "Locate":
            return "trace Locate segment"
        if bad.get("e") == "Q":
            what = "knot" if bad.get("knot") else "interior"
            if bad.get("sg") not in (0,) and not (bad.get("same") or bad.get("knot")):
                return "trace history-dependence kind=%s %s" % (bad.get("kind"), what)
            if not bad.get("same") and (not bad.get("knot") or bad.get("r", 0) > 1):
                return "trace history-dependence kind=%s %s" % (bad.get("kind"), what)
            return "trace prefactor kind=%s" % bad.get("kind")
        return "trace " + str(bad.get("e"))

    def what_of(execu, bad):
        return "used object and fresh object disagree / wrong segment / wrong prefactor scaling: event %s (table N=%s)" % (
            json.dumps(bad), execu[0].get("N"))

    if os.path.exists(trace) and os.path.getsize(trace) > 0:
        with open(trace) as fh:
            for i, line in enumerate(fh):
                if i in (0, 5, 17):
                    ctx.sample({"trace_event": json.loads(line)})
        n_ok = ctx.validate_all("Trace_Locate", trace, key_of, what_of=what_of)
        ctx.count(ctx.cov["trace_events"])
    ctx.cov["rule"] = ("model: every (cache state, position code) transition for N=3..40 (exhaustive) and every entry point x code pair "
                       "for a pool of 2 objects; replay: one test per model transition for N in %s on an integer table and a random real "
                       "table (distinct = distinct transitions); traces: random histories, each call compared with a fresh object" % EXPORT_N)
    ctx.cov["exhaustive"] = True
