"""C10 — meaningless requests stop the program with a diagnostic; valid ones never do."""
import json
import os

import shape_machine
import vf


def run(ctx):
    ctx.assumptions += ["a request 'returns' when the child process reaches the statement after the library call",
                        "memory errors are observed through -D_GLIBCXX_ASSERTIONS (quick) and additionally AddressSanitizer/UBSan (thorough)"]
    out = os.path.join(ctx.work, "requests.out")
    ctx.mc("MC_Guards", env={"OUT": out})
    reqs = {}
    for line in open(out):
        r = vf.unescape_csv_json_line(line)
        reqs[(r["ep"], r["a"], r["b"], r["c"], r["d"], r["e"])] = r
    reqfile = os.path.join(ctx.work, "requests.ndjson")
    with open(reqfile, "w") as fh:
        for k in sorted(reqs):
            fh.write(json.dumps(reqs[k]) + "\n")
    ctx.sample({"request": reqs[sorted(reqs)[0]]})
    ctx.sample({"request": reqs[sorted(reqs)[len(reqs) // 2]]})
    variants = ["gcc"] if ctx.quick() else ["gcc", "asan"]
    for variant in variants:
        exe = ctx.harness("c10", variant=variant)
        trace = os.path.join(ctx.work, "trace_%s.ndjson" % variant)
        tmpd = os.path.join(ctx.work, "files_" + variant)
        os.makedirs(tmpd, exist_ok=True)
        env = {"ASAN_OPTIONS": "detect_leaks=0:abort_on_error=0:exitcode=99", "UBSAN_OPTIONS": "print_stacktrace=0"}
        rc, o, err = vf.run_exe([exe, reqfile, trace, tmpd], timeout=2400, env=env)
        if rc != 0:
            raise vf.EngineError("c10 harness (%s) rc=%s %s" % (variant, rc, err[-1500:]))

        def key_of(execu, bad):
            return "%s(%s,%s,%s,%s,%s) -> %s" % (bad["ep"], bad["a"], bad["b"], bad["c"], bad["d"], bad["e2"], bad["how"])

        def what_of(execu, bad):
            r = reqs.get((bad["ep"], bad["a"], bad["b"], bad["c"], bad["d"], bad["e2"]), {})
            return "request %s(a=%s,b=%s,c=%s,d=%s,e=%s) is %s by spec/Guards.tla but the library (%s build) %s; output: %s" % (
                bad["ep"], bad["a"], bad["b"], bad["c"], bad["d"], bad["e2"], "meaningful" if r.get("m") else "meaningless",
                variant, bad["how"], bad.get("msg", "")[:200].replace("\n", " "))

        with open(trace) as fh:
            ctx.sample({"trace_event": json.loads(fh.readline())})
        ctx.validate_all("Trace_Guards", trace, key_of, group_start="__each__", what_of=what_of, max_rejections=40)
    # histories: the objects as they are NOW, after any sequence of size-changing calls (spec/Shape.tla)
    shape_rule, shape_events = shape_machine.run(ctx, probes=True)
    ctx.count(ctx.cov["trace_events"], reqs.keys())
    ctx.cov["exhaustive"] = True
    ctx.cov["rule"] = ("every request of the decision table spec/Guards.tla (%d requests over %d entry points, enumerated by TLC, both sides of every guard) "
                       "executed once per build variant in its own child process; histories: " % (len(reqs), len({k[0] for k in reqs}))
                       + shape_rule + " of the machine spec/Shape.tla plus TLC-simulated behaviours of length 12, replayed in the real Matrix/Vector; %d (pre, action, post) and probe events validated by Trace_Shape" % shape_events)
