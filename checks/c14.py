"""C14 — Monte-Carlo integrators sample only inside the region and forget earlier calls."""
import json
import os

import vf


def run(ctx):
    ctx.assumptions += ["the guarded seed hook (verif_mc_seed) replaces the operating-system seed of the three per-call generators; every observed call is executed in its own process",
                        "smooth-integrand clause: |mean of 32 seeded repetitions - exact| <= 6 standard errors of that mean (fixed seeds; family-wise false-alarm probability ~1e-4 per run)",
                        "constants: relative error <= (64 + number of evaluations) eps (recursive summation)"]
    ctx.mc("MC_MonteCarlo", "MC_MonteCarlo.cfg")
    r = ctx.mc("MC_MonteCarlo", "MC_MonteCarlo_static.cfg", expect_ok=False)
    if r.inv_violated != "HistoryFree":
        raise vf.EngineError("expected TLC to refute HistoryFree for a generator state carried across calls:\n" + r.out[-1500:])
    ctx.notes.append("TLC refutes HistoryFree for RESET=FALSE (Miser's iran carried over between calls, the pinned code) and proves it for RESET=TRUE")
    # Vegas: taint analysis of the function-local statics (A level), and a light conformance of its object list with the source
    ctx.mc("VegasStatics", "VegasStatics.cfg", workers=4)
    import re
    src = open(os.path.join(vf.REPO, "src", "Integration.cpp")).read()
    m = re.search(r"double Integrate_MC_Vegas\(.*?\n\{(.*?)// Initialize", src, re.S)
    names = set()
    if m:
        for decl in re.findall(r"static\s+(?:const\s+)?[\w:<>\s]+?\s([^;]+);", m.group(1)):
            if "const" in decl:
                continue
            for nm in re.findall(r"\b([A-Za-z_]\w*)\b\s*(?:\(|,|$)", decl):
                names.add(nm)
    names -= {"MXDIM", "NDMX", "ALPH", "TINY"}
    modelled = {"i", "it", "j", "k", "mds", "nd", "ndo", "ng", "npg", "calls", "dv2g", "dxg", "f", "f2", "f2b", "fb", "rc", "ti", "tsi", "wgt", "xjac", "xn", "xnd", "xo", "schi", "si", "swgt",
                "ia", "kg", "dt", "dx", "r", "x", "xin", "d", "di", "xi"}
    if names and names != modelled:
        ctx.drift("the function-local statics of Integrate_MC_Vegas (%s) differ from the objects of spec/VegasStatics.tla (%s)" % (sorted(names - modelled), sorted(modelled - names)))
    elif not names:
        ctx.drift("could not locate the static declarations of Integrate_MC_Vegas in the source")
    # inventory of mutable state that outlives a call in Integration.cpp: everything static and not const must be an object of the models
    # (Vegas' statics: VegasStatics.tla; Miser_iran: MonteCarlo.tla RESET); anything else is unmodelled history
    stat_lines = [ln.strip() for ln in src.splitlines() if re.match(r"\s*(static|thread_local)\b", ln) and not re.match(r"\s*static\s+const\b", ln)
                  and "(" not in ln.split("=")[0].replace("(MXDIM)", "").replace("(NDMX)", "").replace("(NDMX, MXDIM)", "").replace("(MXDIM, NDMX)", "")]
    inside_vegas = m.group(1) if m else ""
    extra = [ln for ln in stat_lines if ln not in inside_vegas and not ln.startswith("static int Miser_iran")]
    if extra:
        ctx.drift("Integration.cpp declares mutable static state that the models of C14 do not know: %s" % extra[:4])
    exe = ctx.harness("c14")
    trace = os.path.join(ctx.work, "trace.ndjson")
    rc, out, err = vf.run_exe([exe, "record", str(ctx.seed), ctx.tier, trace], timeout=3300)
    if rc != 0:
        raise vf.EngineError("c14 record rc=%s %s" % (rc, err[-1500:]))
    lines = [json.loads(l) for l in open(trace) if l.strip()]
    # a library death is an observation: reported, and removed from the trace so that the rest is validated
    keep = []
    for ev in lines:
        if ev.get("e") == "Died":
            ctx.violation("died %s" % ev.get("what", "").split("/")[0], "Monte-Carlo integration terminated the process: %s" % json.dumps(ev)[:300], ev)
        else:
            keep.append(ev)
    with open(trace, "w") as fh:
        for ev in keep:
            fh.write(json.dumps(ev) + "\n")

    def key_of(execu, bad):
        e = bad.get("e")
        if e == "Call":
            if bad.get("nout"):
                return "%s dim %d: evaluation outside the region" % (bad["method"], bad["dim"])
            if not bad.get("fin") or not bad.get("neval"):
                return "%s: non-finite result / no evaluation" % bad["method"]
            return "%s: result depends on the call history (integrand family %d)" % (bad["method"], bad["fam"])
        if e == "Const":
            if bad.get("nout"):
                return "%s: evaluation outside the region" % bad["method"]
            return "%s constant: %s" % (bad["method"], "gross error" if bad.get("gross") else "not to rounding (relative error below 1e-8)")
        if e == "Stat":
            return "%s dim %d family %d: more than six standard errors from the exact value" % (bad["method"], bad["dim"], bad["fam"]) if not bad.get("nout") else "%s: evaluation outside the region" % bad["method"]
        if e == "Front":
            return "front end %dD %s: %s" % (bad["dim"], bad["method"], "argument outside its own limits" if bad.get("nwrong") else "more than six standard errors from the exact value")
        return str(e)

    # groups: a fresh/hist pair belongs together (the memo must see the fresh call first)
    ctx.validate_all("Trace_MC", trace, key_of, group_start="__pair__", max_rejections=12,
                     what_of=lambda ex, bad: "rejected by spec/Trace_MC.tla: %s" % json.dumps({k: v for k, v in bad.items() if k != "key"})[:300] + " key=" + str(bad.get("key", ""))[:120])
    for ev in keep[:2] + keep[-2:]:
        ctx.sample({"trace_event": {k: v for k, v in ev.items() if k != "key"}})
    ctx.count(len(keep), [ev.get("key", str(i)) for i, ev in enumerate(keep)])
    ctx.cov["exhaustive"] = False
    ctx.cov["rule"] = ("model: Miser's generator state over every pair of call histories of length <= 2, dimensions 1..4, every flatness pattern of a depth-2 tree (exhaustive; refuted without reset); "
                       "traces: %d recorded events: fresh-vs-history pairs (random histories of 1..4 integrations of differing method, dimension 1..6, region, budget), constants, "
                       "32-seed statistics on exp/Gaussian/polynomial families, 2D/3D front ends with disjoint limit ranges" % len(keep))
