"""C07 — every distribution's density, CDF, quantile and likelihood are mutually coherent."""
import json
import os

import vf


def run(ctx):
    ctx.assumptions += ["exact references: binomial coefficients from the Pascal machine of MC_Gamma (p = k/8 dyadic), Poisson series at means m/8 from spec/Distributions.tla (Horner machine on arbitrary-precision integers); "
                        "the replayer supplies expl / powl in long double",
                        "CDF increments are compared with a composite 16-point Gauss-Legendre quadrature (long double, geometric panels near the origin) of the library's OWN density",
                        "tolerance classes: 1e-12 closed forms, 1e-9 incomplete-gamma based with a <= 100, 2e-3 above (the accuracy C06 states for GammaP/GammaQ); KDE normalisation 1e-5"]
    vec = os.path.join(ctx.work, "vectors.ndjson")
    n = 0
    with open(vec, "w") as fh:
        out = os.path.join(ctx.work, "pois.out")
        ctx.mc("MC_Dist", "MC_Dist_Pois.cfg", env={"OUT": out})
        for line in open(out):
            fh.write(json.dumps(vf.unescape_csv_json_line(line)) + "\n")
            n += 1
        cfg = os.path.join(ctx.work, "MC_Gamma_Pas.cfg")
        open(cfg, "w").write(open(os.path.join(vf.SPEC, "MC_Gamma_Pas.cfg")).read().replace("NMAX = 400", "NMAX = 170"))
        out2 = os.path.join(ctx.work, "pas.out")
        ctx.mc("MC_Gamma", cfg, env={"OUT": out2})
        for line in open(out2):
            fh.write(json.dumps(vf.unescape_csv_json_line(line)) + "\n")
            n += 1
    ctx.cov["replayed_cases"] += n
    exe = ctx.harness("c07")
    trace = os.path.join(ctx.work, "trace.ndjson")
    rc, o, err = vf.run_exe([exe, "run", vec, str(ctx.seed), ctx.tier, trace], timeout=3000)
    d = [l for l in err.splitlines() if l.startswith("VERIF-DIED")]
    if d:
        ctx.violation("died " + d[0].split("intent=")[-1][:40], "library terminated on a meaningful request: " + d[0], {"stderr": err[-1500:]})
    elif rc != 0:
        raise vf.EngineError("c07 rc=%s %s" % (rc, err[-1500:]))

    def key_of(execu, bad):
        e = bad.get("e")
        over = sorted(k for k, v in bad.items() if (k.endswith("q") or k == "q") and isinstance(v, int) and not isinstance(v, bool) and v > 1)
        flags = sorted(k for k, v in bad.items() if v is False and k not in ("hi",))
        if e == "Grid":
            return "Grid %s: %s" % (bad["fam"], ",".join(over + flags) or "tolerance class")
        if e == "Pois":
            return "Pois %s: %s" % (bad["tol"], ",".join(over + flags) or "tolerance class")
        if e == "Binom":
            return "Binom: %s" % ",".join(over + flags)
        return "%s%s: %s" % (e, " " + bad["fam"] if "fam" in bad else "", ",".join(over + flags))

    ctx.validate_collect("Trace_Dist", trace, key_of, what_of=lambda ex, bad: "rejected by spec/Trace_Dist.tla: %s" % json.dumps(bad)[:300])
    lines = open(trace).read().splitlines()
    ctx.sample({"trace_event": json.loads(lines[0])})
    ctx.sample({"trace_event": json.loads(lines[-1])})
    ctx.count(len(lines), ["%d" % i for i in range(len(lines))])
    ctx.cov["exhaustive"] = True
    ctx.cov["rule"] = ("model: exact Poisson series at 12 rational means x ~20 counts (0..500, both sides of count+1 = 100), Pascal rows 0..170; replay: PMF/CDF_Binomial for every exported row x p in {0,1/8,..,1} x all x, "
                       "PMF/CDF_Poisson and likelihoods at the exported points; traces: CDF_Poisson against running sums, inverses, binned likelihoods, seven continuous families on random grids, KDE")
