"""C01 — interpolants reproduce the data and never overshoot it."""
import vf
from checks.common_interp import export_vectors, run_replay, run_record

C08_KEYS = ("steffen-integral", "Local_Minimum", "Local_Maximum", "Global_Minimum", "Global_Maximum")


def run(ctx):
    ctx.assumptions += ["lattice replay compares IEEE results with exact rationals within 64..1024 eps of the ordinate scale",
                        "on real-valued tables monotonicity / bounds are observed at 66 points per interval (incl. nextafter neighbours of both knots)"]
    exe = ctx.harness("interp")
    if ctx.quick():
        st = "CONSTANTS NMAX = 4 SPACINGS = {1,2,3} YMAX = 2 NPAR = 6"
    else:
        st = "CONSTANTS NMAX = 5 SPACINGS = {1,2,3} YMAX = 2 NPAR = 7"
    body = "\nINIT Init\nNEXT Next\nINVARIANT Props\nINVARIANT Export\nCHECK_DEADLOCK FALSE\n"
    vec, n = export_vectors(ctx, "MC_Steffen", st + body, "steffen")
    run_replay(ctx, exe, "replay1d", vec, n, s_filter=lambda k: not k.startswith(C08_KEYS))
    vec2, n2 = export_vectors(ctx, "MC_Bilinear", "CONSTANT FMAX = 2" + body, "bilinear")
    run_replay(ctx, exe, "replay2d", vec2, n2)
    run_record(ctx, exe, "record01", "Trace_Interp",
               {"Interval": ["nviol", "nout", "kl", "kr", "c1q", "dq0", "dq1", "dq2", "dq3"], "Cell": ["nout", "nodeq", "edgeq", "bilq"], "Zone": ["q"]})
    ctx.cov["exhaustive"] = True
    ctx.cov["rule"] = ("model: every table with <=4 (thorough 5) knots over spacings {1,2,3} and ordinates -2..2 plus non-uniform parabola tables; every 2D cell over -2..2; "
                       "replay: each exported table through both constructors, unit factors and 2^k scalings (distinct = distinct exported tables/cells); "
                       "traces: one event per interval / cell of random real-valued tables")
