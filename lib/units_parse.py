"""Parse the unit definitions of src/Natural_Units.cpp into records the TLA+ specification UnitsInit.tla can read.

Each `const double NAME = EXPR;` inside namespace natural_units becomes
  {"name", "order", "call": initialiser contains a function call, "opaque": contains M_PI / sqrt / non-integer pow (coefficient not rational),
   "deps": [names], "factors": [[name, exponent], ...], "num": [[limbs, e10], ...], "den": [[limbs, e10], ...]}
with EXPR = prod(num literals) / prod(den literals) * prod(name^exponent).  Literals are exact decimals: mantissa as
little-endian base-10^4 limbs (spec/Big.tla) and a power of ten.  Grammar: products / quotients of names, decimal literals,
parenthesised sub-expressions and pow(expr, integer)."""
import re


def limbs(n):
    out = []
    while n:
        out.append(n % 10000)
        n //= 10000
    return out


def literal(tok):
    m = re.fullmatch(r"(\d*)\.?(\d*)(?:[eE]([+-]?\d+))?", tok)
    ip, fp, ex = m.group(1) or "", m.group(2) or "", int(m.group(3) or 0)
    digits = (ip + fp).lstrip("0") or "0"
    e10 = ex - len(fp)
    mant = int(digits)
    while mant and mant % 10 == 0:
        mant //= 10
        e10 += 1
    return [limbs(mant), e10]


TOK = re.compile(r"\s*(?:(\d+\.?\d*(?:[eE][+-]?\d+)?|\.\d+(?:[eE][+-]?\d+)?)|([A-Za-z_]\w*)|(.))")


class P:
    def __init__(self, s):
        self.t = [(a, b, c) for a, b, c in TOK.findall(s) if a or b or c.strip()]
        self.i = 0
        self.call = False
        self.opaque = False

    def peek(self):
        return self.t[self.i] if self.i < len(self.t) else ("", "", "")

    def next(self):
        x = self.peek()
        self.i += 1
        return x

    def product(self):
        res = self.unary()
        while self.peek()[2] in ("*", "/"):
            op = self.next()[2]
            rhs = self.unary()
            res = mul(res, rhs if op == "*" else inv(rhs))
        if self.peek()[2] in ("+", "-"):
            raise ValueError("sums are not part of the unit grammar")
        return res

    def unary(self):
        num, name, sym = self.next()
        if num:
            return {"num": [literal(num)], "den": [], "f": {}}
        if sym == "(":
            r = self.product()
            assert self.next()[2] == ")"
            return r
        if sym == "-":
            raise ValueError("negative factor")
        if name in ("pow", "std"):
            if name == "std":
                assert self.next()[2] == ":" and self.next()[2] == ":"
                name = self.next()[1]
            self.call = True
            assert self.next()[2] == "("
            base = self.product()
            assert self.next()[2] == ","
            sign = 1
            if self.peek()[2] == "-":
                self.next()
                sign = -1
            e = self.next()[0]
            assert self.next()[2] == ")"
            if not re.fullmatch(r"\d+(\.0*)?", e):
                self.opaque = True
                return {"num": [], "den": [], "f": dict(base["f"])}   # dimension of the base is kept (half-integer powers are flagged opaque)
            return power(base, sign * int(float(e)))
        if name == "sqrt":
            self.call = True
            self.opaque = True
            assert self.next()[2] == "("
            base = self.product()
            assert self.next()[2] == ")"
            return {"num": [], "den": [], "f": {}} if not base["f"] else {"num": [], "den": [], "f": dict(base["f"])}
        if name == "M_PI":
            self.opaque = True
            return {"num": [], "den": [], "f": {}}
        if self.peek()[2] == "(":
            self.call = True
            self.opaque = True
            depth = 0
            while True:
                s = self.next()[2]
                depth += s == "("
                depth -= s == ")"
                if depth == 0:
                    break
            return {"num": [], "den": [], "f": {}}
        return {"num": [], "den": [], "f": {name: 1}}


def mul(a, b):
    f = dict(a["f"])
    for k, v in b["f"].items():
        f[k] = f.get(k, 0) + v
    return {"num": a["num"] + b["num"], "den": a["den"] + b["den"], "f": f}


def inv(a):
    return {"num": a["den"], "den": a["num"], "f": {k: -v for k, v in a["f"].items()}}


def power(a, e):
    if e < 0:
        return power(inv(a), -e)
    r = {"num": [], "den": [], "f": {}}
    for _ in range(e):
        r = mul(r, a)
    return r


def parse(path):
    src = open(path).read()
    src = re.sub(r"//[^\n]*", "", src)
    body = src[src.index("namespace natural_units"):]
    # only definitions at namespace scope are unit constants: a `const double` local of a function body (or of a class) is not
    stack, scope_at, last = [], {}, 0
    for i, ch in enumerate(body):
        if ch == "{":
            head = body[last:i]
            stack.append("ns" if re.search(r"namespace\s*\w*\s*$", head) else "block")
            last = i + 1
        elif ch == "}":
            if stack:
                stack.pop()
            last = i + 1
        elif ch == ";":
            last = i + 1
        scope_at[i] = all(k == "ns" for k in stack)
    defs = []
    for m in re.finditer(r"const\s+double\s+(\w+)\s*=\s*([^;]+);", body):
        if not scope_at.get(m.start(), True):
            continue
        name, expr = m.group(1), m.group(2)
        p = P(expr)
        r = p.product()
        if p.i != len(p.t):
            raise ValueError("cannot parse initialiser of %s: %s" % (name, expr))
        defs.append({"name": name, "order": len(defs) + 1, "call": p.call, "opaque": p.opaque,
                     "deps": sorted(k for k, v in r["f"].items()), "factors": sorted([k, v] for k, v in r["f"].items() if v != 0),
                     "num": r["num"], "den": r["den"], "expr": " ".join(expr.split())})
    return defs


if __name__ == "__main__":
    import json
    import sys
    for d in parse(sys.argv[1]):
        print(json.dumps(d))
