"""Framework for the libphysica model-based verification checks.

One check = one property.  A check module (checks/cNN.py) defines run(ctx) and
uses the helpers below to
  * build the library from /repo's *current working tree* (content-hash cached),
  * build a C++ harness against it,
  * run TLC on a bounded model (MC_*.tla) and collect states / coverage / export,
  * replay TLC-exported behaviours into the real code,
  * validate traces recorded from the real code against a trace spec,
  * report violations (matched against known_findings.jsonl) and write evidence.

Exit status of a check: 0 = held on everything explored, 1 = VIOLATION printed,
2 = ENGINE-ERROR (the machinery failed; never used for something the library did).
"""
import fcntl
import glob
import hashlib
import json
import os
import re
import shutil
import subprocess
import sys
import tempfile
import time

VERIF = os.path.dirname(os.path.dirname(os.path.abspath(__file__)))
REPO = os.environ.get("VERIF_REPO", "/repo")
CACHE = os.path.join(VERIF, ".cache")
OUTROOT = VERIF if REPO == "/repo" else os.environ.get("VERIF_ALT_OUT", "/tmp/verif-alt-out")   # runs against another tree never touch the committed evidence
SPEC = os.path.join(VERIF, "spec")
HARNESS = os.path.join(VERIF, "harness")
GUARD = "LIBPHYSICA_VERIF"
NCPU = os.cpu_count() or 4


class EngineError(Exception):
    pass


def sh(cmd, **kw):
    return subprocess.run(cmd, stdout=subprocess.PIPE, stderr=subprocess.STDOUT, text=True, **kw)


# --------------------------------------------------------------------------- build

VARIANTS = {
    # name: (compiler, flags)
    "gcc": ("g++", ["-std=c++14", "-O1", "-g0", "-D" + GUARD, "-D_GLIBCXX_ASSERTIONS", "-w"]),
    "asan": ("clang++", ["-std=c++14", "-O1", "-g", "-D" + GUARD, "-fsanitize=address,undefined",
                         "-fno-sanitize-recover=undefined", "-fno-omit-frame-pointer", "-w"]),
}


def tree_hash():
    h = hashlib.sha256()
    files = sorted(glob.glob(os.path.join(REPO, "src", "*.cpp")) +
                   glob.glob(os.path.join(REPO, "include", "**", "*"), recursive=True))
    for f in files:
        if os.path.isfile(f):
            h.update(f.encode())
            with open(f, "rb") as fh:
                h.update(fh.read())
    return h.hexdigest()[:16]


def _gen_version(dst):
    src = os.path.join(REPO, "include", "version.hpp.in")
    txt = open(src).read()
    sub = {"PROJECT_NAME": "libphysica", "PROJECT_VERSION": "0.1.5", "PROJECT_SOURCE_DIR": REPO,
           "CMAKE_PROJECT_NAME": "libphysica", "CMAKE_PROJECT_VERSION": "0.1.5", "CMAKE_SOURCE_DIR": REPO}
    txt = re.sub(r"@([A-Z_]+)@", lambda m: sub.get(m.group(1), ""), txt)
    with open(os.path.join(dst, "version.hpp"), "w") as fh:
        fh.write(txt)


def _prune_cache(keep=30):
    try:
        ents = [os.path.join(CACHE, d) for d in os.listdir(CACHE) if d.startswith(("lib-", "har-"))]
    except FileNotFoundError:
        return
    ents.sort(key=lambda p: os.path.getmtime(p), reverse=True)
    libs = [e for e in ents if os.path.basename(e).startswith("lib-")]
    for e in libs[keep:]:
        shutil.rmtree(e, ignore_errors=True)
    hars = [e for e in ents if os.path.basename(e).startswith("har-")]
    for e in hars[240:]:
        shutil.rmtree(e, ignore_errors=True)


def build_lib(variant="gcc"):
    """Compile /repo/src/*.cpp (current working tree) with the guard on. Returns dict."""
    cxx, flags = VARIANTS[variant]
    key = hashlib.sha256((tree_hash() + variant + " ".join(flags)).encode()).hexdigest()[:16]
    d = os.path.join(CACHE, "lib-%s-%s" % (variant, key))
    os.makedirs(CACHE, exist_ok=True)
    lock = open(os.path.join(CACHE, ".lock-" + variant), "w")
    fcntl.flock(lock, fcntl.LOCK_EX)
    try:
        lib = os.path.join(d, "libphysica.a")
        if not os.path.exists(lib):
            tmp = d + ".tmp%d" % os.getpid()
            shutil.rmtree(tmp, ignore_errors=True)
            os.makedirs(tmp)
            _gen_version(tmp)
            srcs = sorted(glob.glob(os.path.join(REPO, "src", "*.cpp")))
            procs = []
            for s in srcs:
                o = os.path.join(tmp, os.path.basename(s)[:-4] + ".o")
                procs.append((s, subprocess.Popen([cxx] + flags + ["-I", os.path.join(REPO, "include"), "-I", tmp,
                                                                   "-c", s, "-o", o],
                                                  stdout=subprocess.PIPE, stderr=subprocess.STDOUT, text=True)))
            errs = []
            for s, p in procs:
                out, _ = p.communicate()
                if p.returncode != 0:
                    errs.append("%s:\n%s" % (s, out[-3000:]))
            if errs:
                shutil.rmtree(tmp, ignore_errors=True)
                raise EngineError("library does not compile (%s):\n%s" % (variant, "\n".join(errs)))
            r = sh(["ar", "rcs", os.path.join(tmp, "libphysica.a")] + sorted(glob.glob(os.path.join(tmp, "*.o"))))
            if r.returncode != 0:
                raise EngineError("ar failed: " + r.stdout)
            shutil.rmtree(d, ignore_errors=True)
            os.rename(tmp, d)
            _prune_cache()
        else:
            os.utime(d)
    finally:
        fcntl.flock(lock, fcntl.LOCK_UN)
        lock.close()
    return {"dir": d, "lib": os.path.join(d, "libphysica.a"), "cxx": cxx, "flags": flags, "key": key}


def build_harness(name, variant="gcc", extra=()):
    """Compile harness/<name>.cpp against the freshly built library."""
    L = build_lib(variant)
    src = os.path.join(HARNESS, name + ".cpp")
    h = hashlib.sha256()
    for f in [src] + sorted(glob.glob(os.path.join(HARNESS, "*.hpp"))):
        h.update(open(f, "rb").read())
    h.update((L["key"] + " ".join(extra)).encode())
    d = os.path.join(CACHE, "har-%s-%s-%s" % (name, variant, h.hexdigest()[:16]))
    exe = os.path.join(d, name)
    lock = open(os.path.join(CACHE, ".lock-har-" + name), "w")
    fcntl.flock(lock, fcntl.LOCK_EX)
    try:
        if not os.path.exists(exe):
            os.makedirs(d, exist_ok=True)
            cmd = [L["cxx"]] + L["flags"] + list(extra) + ["-I", os.path.join(REPO, "include"), "-I", L["dir"],
                                                            "-I", HARNESS, src, L["lib"], "-lconfig++", "-o", exe + ".tmp"]
            r = sh(cmd)
            if r.returncode != 0:
                shutil.rmtree(d, ignore_errors=True)
                raise EngineError("harness %s does not compile:\n%s" % (name, r.stdout[-4000:]))
            os.rename(exe + ".tmp", exe)
        else:
            os.utime(d)
    finally:
        fcntl.flock(lock, fcntl.LOCK_UN)
        lock.close()
    return exe


# --------------------------------------------------------------------------- TLC

class TlcResult:
    def __init__(self, rc, out):
        self.rc = rc
        self.out = out
        m = re.search(r"(\d+) states generated, (\d+) distinct states found", out)
        self.generated = int(m.group(1)) if m else 0
        self.distinct = int(m.group(2)) if m else 0
        m = re.search(r"The depth of the complete state graph search is (\d+)", out)
        self.depth = int(m.group(1)) if m else 0
        self.ok = (rc == 0 and "Model checking completed. No error has been found." in out)
        self.inv_violated = None
        m = re.search(r"Invariant (\S+) is violated", out)
        if m:
            self.inv_violated = m.group(1)
        self.post_failed = "POSTCONDITION" in out.upper() and "violated" in out.lower() and "postcondition" in out.lower()
        self.parse_error = ("Parsing or semantic analysis failed" in out) or ("Error: " in out and not self.inv_violated and not self.post_failed and not self.ok and "is violated" not in out)

    def coverage(self):
        """action name -> (taken distinct, generated) from `-coverage` output."""
        cov = {}
        for m in re.finditer(r"^<(\w+) line \d+, col \d+ to line \d+, col \d+ of module (\w+)(?: \([\d ]+\))?>: (\d+):(\d+)", self.out, re.M):
            cov[m.group(1)] = (int(m.group(3)), int(m.group(4)))
        return cov


def tlc(module, cfg=None, env=None, workers=None, extra=(), timeout=900, cwd=SPEC, heap="8g", metaroot=None, coverage=False):
    """Run TLC on spec/<module>.tla. Returns TlcResult."""
    cfg = cfg or (module + ".cfg")
    meta = tempfile.mkdtemp(prefix="tlcmeta-", dir=metaroot or tempfile.gettempdir())
    e = dict(os.environ)
    e.update(env or {})
    cmd = ["java", "-XX:+UseParallelGC", "-Xmx" + heap, "-Xss64m",
           "-cp", "/opt/veriftools/tla/tla2tools.jar:/opt/veriftools/tla/CommunityModules-deps.jar",
           "tlc2.TLC", "-workers", str(workers or NCPU), "-metadir", meta, "-config", cfg, "-noGenerateSpecTE"]
    if coverage:
        cmd += ["-coverage", "1"]
    cmd += list(extra) + [module + ".tla"]
    try:
        r = subprocess.run(cmd, cwd=cwd, env=e, stdout=subprocess.PIPE, stderr=subprocess.STDOUT, text=True, timeout=timeout)
        res = TlcResult(r.returncode, r.stdout)
    except subprocess.TimeoutExpired as ex:
        out = ex.stdout if isinstance(ex.stdout, str) else (ex.stdout or b"").decode(errors="replace")
        res = TlcResult(124, out + "\nTIMEOUT")
    finally:
        shutil.rmtree(meta, ignore_errors=True)
    return res


def tlaps(module, workdir, timeout=600):
    """Check spec/proofs/<module>.tla with the TLA+ proof system; returns (all_proved, n_obligations, output)."""
    d = tempfile.mkdtemp(prefix="tlaps-", dir=workdir)
    try:
        shutil.copy(os.path.join(SPEC, "proofs", module + ".tla"), d)
        try:
            r = subprocess.run(["tlapm", "--threads", "4", "-I", SPEC, module + ".tla"], cwd=d, stdout=subprocess.PIPE, stderr=subprocess.STDOUT, text=True, timeout=timeout)
            out = r.stdout
        except subprocess.TimeoutExpired as ex:
            out = "TIMEOUT"
        m = re.search(r"All (\d+) obligations? proved", out)
        return (m is not None), (int(m.group(1)) if m else 0), out
    finally:
        shutil.rmtree(d, ignore_errors=True)


def apalache_inductive(module, workdir, init="BInit", ind_init="InvInit", nxt="BNext", inv="Inv", extra=("Bracket.tla",), timeout=600):
    """Check with Apalache (symbolic, unbounded integers) that `inv` of spec/apalache/<module>.tla is inductive:
    base case init => inv (length 0) and step ind_init /\ next => inv' (length 1). Returns (ok, output)."""
    d = tempfile.mkdtemp(prefix="apalache-", dir=workdir)
    try:
        shutil.copy(os.path.join(SPEC, "apalache", module + ".tla"), d)
        for f in extra:
            shutil.copy(os.path.join(SPEC, f), d)
        outs = []
        for i, length in ((init, 0), (ind_init, 1)):
            try:
                if shutil.which("apalache-mc") is None:
                    return "unavailable", "apalache-mc is not on PATH"
                r = subprocess.run(["apalache-mc", "check", "--init=" + i, "--next=" + nxt, "--inv=" + inv, "--length=%d" % length, module + ".tla"],
                                   cwd=d, stdout=subprocess.PIPE, stderr=subprocess.STDOUT, text=True, timeout=timeout)
                out = r.stdout
            except subprocess.TimeoutExpired:
                out = "TIMEOUT"
            outs.append(out[-1500:])
            if "The outcome is: NoError" not in out:
                # a definite counterexample is a refutation; anything else (tool missing, time-out, crash) only means the second engine did not run
                return ("refuted" if "The outcome is: Error" in out else "unavailable"), "\n".join(outs)
        return "ok", "\n".join(outs)
    finally:
        shutil.rmtree(d, ignore_errors=True)


def unescape_csv_json_line(line):
    line = line.strip()
    if line.startswith('"') and line.endswith('"'):
        line = line[1:-1].replace('\\"', '"').replace('\\\\', '\\')
    return json.loads(line)


def unescape_csv_json(path):
    """TLC CSVWrite of ToJson(...) yields lines like "{\"a\":1}" -> parse each to a dict."""
    out = []
    with open(path) as fh:
        for line in fh:
            line = line.strip()
            if not line:
                continue
            if line.startswith('"') and line.endswith('"'):
                line = line[1:-1].replace('\\"', '"').replace('\\\\', '\\')
            out.append(json.loads(line))
    return out


# --------------------------------------------------------------------------- known findings

def load_findings():
    p = os.path.join(VERIF, "known_findings.jsonl")
    out = []
    if os.path.exists(p):
        for line in open(p):
            line = line.strip()
            if line and not line.startswith("#"):
                out.append(json.loads(line))
    return out


# --------------------------------------------------------------------------- context

class Ctx:
    def __init__(self, pid, tier, seed):
        self.pid = pid
        self.tier = tier
        self.seed = seed
        self.t0 = time.time()
        self.work = tempfile.mkdtemp(prefix="verif-%s-" % pid)
        self.cov = {"states": 0, "transitions": 0, "traces_validated_against_impl": 0, "samples": [],
                    "evaluations": 0, "distinct_nontrivial": 0, "rule": "", "exhaustive": False,
                    "tlc_runs": [], "replayed_cases": 0, "trace_events": 0, "model_drift": []}
        self.assumptions = []
        self.violations = []   # (key, what, replay)
        self.known = []
        self.notes = []
        self.findings = [f for f in load_findings() if f.get("property") == pid and f.get("status") == "known"]
        self._distinct = set()

    # ---- building
    def lib(self, variant="gcc"):
        return build_lib(variant)

    def harness(self, name, variant="gcc", extra=()):
        return build_harness(name, variant, extra)

    def quick(self):
        return self.tier == "quick"

    # ---- TLC model checking
    def mc(self, module, cfg=None, env=None, expect_ok=True, need_actions=(), **kw):
        kw.setdefault("coverage", bool(need_actions))
        t = time.time()
        r = tlc(module, cfg, env=env, metaroot=self.work, **kw)
        run = {"module": module, "cfg": cfg or module + ".cfg", "generated": r.generated, "distinct": r.distinct,
               "depth": r.depth, "ok": r.ok, "wall_s": round(time.time() - t, 1)}
        self.cov["tlc_runs"].append(run)
        self.cov["states"] += r.distinct
        self.cov["transitions"] += r.generated
        if expect_ok and not r.ok:
            raise EngineError("TLC run %s/%s did not complete cleanly:\n%s" % (module, cfg, r.out[-3000:]))
        if need_actions:
            cov = r.coverage()
            missing = [a for a in need_actions if cov.get(a, (0, 0))[0] == 0 and cov.get(a, (0, 0))[1] == 0]
            run["coverage"] = {a: list(cov.get(a, (0, 0))) for a in need_actions}
            if missing:
                raise EngineError("vacuous model run %s: actions never taken: %s" % (module, missing))
        return r

    # ---- trace validation
    def validate(self, module, trace_path, cfg=None, env=None, timeout=900, heap="8g"):
        """Validate an NDJSON trace against spec/<module>.tla.
        Returns (accepted, consumed_events, total_events)."""
        total = sum(1 for l in open(trace_path) if l.strip())
        e = {"TRACE": trace_path}
        e.update(env or {})
        r = tlc(module, cfg, env=e, workers=1, metaroot=self.work, timeout=timeout, heap=heap)
        self.cov["tlc_runs"].append({"module": module, "trace": os.path.basename(trace_path), "events": total,
                                     "generated": r.generated, "distinct": r.distinct, "depth": r.depth})
        self.cov["states"] += r.distinct
        self.cov["transitions"] += r.generated
        if r.ok:
            return True, total, total
        if r.rc == 124 or "Parsing or semantic analysis failed" in r.out or r.depth == 0:
            raise EngineError("trace validation %s failed to run:\n%s" % (module, r.out[-3000:]))
        if "TraceAccepted" not in r.out and "ostcondition" not in r.out:
            raise EngineError("trace validation %s ended unexpectedly:\n%s" % (module, r.out[-3000:]))
        consumed = max(0, r.depth - 1)
        return False, consumed, total

    def validate_all(self, module, trace_path, key_of, cfg=None, env=None, max_rejections=8, group_start="Reset",
                     what_of=None, is_known_only=False, rest_cfg=None):
        """Validate a trace made of executions, each starting with a `group_start` event.
        On rejection the offending execution is recorded as a violation (key from key_of(exec_lines, bad_line)),
        removed, and validation continues so that the rest of the trace is still checked.
        Returns number of executions accepted."""
        lines = [l for l in open(trace_path).read().splitlines() if l.strip()]
        if lines:
            try:
                json.loads(lines[-1])
            except ValueError:      # recorder died in the middle of a line
                lines.pop()
                open(trace_path, "w").write("\n".join(lines) + "\n")
        if not lines:
            return 0
        groups = []
        for l in lines:
            ev = json.loads(l)
            if group_start == "__pair__":       # events with kind == "hist" stay with the preceding event (same key, fresh process)
                if ev.get("kind") == "hist" and groups:
                    groups[-1].append(l)
                    continue
                groups.append([l])
                continue
            if group_start == "__each__" or ev.get("e") == group_start or not groups:
                groups.append([])
            groups[-1].append(l)
        groups = [g for g in groups if g]
        n_exec = len(groups)
        rejected = 0
        cur = trace_path
        rounds = 0
        while groups:
            ok, consumed, total = self.validate(module, cur, cfg=(cfg if rounds == 0 else (rest_cfg or cfg)), env=env)
            if ok:
                break
            # locate the offending execution; everything before it was accepted
            idx = consumed  # 0-based index of first rejected line
            pos = 0
            gi = 0
            for gi, g in enumerate(groups):
                if idx < pos + len(g):
                    break
                pos += len(g)
            g = groups[gi]
            bad = g[min(idx - pos, len(g) - 1)]
            # re-run before reporting: the offending execution alone must be rejected again
            solo = os.path.join(self.work, "solo-%d.ndjson" % rounds)
            open(solo, "w").write("\n".join(g) + "\n")
            ok2, _, _ = self.validate(module, solo, cfg=(rest_cfg or cfg), env=env)
            if ok2:
                raise EngineError("trace rejection at line %d of %s did not repeat in isolation" % (idx + 1, cur))
            gl = [json.loads(x) for x in g]
            key = key_of(gl, json.loads(bad))
            what = what_of(gl, json.loads(bad)) if what_of else "trace rejected by %s at event %s" % (module, bad[:300])
            self.violation(key, what, {"trace_spec": module, "rejected_event": json.loads(bad), "execution": gl[:200]})
            rejected += 1
            groups = groups[gi + 1:]      # continue with the executions after the rejected one
            rounds += 1
            if rounds >= max_rejections:
                self.notes.append("stopped after %d rejected executions; %d executions not validated" % (rounds, len(groups)))
                n_exec -= len(groups)
                break
            cur = os.path.join(self.work, "rest-%d.ndjson" % rounds)
            open(cur, "w").write("\n".join(l for g2 in groups for l in g2) + "\n")
        self.cov["traces_validated_against_impl"] += n_exec
        self.cov["trace_events"] += len(lines)
        return n_exec - rejected

    def validate_collect(self, module, trace_path, key_of, cfg=None, env=None, what_of=None, max_report=None):
        """For trace specs whose events are independent and which collect the line numbers of rejected events in a TLC register
        (printed as <<"REJECTED-EVENTS", <<...>>>> by the postcondition): one TLC run, every rejected event becomes a violation."""
        lines = [l for l in open(trace_path).read().splitlines() if l.strip()]
        e = {"TRACE": trace_path}
        e.update(env or {})
        r = tlc(module, cfg, env=e, workers=1, metaroot=self.work, timeout=1800)
        self.cov["tlc_runs"].append({"module": module, "trace": os.path.basename(trace_path), "events": len(lines), "generated": r.generated, "distinct": r.distinct, "depth": r.depth})
        self.cov["states"] += r.distinct
        self.cov["transitions"] += r.generated
        m = re.search(r'<<\s*"REJECTED-EVENTS",\s*<<(.*?)>>\s*>>', r.out, re.S)
        if r.rc == 124 or "Parsing or semantic analysis failed" in r.out or m is None or r.depth - 1 != len(lines):
            raise EngineError("trace validation %s failed to run to the end:\n%s" % (module, r.out[-3000:]))
        rejected = [int(x) for x in re.findall(r"\d+", m.group(1))]
        for i in (rejected if max_report is None else rejected[:max_report]):
            bad = json.loads(lines[i - 1])
            self.violation(key_of([bad], bad), what_of([bad], bad) if what_of else "event rejected by %s: %s" % (module, lines[i - 1][:300]), {"trace_spec": module, "rejected_event": bad})
        self.cov["traces_validated_against_impl"] += len(lines)
        self.cov["trace_events"] += len(lines)
        return rejected

    # ---- results
    def count(self, n_eval, distinct_keys=()):
        self.cov["evaluations"] += n_eval
        for k in distinct_keys:
            self._distinct.add(k)

    def sample(self, s):
        if len(self.cov["samples"]) < 12:
            self.cov["samples"].append(s)

    def drift(self, what):
        if len(self.cov["model_drift"]) < 50:
            self.cov["model_drift"].append(what)
        print("NOTE model-drift %s" % what)

    def violation(self, key, what, payload=None):
        for f in self.findings:
            if f.get("key") == key or (f.get("key_prefix") and key.startswith(f["key_prefix"])) or key in f.get("keys", ()):
                fid = f.get("key") or f.get("key_prefix") or f.get("id") or key
                if fid not in [k for k, _ in self.known]:      # one KNOWN-FINDING line per listed finding
                    self.known.append((fid, f.get("what", what)))
                return
        if len(self.violations) < 200:
            self.violations.append((key, what, payload))

    def finish(self):
        wall = time.time() - self.t0
        c = self.cov
        c["distinct_nontrivial"] = max(c["distinct_nontrivial"], len(self._distinct))
        if not c["samples"]:
            c["samples"] = ["(no sample recorded)"]
        os.makedirs(os.path.join(OUTROOT, "evidence"), exist_ok=True)
        rc = 0
        seen = set()
        for key, what in self.known:
            print("KNOWN-FINDING: property=%s %s [%s]" % (self.pid, what, key))
        if self.violations:
            rdir = os.path.join(OUTROOT, "replays", self.pid)
            os.makedirs(rdir, exist_ok=True)
            for i, (key, what, payload) in enumerate(self.violations):
                if key in seen:
                    continue
                seen.add(key)
                h = hashlib.sha256(key.encode()).hexdigest()[:10]
                path = os.path.join(rdir, "%s-%s.json" % (self.tier, h))
                with open(path, "w") as fh:
                    json.dump({"property": self.pid, "key": key, "what": what, "seed": self.seed, "tier": self.tier,
                               "payload": payload}, fh, indent=1, default=str)
                if len(seen) <= 20:
                    print("VIOLATION property=%s replay=%s  # %s" % (self.pid, path, what[:400]))
            rc = 1
        ev = {"property_id": self.pid, "tier": self.tier, "seed": self.seed, "level": "model_checking",
              "coverage": c, "assumptions": self.assumptions, "wall_s": round(wall, 2),
              "violations": len(seen), "known_findings_hit": [k for k, _ in self.known], "notes": self.notes}
        with open(os.path.join(OUTROOT, "evidence", self.pid + ".json"), "w") as fh:
            json.dump(ev, fh, indent=1, default=str)
        shutil.rmtree(self.work, ignore_errors=True)
        print("%s %s tier=%s seed=%d states=%d transitions=%d traces=%d replayed=%d wall=%.1fs" % (
            "FAIL" if rc else "PASS", self.pid, self.tier, self.seed, c["states"], c["transitions"],
            c["traces_validated_against_impl"], c["replayed_cases"], wall))
        return rc


def run_exe(cmd, timeout=600, env=None, stdin=None):
    e = dict(os.environ)
    e.update(env or {})
    try:
        r = subprocess.run(cmd, stdout=subprocess.PIPE, stderr=subprocess.PIPE, text=True, timeout=timeout, env=e, input=stdin, errors="replace")
        return r.returncode, r.stdout, r.stderr
    except subprocess.TimeoutExpired as ex:
        return -999, (ex.stdout or ""), (ex.stderr or "")
