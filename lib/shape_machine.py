"""Shape machine (spec/Shape.tla): TLC generates behaviours of one Matrix and one Vector under the size-changing interface,
harness/shape.cpp drives the real objects along them, spec/Trace_Shape.tla accepts each recorded (pre, action, post)."""
import json
import os

import vf


def _convert(src, dst, append=False):
    n = 0
    with open(dst, "a" if append else "w") as fh:
        for line in open(src):
            if line.strip():
                fh.write(json.dumps(vf.unescape_csv_json_line(line)) + "\n")
                n += 1
    return n


def run(ctx, probes=True, variants=None):
    w = ctx.work
    beh = os.path.join(w, "shape_behaviours.ndjson")
    out = os.path.join(w, "shape_export.out")
    # (1) the model: Rep holds in every state of the bounded machine; behaviours exported for replay
    if ctx.quick():
        r = ctx.mc("MC_Shape", "MC_Shape.cfg", env={"MODE": "leaves", "OUT": out})
        n = _convert(out, beh)
        rule = "every action sequence of length 2 from the default objects (%d behaviours)" % n
        nwalk = 25
    else:
        r = ctx.mc("MC_Shape", "MC_Shape_trans.cfg", env={"MODE": "trans", "OUT": out})
        n = _convert(out, beh)
        rule = "one behaviour for every transition out of every distinct state reachable in at most 2 steps (%d behaviours)" % n
        nwalk = 400
    os.remove(out)
    # random behaviours of length 12 by TLC's simulator (the last step is exported for every enabled action)
    rs = vf.tlc("MC_Shape", "MC_Shape_walk.cfg", env={"MODE": "walk", "OUT": out}, workers=2, metaroot=w,
                extra=["-simulate", "num=%d" % nwalk, "-depth", "12", "-seed", str(ctx.seed)], timeout=900)
    if rs.rc != 0 or "Error" in rs.out:
        raise vf.EngineError("MC_Shape simulation failed:\n" + rs.out[-2000:])
    nw = _convert(out, beh, append=True)
    os.remove(out)
    ctx.cov["tlc_runs"].append({"module": "MC_Shape", "cfg": "MC_Shape_walk.cfg -simulate", "behaviours": nw})
    with open(beh) as fh:
        ctx.sample({"shape_behaviour": json.loads(fh.readline())})
    # (2) the real objects
    total = 0
    for variant in (variants or (["gcc"] if ctx.quick() else ["gcc", "asan"])):
        exe = ctx.harness("shape", variant=variant)
        trace = os.path.join(w, "shape_trace_%s.ndjson" % variant)
        env = {"ASAN_OPTIONS": "detect_leaks=0:abort_on_error=0:exitcode=99", "UBSAN_OPTIONS": "print_stacktrace=0"}
        rc, o, err = vf.run_exe([exe, beh, trace, "1" if probes else "0"], timeout=3300, env=env)
        died = [l for l in err.splitlines() if l.startswith("VERIF-DIED")]
        if died:
            ctx.violation("shape machine (%s build): %s" % (variant, died[0][:200]),
                          "the library stopped or crashed inside an action that spec/Shape.tla enables (a meaningful request): " + died[0][:400],
                          {"variant": variant})
        elif rc != 0:
            raise vf.EngineError("shape harness (%s) rc=%s %s" % (variant, rc, err[-1500:]))

        def key_of(execu, bad):
            if bad["e"] == "Tr":
                return "shape %s(%s,%s,%s) after %s" % (bad["a"], bad["x"], bad["y"], bad["z"], bad["hist"][:-1].rsplit(";", 1)[0][-80:] if ";" in bad["hist"][:-1] else "start")
            return "shape probe %s(%s,%s) on %sx%s/%s after %s -> %s" % (bad["p"], bad["i"], bad["j"], bad["st"]["r"], bad["st"]["c"], bad["st"]["n"], bad["hist"][-80:], bad["how"])

        def what_of(execu, bad):
            if bad["e"] == "Tr":
                return ("history %s: the objects observed after the last action (%s build) are not the state spec/Shape.tla assigns: pre=%s post=%s"
                        % (bad["hist"], variant, json.dumps(bad["pre"]), json.dumps(bad["post"])))
            return ("history %s: request %s(i=%s,j=%s) on the objects %s (%s build) %s; spec/Shape.tla Meaningful decides otherwise"
                    % (bad["hist"], bad["p"], bad["i"], bad["j"], json.dumps(bad["st"]), variant, bad["how"]))

        if os.path.exists(trace) and os.path.getsize(trace) > 0:
            with open(trace) as fh:
                ctx.sample({"shape_event": json.loads(fh.readline())})
            # TLC holds the whole trace: validate in slices of 150k events
            lines = open(trace).read().splitlines()
            for k in range(0, len(lines), 150000):
                part = trace + ".part%d" % (k // 150000)
                with open(part, "w") as fh:
                    fh.write("\n".join(lines[k:k + 150000]) + "\n")
                rej = ctx.validate_collect("Trace_Shape", part, key_of, what_of=what_of, max_report=12)
                os.remove(part)
            total += len(lines)
    ctx.count(total)
    return rule, total
