"""Pure calls (spec/Pure.tla): the value-taking free functions a property talks about return, after any history of calls in the
same process, exactly what they return in a process without history.  harness/pure.cpp records, spec/Trace_Pure.tla decides."""
import json
import os

import vf


def run(ctx, group=None):
    group = group or ctx.pid
    exe = ctx.harness("pure")
    trace = os.path.join(ctx.work, "pure_trace.ndjson")
    rc, out, err = vf.run_exe([exe, group, str(ctx.seed), ctx.tier, trace], timeout=1500)
    if rc != 0:
        raise vf.EngineError("pure harness rc=%s %s" % (rc, err[-1500:]))

    def key_of(execu, bad):
        return "history dependence: %s argument tuple %s %s" % (bad["fn"], bad["a"], "ended the process" if bad["e"] == "Died" else "returned another value")

    def what_of(execu, bad):
        if bad["e"] == "Died":
            return ("%s (argument tuple %s of harness/pure.cpp) returns in a process without history but ended the process (status %s) after a history of other calls"
                    % (bad["fn"], bad["a"], bad.get("status")))
        return ("%s (argument tuple %s of harness/pure.cpp) returned %s after a history of other calls in the same process, not the value it returns in a fresh process"
                % (bad["fn"], bad["a"], bad.get("out", "")[:64]))

    n = sum(1 for _ in open(trace))
    with open(trace) as fh:
        ctx.sample({"pure_call_event": json.loads(fh.readline())})
    ctx.validate_collect("Trace_Pure", trace, key_of, what_of=what_of, max_report=8)
    return n
