"""Per-property metadata used to generate MANIFEST.json (bin/mkmanifest)."""
TECH = "explicit TLA+ specification model-checked with TLC, bound to the C++ code by replay of TLC-exported behaviours and by validation of recorded traces against a trace specification"

REG = {
 "C09": dict(
    engine="spec/Locate.tla, MC_Locate.tla, MC_Locate2.tla, Trace_Locate.tla; harness/c09.cpp",
    design_ref="DESIGN.md §4.9",
    text="TLC proves, for every table size N=3..40 and every reachable cache state x position code, that the transcription of "
         "Bisection/Hunt/Locate returns a segment containing the argument, never reads outside the table and returns the same "
         "segment whatever the cache holds (also for every entry point's Locate sequence on a pool of objects with copies). "
         "Every transition of that state graph is replayed through the public Locate() of a real object; long random call "
         "histories recorded from the real code are validated against a trace specification that has no cache variable at all "
         "(each answer must equal a fresh object's answer bit for bit, within rounding at tabulated abscissae, and scale by "
         "exactly the prefactor the specification tracks).",
    note="Bounded: model N<=40, pool of 2; replay N in {3,4,5,11,12,13,25,40}; recorded histories use tables of 3..2000 points and "
         "prefactors +-2^k. Trusted: TLC, the recorder's projection of real arguments to position codes (std::lower_bound), "
         "IEEE exactness of power-of-two scaling. The cache fields themselves are not observed (no hook): the algorithm-level "
         "model is bound through Locate's return value only, disagreement there is reported as model drift, not as a violation. Added late: 2D tables taller than wide as often as wide, and jumps between cells that a wrongly strided flattened cell number would identify.",
    technique="TLA+ state machine of the index-search cache (TLC exhaustive) + per-transition replay + trace validation of recorded call histories"),
 "C19": dict(
    engine="spec/Helpers.tla, WDCore.tla, proofs/WD_Proof.tla (TLAPS), MC_Helpers.tla (+5 cfgs), Trace_Helpers.tla, Rat.tla; harness/c19.cpp",
    design_ref="DESIGN.md §4.19",
    text="TLC proves on the specification that the quotient/remainder algorithm of Workload_Distribution refines the property-level "
         "spec on the complete 128x1024 grid, that the upper_bound search refines 'an index of a nearest element' for every sorted list "
         "(with duplicates) and target, and checks the laws of the list templates and exact-rational statistics; it exports every case "
         "with its exact expected result (Range sequences, list results, mean/median/variance/weighted mean as rationals) which a C++ "
         "replayer pushes through the real functions. Results of Workload_Distribution, Locate_Closest_Location, Range, Linear_Space, "
         "Log_Space and statistics relations recorded from the real code are validated event by event against Trace_Helpers.",
    note="Exhaustive parts: (w,t)<=128x1024 in the model, recorded grid 24x96 + 1500 random (quick) / full grid (thorough); Range "
         "[-12,12]^2 x 1..13 exported (quick), random/full [-40,40]^2 x 1..40 recorded; lists <=5 over {0,1,2}; data sets <=5 over -2..2 and "
         "one pseudo-random set of length 1..200. Real-valued Linear/Log_Space and statistics laws are accepted through integer-quantised "
         "residuals computed by the recorder (units of 64 eps x data scale). Trusted: TLC, recorder projection code.",
    technique="TLA+ specification of each helper (algorithm refines property, TLC exhaustive; Workload_Distribution additionally proved for all arguments with TLAPS), replay of exported exact cases, trace validation of recorded results"),
 "C04": dict(
    engine="spec/LinAlg.tla, MC_LinAlg.tla, Trace_LinAlg.tla, Shape.tla, MC_Shape.tla, Trace_Shape.tla; harness/c04.cpp, harness/shape.cpp",
    design_ref="DESIGN.md §4.4",
    text="The specification defines every Vector/Matrix operation over the integers and when it is defined; TLC checks the algebraic "
         "laws the statement lists on those definitions for all shape triples <=4 (5 thorough). Every operation, in every spelling "
         "(member, operator, compound assignment, free operator), is executed by the real library on every shape triple <=5 and random "
         "shapes to 8 with integer operands scaled by powers of two, and on every pairing of shapes <=3 (4 thorough) for the "
         "'defined exactly when' clause; each recorded call is accepted by Trace_LinAlg only if returned <=> defined and the result "
         "equals the definition exactly, and a rejection must be an exit with diagnostic, never a memory error.",
    note="Entries are small integers times 2^k (exact in double): rounding behaviour of sums of general reals is not exercised. "
         "Norm() is compared through round(Norm()^2). Trusted: TLC, the recorder's exact rescaling, fork-based outcome classification.",
    technique="TLA+ definitions of the algebra (laws checked by TLC) + trace validation of every operation/spelling/shape recorded from the library; TLA+ state machine of the objects under size-changing calls (Shape.tla): TLC-generated behaviours replayed in the real objects, each (pre, action, post) trace-validated"),
 "C10": dict(
    engine="spec/Guards.tla, MC_Guards.tla, Trace_Guards.tla, Shape.tla, MC_Shape.tla, Trace_Shape.tla; harness/c10.cpp, harness/shape.cpp",
    design_ref="DESIGN.md §4.10, Appendix C",
    text="Guards.tla is a decision table: 1562 requests over 51 guarded entry points with abstract arguments on both sides of every "
         "guard, and Meaningful(request) written from the mathematics. TLC enumerates the table, checks that every entry point is "
         "exercised on both sides (non-vacuity) and exports it; each request is executed by the real library in its own child process "
         "and the recorded outcome is validated against Trace_Guards: meaningful <=> returns, a refusal has a failure status and a "
         "non-empty diagnostic, and no request ends in a signal, libstdc++ assertion or sanitizer report.",
    note="quick: g++ -D_GLIBCXX_ASSERTIONS build; thorough: additionally clang++ -fsanitize=address,undefined. Requests outside the "
         "enumerated abstract domains are not decided. Rows where the statement leaves the outcome open (two-point axes of the 2D "
         "table, cdf in {0,1} for Inv_CDF_Poisson, Inv_Erf(1), envelope exceeded by <1%) accept either outcome but never a memory error. Added late: every Method request also with an empty outermost integration range (the name is still judged), Method3D for both Integrate_3D overloads.",
    technique="TLA+ decision-table specification enumerated by TLC; every request executed in a child process and its outcome trace-validated; object histories from the TLA+ state machine Shape.tla (behaviours generated by TLC, replayed in the real objects, probes of every guard on the objects as they are now)"),
 "C01": dict(
    engine="spec/Steffen.tla, MC_Steffen.tla, Bilinear.tla, MC_Bilinear.tla, Trace_Interp.tla, Rat.tla; harness/interp.cpp",
    design_ref="DESIGN.md §4.1",
    text="Steffen.tla transcribes Compute_Steffen_Coefficients / Interpolate / Derivative in exact rational arithmetic; TLC proves on "
         "every table of the lattice (all tables with <=4 knots, quick, <=5 thorough, spacings {1,2,3}, ordinates -2..2, plus non-uniform "
         "parabola tables where the limiter is inactive) that knots are reproduced, every piece is monotone (derivative quadratic checked "
         "at both ends and its vertex), the curve is C1, lines and unlimited parabola pieces are exact; Bilinear.tla does the same for "
         "every 2D cell. Every lattice table/cell is exported with exact values and replayed through both constructors, unit factors and "
         "power-of-two rescalings of either axis by 2^+-66 (bit-identical outputs required). Random real-valued tables from the "
         "property's quantifier are observed interval by interval and cell by cell and validated against Trace_Interp, whose state "
         "machine also requires that every interval of every table was observed.",
    note="Exact on the lattice; on real-valued tables monotonicity/bounds are observed at 66 points per interval (incl. nextafter "
         "neighbours of the knots), derivative consistency through a cubic reconstructed from four samples. Agreement with Steffen's "
         "particular slopes where the limiter is active is reported as model drift only. Trusted: TLC, the recorder's quantisation.",
    technique="exact-rational TLA+ transcription of the Steffen construction (TLC exhaustive on a table lattice) + replay of exported tables + trace validation of recorded per-interval observations"),
 "C08": dict(
    engine="spec/Steffen.tla, MC_Spline.tla (2 cfgs), MC_Steffen.tla, Trace_Spline.tla; harness/interp.cpp",
    design_ref="DESIGN.md §4.8",
    text="MC_Spline models Integrate as the code computes it (sum of per-piece antiderivative differences with partial end pieces) and "
         "the extrema as end values plus tabulated points in range times the prefactor; TLC proves on the exact model that this equals "
         "the cumulative integral (hence additivity and antisymmetry), that no lattice evaluation leaves the reported extrema, that the "
         "integral is bounded by extrema x length, for every lattice table, limit pair and prefactor reachable by Set_Prefactor/Multiply "
         "histories. Integrals and extrema between all knot pairs under seven prefactors are replayed against exact values; recorded "
         "histories on real-valued tables are validated against Trace_Spline, which tracks the prefactor and demands exact scaling, "
         "additivity, exact antisymmetry, agreement with an exact per-piece quadrature of Interpolate's own values, and attained, "
         "never-exceeded extrema (min/max exchanged under negative prefactors).",
    note="Rounding allowance for integrals: 2048 eps x |prefactor| x max|ordinate| x total width of the pieces touched. Extrema are "
         "queried inside the tabulated domain only (the 1% extrapolation zone is not covered for extrema). Prefactors in recorded "
         "histories are +-2^k; subnormal results are exempt from the exact-scaling clause.",
    technique="exact-rational TLA+ model of the piecewise antiderivative and extrema with a prefactor state machine (TLC) + replay + trace validation of recorded histories"),
 "C03": dict(
    engine="spec/Simpson.tla, MC_Simpson.tla, MC_SimpsonPanel.tla, Trace_Simpson.tla; harness/c03.cpp",
    design_ref="DESIGN.md §4.3",
    text="Simpson.tla models the recursion as a machine over dyadic frames; TLC explores every adaptive bisection tree for depth limits "
         "0..3 (0..4 thorough) with the environment choosing accept/recurse and proves the evaluation-count bound 2^(depth+2)+1, "
         "containment of all abscissae and closure of the tree. MC_SimpsonPanel proves in exact rationals that the accepted value "
         "S2+(S2-S)/15 of a panel IS the exact integral of every monomial of degree <=5 (and is not for degree 6) and that the "
         "estimate handed to a child is that child's own Simpson estimate, hence exactness on quintics for any epsilon and depth. "
         "Recorded executions of the real Integrate (wrapped integrand; polynomials, estimator-regular families with closed-form "
         "integrals, arbitrary integrands; both orientations, equal limits, +-epsilon, depths 0..25) are validated against "
         "Trace_Simpson: every pair of evaluations must be the quarter points of an enabled frame, counts/closure/containment hold, "
         "swapping limits negates bit-exactly, the sign of epsilon is irrelevant bit-exactly, quintics are exact to rounding and "
         "regular integrands are within 4 eps when no non-convergence warning was printed.",
    note="The 4-epsilon clause is decided on generated families with planted closed-form integrals (exp, cosh, (x+s)^-k, (x+s)^p) and "
         "read as conditional on the absence of the library's non-convergence warning. Rounding allowance: 64(depth+4) eps (b-a) max|f| "
         "+ 64 eps max|x| max|f|. Executions needing more than 3e6 evaluations are abandoned (counted in the evidence); executions with "
         "more than 4000 evaluations are validated without their individual Panel events.",
    technique="TLA+ frame machine of the adaptive recursion (TLC exhaustive over bisection trees) + exact-rational panel identity + trace validation of recorded executions"),
 "C05": dict(
    engine="spec/Elim.tla, MC_Elim.tla (2 cfgs), Trace_Elim.tla, LinAlg.tla; harness/c05.cpp",
    design_ref="DESIGN.md §4.5",
    text="Elim.tla computes the determinant by fraction-free elimination with row exchange and the inverse as adjugate/determinant in "
         "exact integer arithmetic. TLC checks the determinant laws of the statement (multiplicative, transpose-invariant, sign change "
         "under a row swap, product of the diagonal for triangular matrices, M adj(M) = det(M) I) on every 2x2 matrix over -2..2, every "
         "3x3 matrix over -1..1 and ten structured families of sizes 1..7 (dense, permutation, signed permutation, zero leading minors, "
         "a pivot of 1 against entries ~2e4, triangular, diagonal, symmetric, rank deficient) and exports each matrix with exact "
         "determinant and adjugate. The replayer runs Determinant, Invertible and Inverse of the real library on each matrix, plain, "
         "under power-of-two row/column gradings (condition to ~1e8) and under non-dyadic scalings, and Trace_Elim accepts a case only "
         "if Invertible <=> exact det # 0, Inverse returns exactly for the invertible ones (else exit with diagnostic), and the "
         "quantised errors of determinant, inverse and both residuals are within 64 n kappa eps (kappa from the exact inverse).",
    note="Entries are integers times scalings; matrices with general real entries are reached only through those scalings. Exactly "
         "singular matrices are not combined with non-dyadic scalings (rounding makes them regular). Non-square inputs are covered by C10.",
    technique="exact integer elimination in TLA+ (laws checked by TLC), export of matrices with exact determinant/adjugate, replay through the real Inverse/Determinant with trace-validated acceptance"),
 "C06": dict(
    engine="spec/Gamma.tla, Big.tla, MC_Gamma.tla (4 cfgs), Trace_Gamma.tla; harness/c06.cpp",
    design_ref="DESIGN.md §4.6",
    text="Gamma.tla holds the rational part of the family in arbitrary-precision integers (Big.tla): the Factorial memo table as a state "
         "machine (TLC explores every call history of length 3 over ten boundary arguments: the value returned is n! whatever the table "
         "held, entries never change), n! and Gamma(n+1/2)/sqrt(pi) for all n<=170, Pascal's triangle to row 400 (symmetry, agreement with "
         "n!/(k!(n-k)!)), and the exact series of Q(x,a) at integer and half-integer a and half-integer x, run as a Horner state machine and "
         "checked against its recursive definition, the recurrence in a and monotonicity in a. Every exported value is replayed through "
         "Factorial (with the table length observed before and after each call), Gamma, GammaLn, Binomial_Coefficient, GammaQ/GammaP and the "
         "incomplete gammas; random real arguments are recorded as relations (Gamma recurrence, agreement of GammaLn with lgammal, P,Q in "
         "[0,1], P+Q=1, Q non-increasing on ascending x grids dense at x=a+1, recurrence Q(x,a+1)-Q(x,a)=x^a e^-x/Gamma(a+1) across the a=100 "
         "switch, Upper+Lower=Gamma, round trips of Inv_GammaP/Inv_GammaQ); Trace_Gamma drives the memo machine with the recorded calls and "
         "accepts residuals only in the unit the statement prescribes for the parameter (1e-12 / 1e-3 at a=100, 1e-7 / 1e-3 for inverses).",
    note="The exact reference covers integer and half-integer a up to 400 (1000 thorough) on ~40 abscissae each; other real a are decided through "
         "relations between the library's own values only. Binomial_Coefficient for n>170 (exp(GammaLn) path) is accepted within 64 eps ln(n!) "
         "relative, 32 eps below; Factorial within 16 eps. Inverse round trips are skipped where the quantile underflows (a<0.06, p<P(1e-290,a)). "
         "Trusted: TLC, libm long-double expl/erfcl/sqrtl/logl/lgammal. The memo table is observed through a weak reference; when a build does not export it, histories run in fresh processes and only values are judged.",
    technique="arbitrary-precision TLA+ specification of the rational part of the Gamma family (TLC: memo-table state machine, Pascal, exact Q series as a Horner machine) + replay of exported exact values + trace validation of recorded relations"),
 "C02": dict(
    engine="spec/Ridder.tla, MC_Ridder.tla, Trace_Root.tla (2 cfgs); harness/c02.cpp",
    design_ref="DESIGN.md §4.2",
    text="Ridder.tla is Find_Root as a state machine on a finite ordered grid (which is what floating-point abscissae are) with the function known "
         "through its sign: ends and sign checks, midpoint with either rounding, x4 anywhere between the midpoint and the bracket end on the root's side, "
         "the code's three re-bracketing cases, the stopping rule and the iteration cap. TLC explores every root configuration (a zero at a position, "
         "a sign change between positions, every triple of sign changes, brackets without sign change), accuracy and non-deterministic choice and proves: "
         "the bracket always holds a sign change, brackets are nested and at least halve per iteration, nothing is evaluated outside, the 'does not reach "
         "the root' exit is dead, zero ends are returned as is, exits happen exactly without sign change, and the returned position has a sign change "
         "within the accuracy -- for the verified stopping rule; for the pinned rule (successive iterates) TLC refutes that last invariant, which is the "
         "defect repaired in /repo. Recorded executions of the real Find_Root (wrapped function, twelve continuous families, both argument orders, widths "
         "1e-9..1e12, accuracies from 1e-14|root| to the width) are ranked and validated against Trace_Root: evaluations inside the bracket, ends first, "
         "zero end returned without further evaluation, sign change or zero within the accuracy of the returned point, identical bits for both orders, "
         "linear functions solved to rounding, rejected brackets exit with status and diagnostic.",
    note="The accuracy clause is witnessed by the function's own signs on 65 samples of [x-acc, x+acc] or by a planted root; continuity is assumed of the "
         "generated families. The algorithm-level structure (x3 inside, x4 on the root's side, probes) is checked by a second configuration of the trace "
         "specification and reported as model drift only. Function values that overflow are not generated.",
    technique="TLA+ state machine of Ridder's method on an ordered grid (TLC exhaustive over root configurations and non-deterministic iterates; refutes the pinned stopping rule) + trace validation of recorded executions in rank space"),
 "C12": dict(
    engine="spec/GaussLegendre.tla, MC_GL.tla (3 cfgs), Trace_GL.tla, Rat.tla, Big.tla; harness/c12.cpp",
    design_ref="DESIGN.md §4.12",
    text="GaussLegendre.tla models the two order-dependent mechanisms of the rule construction: the slot-filling loop (i and n-1-i for i<(n+1) div 2; TLC: every "
         "slot of every n<=512 is written, mirrored slots together, nothing outside) and the affine map of a symmetric half-rule to [a,b] (TLC on rational stand-in "
         "rules of 1..5 nodes over every integer interval in -3..3, both orientations: ordered in the direction of integration, symmetric about the midpoint, weights "
         "carry the orientation and sum to b-a, reversed limits give the mirror image with negated weights), and exports exact moments (b-a)^(k+1)/(k+1). The "
         "recorder computes the real rule for EVERY order n=1..512 on [-1,1], on random intervals (offset/width up to 1e6, reversed) and for sampled orders up to "
         "4000; Trace_GL requires the orders to arrive without gaps and accepts a rule only if nodes are strictly monotone and strictly inside, symmetric, weights of "
         "the right sign, symmetric, summing to b-a, exact on every Legendre polynomial of the interval up to degree 2n-1 and on monomials to degree 60, NOT exact "
         "one degree beyond, the three overloads agree, the reversed rule is the negated mirror image; length mismatches exit with a diagnostic.",
    note="Residual allowances (512+4 sqrt n) eps L / (256+4n) eps L + 8n eps M are calibrated to the implementation's Newton tolerance 1e-14 (weights use the derivative "
         "at the last-but-one iterate): about 2-4x the largest residual observed. Nodes are characterised through exactness, not compared with tabulated Legendre roots.",
    technique="TLA+ model of the slot-filling loop and of the affine map of symmetric rules (TLC exhaustive over orders / rational stand-in rules), exact moments, and trace validation of rules recorded for every order 1..512 and sampled orders to 4000"),
 "C14": dict(
    engine="spec/MonteCarlo.tla, MC_MonteCarlo.tla (2 cfgs), VegasStatics.tla, Trace_MC.tla; harness/c14.cpp; hook verif_mc_seed in src/Integration.cpp",
    design_ref="DESIGN.md §4.14",
    text="The specification of an integration has no history variable: Trace_MC keeps only a memo from call keys (method, dimension, region, budget, integrand, seed) to "
         "result bits and accepts a recorded call only if the integrand was never evaluated outside the hyper-rectangle and the bits agree with every earlier execution of "
         "the same key. Every observed call is executed in a fresh process and again after a random history of 1..4 other integrations of differing method, dimension, "
         "region and budget (seed hook), so history dependence of Vegas' function-local statics or Miser's private generator rejects the trace. MonteCarlo.tla also models "
         "Miser's generator as the code uses it (advanced per dimension in every node, picks the split dimension of flat nodes): TLC refutes history freedom when the state "
         "is carried across calls (the pinned code, repaired in /repo) and proves it with a per-call reset; VegasStatics.tla is a taint analysis of the forty function-local statics of Vegas (block-wise read and write sets): entered with init = 0 no stale object is read, restarts read the previous grid by design, the tail of the work vector handed to the integrand stays stale. Constants are accepted against c*V within the rounding of the "
         "sum, smooth integrands (exponential, off-centre Gaussian, polynomial; 1..6 dimensions, offset anisotropic regions of widths 1e-3..1e3) within six standard errors "
         "of the mean of 32 seeded repetitions, and the 2D/3D front ends on boxes with disjoint limit ranges per axis (every argument inside its own pair of limits).",
    note="Statistical clauses use fixed seeds. Budgets 1e3..6e4 (quick) rather than up to 1e6. Vegas called directly with init>0 (restart) is outside the statement. The vector handed to the integrand by Vegas has 10 "
         "entries; only the first `dimension` are checked for containment.",
    technique="TLA+ memo specification without history variable + model of Miser's generator state (TLC: refuted without reset, proved with) + trace validation of calls recorded in fresh processes and after random histories (seed hook)"),
 "C13": dict(
    engine="spec/NestedQuad.tla, MC_Nested.tla, Trace_Nested.tla, Rat.tla; harness/c13.cpp",
    design_ref="DESIGN.md §4.13",
    text="NestedQuad.tla computes the exact rational integral of separable integer polynomials over integer boxes whose axes have disjoint ranges, the orientation sign, "
         "and the number of integrand evaluations of the fixed-order rules (order^dim, order taken from the method parameter); its nest machine states the wiring invariant "
         "(component k of every leaf carries axis k). TLC enumerates method x dimension x orientation pattern x parameter x polynomial triple and exports each case; the "
         "replayer runs Integrate / Integrate_2D / Integrate_3D with a wrapper that reports arguments outside the range of their own axis and counts calls. Trace_Nested "
         "accepts a case only if no argument was mis-wired, fixed-order rules made exactly order^dim calls (so the parameter reaches every level), the value with its sign is "
         "within the method's tolerance. Recorded smooth families (damped oscillation, rational, Gaussian) check each method's accuracy, bit-exact negation under reversed "
         "limits, zero for equal limits and containment; the spherical overload is checked on shells and angular sub-ranges through the norm, polar cosine and azimuth of "
         "every vector handed to the integrand and the closed-form value.",
    note="Accuracy is relative to the L1 norm of the integrand; non-polynomial families are restricted to parameter ranges where fixed-order rules are regular. Nested 3D "
         "Trapezoidal is not executed (8.6e9 evaluations). A known finding is listed for Trapezoidal (about 7e-6 instead of 1e-6 on damped oscillations). Monte-Carlo "
         "methods of the 2D/3D front ends are decided by C14.",
    technique="exact-rational TLA+ model of separable nested integrals with a wiring invariant (TLC enumerates method x dimension x orientation x parameter), replay of exported cases with an argument-range-checking integrand, trace validation"),
 "C18": dict(
    engine="spec/Samplers.tla, MC_Samplers.tla, Trace_Samplers.tla; harness/c18.cpp",
    design_ref="DESIGN.md §4.18",
    text="Samplers.tla keeps no state but a memo from (sampler, parameters, digest of the caller's generator state) to (digest of the outputs, digest of the state left "
         "behind): a recorded call is accepted only if it delivered exactly the requested number of samples, all inside the support or requested domain, changed the "
         "generator it was given, and agrees with every other call with the same triple. The recorder interleaves nine samplers (uniform, Gauss, Poisson scalar/vector "
         "incl. means above 500, inverse transform, rejection 1D/2D tight and loose, Metropolis 1D/2D bounded and unbounded) on one generator and repeats every call on a "
         "copy of the generator, immediately or after other samplers have run, so any hidden source of randomness or hidden state rejects the trace. The burn-in/thinning "
         "bookkeeping is modelled as the code does it and TLC proves 'exactly sample values' for every triple in 0..40; the real functions are run on the grid 0..8^3 "
         "(12^3 thorough) plus a sparse grid to 200. Goodness-of-fit p-values (KS / chi-square) of large samples must stay above 1e-9.",
    note="Law clauses are statistical (fixed seeds, 1e5 samples quick / 1e6 thorough; Metropolis thinned by 30). Digests are 64-bit: a collision could hide a difference with "
         "probability ~1e-16 per pair. thinning = 0 is outside the quantifier.",
    technique="TLA+ memo specification of sampling calls (no history variable) + model of the burn-in/thinning loop (TLC exhaustive) + trace validation of interleaved calls repeated on generator copies"),
 "C20": dict(
    engine="spec/ExportImport.tla, MC_ExportImport.tla, UnitsInit.tla, Trace_Files.tla, Big.tla; lib/units_parse.py; harness/c20.cpp, harness/units_print.cpp",
    design_ref="DESIGN.md §4.20",
    text="ExportImport.tla models the text file between Export_* and Import_* (lines of tokens; the reader skips lines, reads numeric tokens up to the first non-numeric one, "
         "infers rows = lines - skipped and columns = tokens div rows): TLC proves the round trip for every shape and header length in the bounds and that skipping too few lines "
         "never returns the table. Trace_Files drives that machine with recorded exports and imports of the real library (tables, lists, tabulated functions, multi-line headers "
         "containing numbers, per-column units over 60 decades, values over 600 decades): lines on disk, shape, every value within six significant digits, sign. UnitsInit.tla reads "
         "the unit definitions parsed from src/Natural_Units.cpp and (a) runs the initialisation machine in textual order (static iff no function call and all operands already "
         "static) and checks that no dynamic initialiser reads a dynamic constant defined later, (b) expands every definition to an exact decimal coefficient (arbitrary precision) "
         "times a power of GeV and compares it with the SI definition table written in the specification (Joule, Newton, Watt, Pa, erg, dyne, Volt, Ohm, Tesla, Hz, time, length, "
         "area, mass multiples...). The same constants are printed by programs built with g++ and clang++ at -O0 and -O2: non-zero, within 4 ulp of their defining product formed "
         "at run time, bit-identical in all four builds. All six In_Units overloads are checked element-wise against the scalar one and against Round.",
    note="Only the two installed compilers are covered. Definitions using M_PI, sqrt or non-integer powers are checked for initialisation order only. Values whose quotient by the unit "
         "leaves the normal range of doubles are not generated. Beyond the property (note level): Save_Function of both interpolation classes as exporters of the same file machine (ExportImport.tla SavedRows/SavedOK, Trace_Files!TSaved). The unit parser reads namespace-scope definitions only.",
    technique="TLA+ file machine (TLC exhaustive over shapes/headers) with trace validation of recorded round trips + TLA+ initialisation-order machine and exact arbitrary-precision unit algebra over the parsed source + four-build comparison of the constants"),
 "C16": dict(
    engine="spec/Geometry.tla, MC_Geometry.tla, Trace_Geometry.tla, Rat.tla; harness/c16.cpp",
    design_ref="DESIGN.md §4.16",
    text="With (cos, sin) from Pythagorean triples and unit axes from Pythagorean quadruples Rodrigues' matrix is rational: Geometry.tla builds it exactly and TLC checks, for 28 "
         "angles in all quadrants x 54 axes with every sign pattern, that it is proper orthogonal, fixes the axis, composes with a second rotation about the same axis by angle "
         "addition, and turns vectors perpendicular to the axis by the angle in the right-handed sense; plain spherical coordinates with rational sines and cosines have norm r. "
         "Every exact matrix is replayed through Rotation_Matrix with the axis scaled to a random length and the angle shifted by multiples of 2 pi. Recorded relations on random "
         "angles in [-4pi,4pi], axes on the sphere, along the coordinate directions, within 1e-16..1e-6 of +-z and exactly +-z, lengths 1e-6..1e6 (orthogonality, determinant, fixed "
         "axis, composition, turning angle and handedness, the 2D rotation, plain spherical components, axis-relative norm, polar angle and right-handed advance in phi) are accepted "
         "by Trace_Geometry, which also demands that every axis class was exercised and every result is finite.",
    note="Exact on the rational lattice; elsewhere residual bounds of 16-64 eps for rotations and 1e-12 (norm, polar cosine) / 1e-11 (handedness) for spherical coordinates. Beyond the property (note level): Angle, Normalize, Normalized (Trace_Geometry!TAux).",
    technique="exact-rational TLA+ model of Rodrigues rotations (TLC exhaustive on Pythagorean angles x axes), replay of the exact matrices, trace validation of recorded geometric relations per axis class"),
 "C17": dict(
    engine="spec/Scalars.tla, MC_Scalars.tla (3 cfgs), Trace_Scalars.tla, Rat.tla; harness/c17.cpp",
    design_ref="DESIGN.md §4.17",
    text="Scalars.tla holds the integer/rational part: half-up rounding of decimal mantissas to d digits (TLC: d significant digits, within half a unit, idempotent), decision "
         "tables of Sign, StepFunction, Sign(x,y), Relative_Difference and Floats_Equal on ten value classes (both zeros, tiny, huge, both signs; reflexive and symmetric), and the "
         "coefficient tables of the vector spherical harmonics derived from the ladder identities of cos(theta) Y_lm and sin(theta) exp(+-i phi) Y_lm (phase in {1,-1,i,-i} and a "
         "rational square; Psi = -l x the l+1 part, (l+1) x the l-1 part), for which TLC checks the completeness law sum |coef|^2 = 1 for every l<=12, |m|<=l. Every exported case is "
         "replayed: Round on m x 10^e over 600 decades and both signs (2 ulp, odd), the decision tables, every VSH_Y/Psi_Component (phase exactly, square to rounding). Recorded "
         "identities for EVERY (l,m), l<=12 (Trace_Scalars requires them in order) on poles, equator, axes and random directions: Y_{l,-m} = (-1)^m conj Y_lm, vector Y = rhat Y_lm, "
         "rhat.Psi = 0, Psi = r grad Y_lm by central differences; relations on random arguments for Round (half unit, idempotent, odd, monotone), Dawson (2e-7 against its defining "
         "integral, odd, both sides of |x|=0.2), Erfi (1e-6 relative), Inv_Erf (erf(x-1e-4) <= p <= erf(x+1e-4) up to 1-1e-12), Floats_Equal / Relative_Difference / Sign.",
    note="Dawson/Erfi are referred to a long-double quadrature of the defining integral (trusted harness code), Inv_Erf to libm erf. Ties of Round are excluded from the decimal replay. "
         "Erfi is checked for |x| < 26 (beyond, the value overflows).",
    technique="integer/rational TLA+ specification of Round, the comparison helpers and the VSH coefficient tables (TLC exhaustive with a completeness law), replay of exported cases, trace validation of harmonic identities for every (l,m) and of recorded relations"),
 "C11": dict(
    engine="spec/NelderMead.tla, MC_NelderMead.tla, Brent.tla, BrentCore.tla, Bracket.tla, MC_Bracket.tla, Trace_Min.tla (2 cfgs), Trace_Bracket.tla, Trace_FindMin.tla, Trace_NM.tla, "
           "proofs/Bracket_Proof.tla, proofs/Brent_Proof.tla (TLAPS), apalache/Bracket_Ind.tla (Apalache), Rat.tla; harness/c11.cpp",
    design_ref="DESIGN.md §4.11",
    text="NelderMead.tla transcribes Minimization::minimize in exact rational arithmetic (ranking with the code's tie rules, fractional-range test, amotry with factors -1, 2, 1/2 and "
         "its acceptance test, shrink, psum maintenance, nfunc accounting, final swap); on integer quadratics from integer simplices every quantity is dyadic, so the model follows the "
         "code's decisions exactly. TLC runs it on 60 objectives x starting simplices x two tolerances and proves: the vertex values are the objective at the vertices, the best value "
         "never increases, psum is the column sum, nfunc counts the evaluations, the best vertex ends in slot 0 and is not worse than any starting vertex. Every model run is replayed "
         "through the real minimize: the sequence of evaluated points, the returned vertex and nfunc agree exactly (1296/1296; a disagreement would be reported as model drift). Recorded "
         "executions: Find_Minimum/Find_Maximum on quadratic, quartic-flat, cosh, Lennard-Jones-like, sqrt(1+t^2) and multimodal objectives from any pair of starting abscissae (not worse "
         "than the start, Find_Maximum(-f) identical bits, within the distance implied by the tolerance and the flatness of f), and minimize (three overloads, in child processes) on "
         "convex bowls of dimension 1..6 and multimodal objectives (returns, not worse than the start, fmin/y/current_simplex consistent with the objective bit for bit, distance).",
    note="The distance clause for the simplex method is decided on a fixed stream of bowls (400 quick / 2000 thorough, independent of the seed); the unchanged code violates it on 141 of the "
         "2000 (termination on the fractional spread of the vertex values), which are listed one by one in the known finding, so any other failing case is reported. Shrink steps are "
         "exercised by the exact model through two-well objectives. Brent's loop is modelled abstractly (Brent.tla: trial point anywhere in the bracket at least tol1 from x; TLC: the minimiser stays bracketed, x is the best point evaluated, |x - m| <= 2 tol1 on return). "
         "The bracketing phase is Bracket.tla, one action per evaluation with positions and values as integers (every decision of the code is a comparison): TLC checks it on a grid for unimodal and bumped objectives and every admissible position of every proposed point, "
         "TLAPS proves its inductive invariant (triple strictly monotone, f(bx) <= f(ax), a bracketing triple on return) for every objective, and proves that Brent's bookkeeping keeps x, the better of x and the trial point, inside a never-growing bracket. "
         "Three rank traces bind these models to the code at the A level (model drift): executions of the bracketing phase through the guarded hook Verif_Bracket, whole executions of Find_Minimum/Find_Maximum (bracketing, hand-over, Brent bookkeeping), and whole executions of "
         "minimize on arbitrary objectives against the control structure of NelderMead.tla (ranking with tie rules, acceptance, expansion, contraction, shrink, reported y/nfunc/fmin).",
    technique="exact-rational TLA+ transcription of Nelder-Mead (TLC exhaustive on a lattice of quadratics, two-well objectives and simplices), per-run replay with exact comparison of evaluation sequences, trace validation of recorded minimisations; "
              "comparison-level TLA+ models of the bracketing phase and of Brent's bookkeeping (TLC on a grid, TLAPS for every objective) with rank-trace validation of recorded executions"),
 "C15": dict(
    engine="spec/Eigen.tla, MC_Eigen.tla, Trace_Eigen.tla, LinAlg.tla; harness/c15.cpp",
    design_ref="DESIGN.md §4.15",
    text="Eigen.tla assembles symmetric integer matrices from 1x1 and [[a,b],[b,a]] blocks with a planted even-integer spectrum and conjugates them with a permutation, so that "
         "eigenvectors have zero components in scattered positions; TLC checks exactly, for every block pattern of sizes 1..7, pool offset and permutation, that every planted pair "
         "satisfies M v = lambda v, the spectrum sums to the trace, is separated in magnitude and the vectors are orthogonal, and exports the matrices with their eigen-structure. Each "
         "matrix is run through Eigenvalues and Eigensystem in its own process with a time limit; Trace_Eigen accepts only if both return, the spectrum equals the planted one, there are "
         "n unit vectors with M v = lambda v and each is parallel to the planted eigenvector. The same acceptance (without planted vectors) is applied to random symmetric matrices "
         "Q diag(lambda) Q^T with ratios 0.1..0.8 of either sign, and QR_Decomposition is checked on random non-singular matrices of sizes 1..7 with condition numbers up to 1e6 "
         "(Q orthogonal, R upper triangular exactly, QR = M).",
    note="Spectrum within 1e-10 ||M||, residuals within 1e-11 ||M||: these reflect the library's own iteration thresholds rather than rounding. The Jacobi reference of the statement is "
         "replaced by planted spectra (the truth is an input). Determinant = product of eigenvalues is covered through the planted spectrum only. Every second Eigensystem case takes its vectors from the free function Eigenvectors.",
    technique="exact integer TLA+ model of symmetric matrices with planted eigen-structure (TLC exhaustive over block patterns and permutations), replay through Eigenvalues/Eigensystem in child processes with time limits, trace validation of residuals and termination"),
 "C07": dict(
    engine="spec/Distributions.tla, MC_Dist.tla, Gamma.tla (Pascal and Horner machines), Big.tla, Trace_Dist.tla; harness/c07.cpp",
    design_ref="DESIGN.md §4.7",
    text="The discrete families are decided against exact values: binomial coefficients from the Pascal machine (rows 0..170) give C(n,x) p^x (1-p)^(n-x) for dyadic p = k/8, and "
         "Distributions.tla evaluates the Poisson series sum_{j<=k} mu^j/j! and mu^k/k! at rational means m/8 as a Horner state machine on arbitrary-precision integers (means 1/8..1000, "
         "counts 0..500 on both sides of the switch of the incomplete gamma function). PMF/CDF_Binomial (every n<=170 exported, nine p, all x: masses, CDF = running sum, sum one, zero "
         "outside the support), PMF/CDF_Poisson and the Poisson likelihoods are replayed against them. Recorded relations: CDF_Poisson against running sums of PMF_Poisson over means "
         "1e-3..1e3, Inv_CDF_Poisson round trips, binned likelihood = product and log = logarithm, Quantile_Gauss bracketing, and seven continuous families (uniform, normal, exponential, "
         "Maxwell-Boltzmann, chi-square with real and integer degrees of freedom 0.5..400, chi-bar mixtures) on random ascending grids including support boundaries and far tails: density "
         ">= 0, CDF within [0,1], non-decreasing, 0 and 1 in the tails, increments equal to a quadrature of the library's own density; KDE non-negative and normalised. Trace_Dist checks "
         "every residual in the tolerance class the family and parameter call for.",
    note="Continuous CDFs are checked for coherence with their own densities (as stated), not against an independent reference. Chi-square above 200 degrees of freedom inherits the 1e-3 "
         "accuracy class of the a>100 incomplete gamma function. KDE normalisation within 1e-5. Poisson mean 0 is outside the quantifier. Added late: PDF_Gauss_2D against the product of the one-dimensional densities (widths up to six decades apart), binomial masses/CDF at p within 2^-7 and 2^-12 of 0 and 1, Quantile_Gauss in both far tails and the centre for every normal case.",
    technique="arbitrary-precision TLA+ series for the discrete families (Horner/Pascal state machines, TLC) replayed through PMF/CDF/likelihood functions + trace validation of recorded coherence relations of the continuous families"),
}
