CONSTANTS N = 24 ACCS = {1, 2, 3, 5} RULE = "iterates" MAXIT = 50
CONSTANT ROOTSETS <- RootSetsAll
INIT Init
NEXT Next
INVARIANT Bracket
INVARIANT Inside
INVARIANT NeverLost
INVARIANT ExitRight
INVARIANT EndZero
INVARIANT RetInside
INVARIANT AccOK
PROPERTY Nested
PROPERTY Halves
CHECK_DEADLOCK FALSE
