---------------------------- MODULE Trace_Nested ----------------------------
(***************************************************************************)
(* Trace validation for C13.                                               *)
(*  Nest : a case exported by MC_Nested run through Integrate /            *)
(*         Integrate_2D / Integrate_3D.  The recorder's wrapper reports    *)
(*         how many integrand calls had an argument outside the range of   *)
(*         its own axis (nwrong) and the number of calls; the spec demands *)
(*         nwrong = 0, the leaf count of fixed-order rules (order^dim,     *)
(*         order = method parameter when given: it must reach every        *)
(*         level), the method's tolerance and the error bound.             *)
(*  One  : smooth non-polynomial families, each method: accuracy, exact    *)
(*         negation under reversed limits, zero for equal limits, no       *)
(*         evaluation outside the interval.                                *)
(*  Sph  : spherical overload: vectors of norm r in the radial range,      *)
(*         cos(polar angle) and azimuth in their ranges, value.            *)
(***************************************************************************)
EXTENDS NestedQuad, Json, IOUtils
VARIABLES l, seen
vars == <<l, seen>>
Log == ndJsonDeserialize(IOEnv.TRACE)
Init == l = 1 /\ seen = {}
Ev(e) == l <= Len(Log) /\ Log[l].e = e /\ l' = l + 1
TNest == /\ Ev("Nest") /\ LET ev == Log[l] IN
            /\ ev.meth \in Methods /\ ev.tol = Tol(ev.meth)
            /\ ev.nwrong = 0 /\ ev.nleaf > 0                                  \* every argument receives the variable of its own limits
            /\ ev.leaves = Leaves(ev.meth, ev.par, ev.dim)                    \* the exported leaf count is the specification's
            /\ (ev.leaves > 0 => ev.nleaf = ev.leaves)                        \* fixed-order rules: order^dim evaluations (parameter forwarded to every level)
            /\ ev.errq <= 1 /\ ev.sgnok                                       \* value, including the orientation sign
            /\ seen' = seen \cup {<<ev.meth, ev.dim>>}
TOne == /\ Ev("One") /\ LET ev == Log[l] IN
           /\ ev.meth \in Methods /\ ev.tol = Tol(ev.meth)
           /\ ev.errq <= 1 /\ ev.neg /\ ev.zero /\ ev.nout = 0
        /\ UNCHANGED seen
TSph == /\ Ev("Sph") /\ LET ev == Log[l] IN
           /\ ev.nev > 0 /\ ev.badnorm = 0 /\ ev.badcos = 0 /\ ev.badphi = 0 /\ ev.errq <= 1
        /\ UNCHANGED seen
Next == TNest \/ TOne \/ TSph
Spec == Init /\ [][Next]_vars
TraceAccepted == TLCGet("stats").diameter - 1 = Len(Log)
=============================================================================
