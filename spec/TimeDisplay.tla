---------------------------- MODULE TimeDisplay ----------------------------
(***************************************************************************)
(* Beyond the listed properties: Utilities' Time_Display (used by the      *)
(* progress bar) as a specification.  A duration of S whole seconds and M  *)
(* milliseconds is decomposed in the mixed radix                           *)
(*      y (365.25 d) | w | d | h | m | s | ms                              *)
(* and shown as three consecutive fields "[AAu:BBv:CCw]" starting at the   *)
(* first non-zero one of y, w, d, h (at m if all four vanish); fields are  *)
(* padded to two digits, milliseconds to three.                            *)
(* TLC checks the laws of the decomposition on the boundary lattice and    *)
(* exports the cases; harness/c19.cpp compares the library's string.       *)
(* A disagreement is reported as a NOTE (no property is attached).         *)
(***************************************************************************)
EXTENDS Integers, Sequences
Y == 31557600   W == 604800   D == 86400   H == 3600   Mi == 60          \* seconds
Digits(S, M) == LET y == S \div Y     r1 == S % Y
                    w == r1 \div W    r2 == r1 % W
                    d == r2 \div D    r3 == r2 % D
                    h == r3 \div H    r4 == r3 % H
                    m == r4 \div Mi   s == r4 % Mi
                IN  <<y, w, d, h, m, s, M>>
Value(dg) == dg[1] * Y + dg[2] * W + dg[3] * D + dg[4] * H + dg[5] * Mi + dg[6]
First(dg) == IF dg[1] > 0 THEN 1 ELSE IF dg[2] > 0 THEN 2 ELSE IF dg[3] > 0 THEN 3 ELSE IF dg[4] > 0 THEN 4 ELSE 5
Shown(S, M) == LET dg == Digits(S, M)  i == First(dg) IN [i |-> i, f |-> <<dg[i], dg[i + 1], dg[i + 2]>>]
InRange(dg) == /\ dg[2] \in 0..52 /\ dg[3] \in 0..6 /\ dg[4] \in 0..23 /\ dg[5] \in 0..59 /\ dg[6] \in 0..59 /\ dg[7] \in 0..999
\* the boundary lattice: k units + (-1, 0, +1) seconds for small k of every unit, and sums of two such
Base == {0} \cup {k * u + e : k \in 1..3, u \in {Y, W, D, H, Mi, 1}, e \in {-1, 0, 1}}
Cases == {a + b : a \in Base, b \in Base} \cup {59, 3599, 86399, 604799, 31557599, 10 * Y + 51 * W + 6 * D + 23 * H + 59 * Mi + 59}
Laws == \A S \in Cases : S >= 0 =>
          LET dg == Digits(S, 250) IN
          /\ Value(dg) = S /\ InRange(dg)
          /\ \A j \in 1..(First(dg) - 1) : dg[j] = 0                       \* nothing non-zero is hidden in front of the shown fields
          /\ (First(dg) < 5 => dg[First(dg)] > 0)
=============================================================================
