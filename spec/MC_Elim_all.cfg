CONSTANTS NMAX = 3 SALTS = 0
INIT AllInit
NEXT AllNext
INVARIANT Laws
CHECK_DEADLOCK FALSE
