------------------------------ MODULE Samplers ------------------------------
(***************************************************************************)
(* C18: samplers.                                                          *)
(*                                                                         *)
(* S.  A sampling call is a function of (sampler, parameters, state of the *)
(* caller's generator): the specification keeps a memo from that triple    *)
(* to (outputs, state left behind) and nothing else.  A call is accepted   *)
(* only if it delivered exactly the requested number of samples, all       *)
(* inside the support, and agrees with the memo.  A hidden source of       *)
(* randomness, or hidden state, makes two calls with equal triples         *)
(* disagree.                                                               *)
(*                                                                         *)
(* A.  The burn-in / thinning bookkeeping of Sample_Metropolis as the code *)
(* does it: i runs over 0..burn+thin*sample-1 and a sample is kept when    *)
(* i >= burn and i mod thin = 0.  MetroKept counts them.                   *)
(***************************************************************************)
EXTENDS Integers, Sequences, FiniteSets, TLC

MemoAccepts(memo, key, val) == key \in DOMAIN memo => memo[key] = val
MemoPut(memo, key, val) == IF key \in DOMAIN memo THEN memo ELSE [k \in DOMAIN memo \cup {key} |-> IF k = key THEN val ELSE memo[k]]

\* A: number of samples the loop keeps
MetroKept(sample, thin, burn) == Cardinality({i \in 0..(burn + thin * sample - 1) : i >= burn /\ i % thin = 0})
\* A: number of generator draws of the 1D / 2D chain (start + per step: candidate and acceptance), given one uniform per Gaussian
MetroSteps(sample, thin, burn) == burn + thin * sample
=============================================================================
