CONSTANT CHECK_A = TRUE
INIT Init
NEXT Next
POSTCONDITION TraceAccepted
CHECK_DEADLOCK FALSE
