--------------------------------- MODULE Big ---------------------------------
(***************************************************************************)
(* Arbitrary-precision natural numbers in pure TLA+ (TLC's integers are    *)
(* 32-bit and overflow loudly).  A number is a little-endian sequence of   *)
(* limbs in base B = 10^4 without leading (most significant) zero limbs;   *)
(* zero is <<>>.  Small multipliers/divisors must stay below 2*10^5 so     *)
(* that limb*k+carry fits.                                                 *)
(***************************************************************************)
EXTENDS Integers, Sequences

B == 10000

RECURSIVE BTrim(_)
BTrim(a) == IF a = <<>> THEN a ELSE IF a[Len(a)] = 0 THEN BTrim(SubSeq(a, 1, Len(a) - 1)) ELSE a

RECURSIVE BOfInt(_)
BOfInt(n) == IF n = 0 THEN <<>> ELSE <<n % B>> \o BOfInt(n \div B)

\* a * k + c   (k, c small non-negative integers)
RECURSIVE BMulS(_,_,_)
BMulS(a, k, c) == IF a = <<>> THEN BOfInt(c)
                  ELSE LET t == Head(a) * k + c IN <<t % B>> \o BMulS(Tail(a), k, t \div B)
BMulSmall(a, k) == IF k = 0 THEN <<>> ELSE BMulS(a, k, 0)

RECURSIVE BAddC(_,_,_)
BAddC(a, b, c) == IF a = <<>> /\ b = <<>> THEN (IF c = 0 THEN <<>> ELSE <<c>>)
                  ELSE LET x == IF a = <<>> THEN 0 ELSE Head(a)
                           y == IF b = <<>> THEN 0 ELSE Head(b)
                           t == x + y + c
                       IN <<t % B>> \o BAddC(IF a = <<>> THEN a ELSE Tail(a), IF b = <<>> THEN b ELSE Tail(b), t \div B)
BAdd(a, b) == BAddC(a, b, 0)

\* comparison: -1, 0, 1
RECURSIVE BCmpFrom(_,_,_)
BCmpFrom(a, b, i) == IF i = 0 THEN 0 ELSE IF a[i] < b[i] THEN -1 ELSE IF a[i] > b[i] THEN 1 ELSE BCmpFrom(a, b, i - 1)
BCmp(a, b) == IF Len(a) < Len(b) THEN -1 ELSE IF Len(a) > Len(b) THEN 1 ELSE BCmpFrom(a, b, Len(a))
BLe(a, b) == BCmp(a, b) <= 0
BLt(a, b) == BCmp(a, b) < 0

\* a - b for a >= b
RECURSIVE BSubC(_,_,_)
BSubC(a, b, c) == IF a = <<>> THEN <<>>
                  ELSE LET y == IF b = <<>> THEN 0 ELSE Head(b)
                           t == Head(a) - y - c
                       IN IF t < 0 THEN <<t + B>> \o BSubC(Tail(a), IF b = <<>> THEN b ELSE Tail(b), 1)
                                   ELSE <<t>> \o BSubC(Tail(a), IF b = <<>> THEN b ELSE Tail(b), 0)
BSub(a, b) == BTrim(BSubC(a, b, 0))

\* schoolbook product
RECURSIVE BMulAcc(_,_)
BMulAcc(a, b) == IF b = <<>> THEN <<>>
                 ELSE BAdd(BMulSmall(a, Head(b)), LET r == BMulAcc(a, Tail(b)) IN IF r = <<>> THEN r ELSE <<0>> \o r)
BMul(a, b) == IF a = <<>> \/ b = <<>> THEN <<>> ELSE BMulAcc(a, b)

\* division by a small k: <<quotient, remainder>>
RECURSIVE BDivRem(_,_,_,_)
\* fold from the top limb: rem carries down; acc collects quotient limbs most-significant first
BDivRem(a, k, i, rem) == IF i = 0 THEN <<<<>>, rem>>
                         ELSE LET t == rem * B + a[i]
                                  rest == BDivRem(a, k, i - 1, t % k)
                              IN <<Append(rest[1], t \div k), rest[2]>>
\* requires k < 2*10^5 (rem*B + limb < 2^31)
BDivSmall(a, k) == LET r == BDivRem(a, k, Len(a), 0) IN <<BTrim(r[1]), r[2]>>

\* ---- redundant-limb arithmetic -------------------------------------------------------------------
\* TLC evaluates a recursive operator in time proportional to the recursion depth PER STEP, so the carry
\* chains above are quadratic in the number of limbs.  The operations below use no recursion: a product or
\* sum is formed limb by limb and ONE carry pass follows, which leaves limbs below 2*B (not canonical, same
\* value).  Valid while every limb stays below 2^31/k: limbs < 2*10^4 and k <= 5000 always do.
LTrim1(a) == IF a # <<>> /\ a[Len(a)] = 0 THEN SubSeq(a, 1, Len(a) - 1) ELSE a
LCarry(v) == LET n == Len(v) IN
             LTrim1([i \in 1..(n + 1) |-> (IF i <= n THEN v[i] % 10000 ELSE 0) + (IF i > 1 THEN v[i - 1] \div 10000 ELSE 0)])
LMulS(a, k) == IF k = 0 \/ a = <<>> THEN <<>> ELSE LCarry([i \in 1..Len(a) |-> a[i] * k])
LAdd(a, b) == LET n == IF Len(a) >= Len(b) THEN Len(a) ELSE Len(b) IN
              LCarry([i \in 1..n |-> (IF i <= Len(a) THEN a[i] ELSE 0) + (IF i <= Len(b) THEN b[i] ELSE 0)])
LimbsBelow(a, bound) == \A i \in 1..Len(a) : a[i] >= 0 /\ a[i] < bound
\* canonical form of a redundant number (sequential carries; use on small numbers only)
BNorm(a) == BTrim(BMulS(a, 1, 0))

RECURSIVE BFact(_)
BFact(n) == IF n = 0 THEN <<1>> ELSE BMulSmall(BFact(n - 1), n)

RECURSIVE BPowS(_,_)
BPowS(k, e) == IF e = 0 THEN <<1>> ELSE BMulSmall(BPowS(k, e - 1), k)
=============================================================================
