------------------------------- MODULE LinAlg -------------------------------
(***************************************************************************)
(* C04: dense vector / matrix algebra over the integers (small integers    *)
(* and power-of-two multiples of them are exact in IEEE double, so the     *)
(* definitions below are the *exact* expected results of the library).     *)
(* A matrix is a non-empty sequence of equally long non-empty rows, a      *)
(* vector is a sequence.                                                   *)
(***************************************************************************)
EXTENDS Integers, Sequences

Rows(A) == Len(A)
Cols(A) == Len(A[1])
IsMatrix(A) == Len(A) >= 1 /\ \A i \in 1..Len(A) : Len(A[i]) = Len(A[1])
SameShape(A, B) == Rows(A) = Rows(B) /\ Cols(A) = Cols(B)

RECURSIVE SumTo(_,_)
SumTo(F, n) == IF n = 0 THEN 0 ELSE F[n] + SumTo(F, n-1)     \* F[1] + ... + F[n]

\* ---- definitions
MPlus(A, B)  == [i \in 1..Rows(A) |-> [j \in 1..Cols(A) |-> A[i][j] + B[i][j]]]
MMinus(A, B) == [i \in 1..Rows(A) |-> [j \in 1..Cols(A) |-> A[i][j] - B[i][j]]]
MProd(A, B)  == [i \in 1..Rows(A) |-> [j \in 1..Cols(B) |->
                   SumTo([k \in 1..Cols(A) |-> A[i][k] * B[k][j]], Cols(A))]]
MScal(A, s)  == [i \in 1..Rows(A) |-> [j \in 1..Cols(A) |-> s * A[i][j]]]
Transpose(A) == [j \in 1..Cols(A) |-> [i \in 1..Rows(A) |-> A[i][j]]]
Identity(n)  == [i \in 1..n |-> [j \in 1..n |-> IF i = j THEN 1 ELSE 0]]
DiagM(d)     == [i \in 1..Len(d) |-> [j \in 1..Len(d) |-> IF i = j THEN d[i] ELSE 0]]
ColM(v)      == [i \in 1..Len(v) |-> <<v[i]>>]             \* column matrix of a vector
RowM(v)      == <<v>>                                      \* row matrix of a vector
MVec(A, v)   == [i \in 1..Rows(A) |-> SumTo([k \in 1..Cols(A) |-> A[i][k] * v[k]], Cols(A))]
VMat(v, A)   == [j \in 1..Cols(A) |-> SumTo([k \in 1..Rows(A) |-> v[k] * A[k][j]], Rows(A))]
Dot(v, w)    == SumTo([k \in 1..Len(v) |-> v[k] * w[k]], Len(v))
Cross(v, w)  == <<v[2]*w[3] - v[3]*w[2], v[3]*w[1] - v[1]*w[3], v[1]*w[2] - v[2]*w[1]>>
Outer(v, w)  == [i \in 1..Len(v) |-> [j \in 1..Len(w) |-> v[i] * w[j]]]
VPlus(v, w)  == [k \in 1..Len(v) |-> v[k] + w[k]]
VMinus(v, w) == [k \in 1..Len(v) |-> v[k] - w[k]]
VScal(v, s)  == [k \in 1..Len(v) |-> s * v[k]]
Square(A)    == Rows(A) = Cols(A)
TraceM(A)    == SumTo([k \in 1..Rows(A) |-> A[k][k]], Rows(A))
Norm2(A)     == SumTo([i \in 1..Rows(A) |-> SumTo([j \in 1..Cols(A) |-> A[i][j]*A[i][j]], Cols(A))], Rows(A))
Symmetric(A)     == Square(A) /\ \A i \in 1..Rows(A), j \in 1..Cols(A) : A[i][j] = A[j][i]
Antisymmetric(A) == Square(A) /\ \A i \in 1..Rows(A), j \in 1..Cols(A) : A[i][j] = -A[j][i]
Diagonal(A)      == Square(A) /\ \A i \in 1..Rows(A), j \in 1..Cols(A) : i # j => A[i][j] = 0
Drop(s, k)   == [i \in 1..(Len(s)-1) |-> IF i < k THEN s[i] ELSE s[i+1]]       \* remove the k-th element (1-based)
DelRow(A, r) == Drop(A, r)
DelCol(A, c) == [i \in 1..Rows(A) |-> Drop(A[i], c)]
SubMatrix(A, r, c) == DelCol(DelRow(A, r), c)
RowOf(A, r)  == A[r]
ColOf(A, c)  == [i \in 1..Rows(A) |-> A[i][c]]
\* block matrix <<<<A,B>>,<<C,D>>>>
BlockOK(A, B, C, D) == Rows(A) = Rows(B) /\ Rows(C) = Rows(D) /\ Cols(A) = Cols(C) /\ Cols(B) = Cols(D)
Block(A, B, C, D) == [i \in 1..(Rows(A) + Rows(C)) |-> [j \in 1..(Cols(A) + Cols(B)) |->
                        IF i <= Rows(A) THEN (IF j <= Cols(A) THEN A[i][j] ELSE B[i][j - Cols(A)])
                        ELSE (IF j <= Cols(A) THEN C[i - Rows(A)][j] ELSE D[i - Rows(A)][j - Cols(A)])]]

\* a grid of blocks (any number of block rows and block columns): consistent iff every block of block row r has the height of that
\* row and every block of block column c the width of that column; the result places block (r,c) at the offsets of the partition
RECURSIVE SumUpTo(_, _)
SumUpTo(f, k) == IF k = 0 THEN 0 ELSE f[k] + SumUpTo(f, k - 1)
GridHeights(G) == [r \in 1..Len(G) |-> Rows(G[r][1])]
GridWidths(G)  == [c \in 1..Len(G[1]) |-> Cols(G[1][c])]
GridOK(G) == /\ \A r \in 1..Len(G) : Len(G[r]) = Len(G[1])
             /\ \A r \in 1..Len(G) : \A c \in 1..Len(G[1]) : Rows(G[r][c]) = GridHeights(G)[r] /\ Cols(G[r][c]) = GridWidths(G)[c]
GridBlockOf(f, i) == CHOOSE k \in 1..Len(f) : SumUpTo(f, k - 1) < i /\ i <= SumUpTo(f, k)
BlockGrid(G) == LET Hs == GridHeights(G)  Ws == GridWidths(G) IN
                [i \in 1..SumUpTo(Hs, Len(Hs)) |-> [j \in 1..SumUpTo(Ws, Len(Ws)) |->
                    LET r == GridBlockOf(Hs, i)  c == GridBlockOf(Ws, j) IN G[r][c][i - SumUpTo(Hs, r - 1)][j - SumUpTo(Ws, c - 1)]]]

\* ---- when is a request meaningful (C04 "defined exactly when", shared with C10)
Defined(op, A, B) ==
  CASE op \in {"MPlus", "MMinus"} -> SameShape(A, B)
    [] op = "MProd" -> Cols(A) = Rows(B)
    [] op = "MVec"  -> Cols(A) = Len(B)
    [] op = "VMat"  -> Len(A) = Rows(B)
    [] op \in {"VPlus", "VMinus", "Dot"} -> Len(A) = Len(B)
    [] op = "Cross" -> Len(A) = 3 /\ Len(B) = 3
    [] op = "Trace" -> Square(A)
    [] OTHER -> TRUE
Result(op, A, B) ==
  CASE op = "MPlus"  -> MPlus(A, B)
    [] op = "MMinus" -> MMinus(A, B)
    [] op = "MProd"  -> MProd(A, B)
    [] op = "MVec"   -> MVec(A, B)
    [] op = "VMat"   -> VMat(A, B)
    [] op = "VPlus"  -> VPlus(A, B)
    [] op = "VMinus" -> VMinus(A, B)
    [] op = "Dot"    -> Dot(A, B)
    [] op = "Cross"  -> Cross(A, B)
    [] op = "Outer"  -> Outer(A, B)
    [] op = "Transpose" -> Transpose(A)
    [] op = "Trace"  -> TraceM(A)
    [] op = "Norm2"  -> Norm2(A)
    [] op = "VNorm2" -> Dot(A, A)
    [] op = "Symmetric" -> Symmetric(A)
    [] op = "Antisymmetric" -> Antisymmetric(A)
    [] op = "Diagonal" -> Diagonal(A)
    [] op = "Square" -> Square(A)
    [] op = "MScal"  -> MScal(A, B)
    [] op = "VScal"  -> VScal(A, B)
    [] op = "Identity" -> Identity(A)
    [] op = "DiagM"  -> DiagM(A)
    [] op = "MEq"    -> A = B
=============================================================================
