INIT Init
NEXT Next
INVARIANT Covered
POSTCONDITION TraceAccepted
CHECK_DEADLOCK FALSE
