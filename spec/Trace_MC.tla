------------------------------ MODULE Trace_MC ------------------------------
(***************************************************************************)
(* Trace validation for C14 against the memo specification of MonteCarlo:  *)
(* the only state is the memo from call keys to result bits.               *)
(***************************************************************************)
EXTENDS MonteCarlo, Json, IOUtils
VARIABLES l, memo, pairs
vars == <<l, memo, pairs>>
Log == ndJsonDeserialize(IOEnv.TRACE)
Init == l = 1 /\ memo = <<>> /\ pairs = 0
Ev(e) == l <= Len(Log) /\ Log[l].e = e /\ l' = l + 1
\* one observed integration: inside the region only, finite, and the same bits as any earlier execution of the same call
TCall == /\ Ev("Call") /\ LET ev == Log[l] IN
            /\ ev.fin /\ ev.neval > 0
            /\ MemoAccepts(memo, ev.key, ev.bits, ev.nout)
            /\ memo' = MemoPut(memo, ev.key, ev.bits)
            /\ pairs' = pairs + (IF ev.key \in DOMAIN memo THEN 1 ELSE 0)
\* constants: c * V to the rounding of a sum of neval terms
TConst == /\ Ev("Const") /\ Log[l].nout = 0 /\ Log[l].q <= 1 /\ UNCHANGED <<memo, pairs>>
\* smooth integrands: the mean of R seeded repetitions within six standard errors of the exact value
TStat == /\ Ev("Stat") /\ Log[l].nout = 0 /\ Log[l].zq <= 6 /\ UNCHANGED <<memo, pairs>>
\* two- and three-dimensional front ends: every argument receives the variable of its own pair of limits
\* front ends: every evaluation inside the box of the call, the mean within six standard errors, and (warmed = 1: the same calls made
\* after front-end calls over another box) the same values bit for bit as in a process without history
TFront == /\ Ev("Front") /\ Log[l].nwrong = 0 /\ Log[l].neval > 0 /\ Log[l].zq <= 6 /\ Log[l].warmed \in {0, 1} /\ Log[l].histsame
          /\ UNCHANGED <<memo, pairs>>
Next == TCall \/ TConst \/ TStat \/ TFront
Spec == Init /\ [][Next]_vars
TraceAccepted == TLCGet("stats").diameter - 1 = Len(Log)
=============================================================================
