CONSTANTS MaxDim = 3
          Depth = 12
SPECIFICATION Spec
INVARIANTS RepInv Bounded
ACTION_CONSTRAINT Export
CHECK_DEADLOCK FALSE
