-------------------------------- MODULE Elim --------------------------------
(***************************************************************************)
(* C05: exact determinant and inverse of integer matrices.                 *)
(* Det: fraction-free (Bareiss) elimination with row exchange -- the       *)
(* "pivoted-LU reference" of the property, in exact integer arithmetic.    *)
(* Inverse: adjugate / determinant (cofactors are determinants of minors). *)
(* Matrices are sequences of rows, as in LinAlg.                           *)
(***************************************************************************)
EXTENDS LinAlg, FiniteSets

SwapRows(M, a, b) == [i \in 1..Len(M) |-> IF i = a THEN M[b] ELSE IF i = b THEN M[a] ELSE M[i]]

\* Bareiss step k on matrix M (n x n), previous pivot prev, accumulated sign sg
RECURSIVE Bareiss(_,_,_,_)
Bareiss(M, k, prev, sg) ==
  LET n == Len(M) IN
  IF k = n THEN sg * M[n][n]
  ELSE LET cand == {r \in k..n : M[r][k] # 0} IN
       IF cand = {} THEN 0
       ELSE LET r  == CHOOSE x \in cand : \A y \in cand : x <= y
                M1 == IF r = k THEN M ELSE SwapRows(M, k, r)
                s1 == IF r = k THEN sg ELSE -sg
                M2 == [i \in 1..n |-> [j \in 1..n |->
                         IF i > k /\ j > k THEN (M1[i][j] * M1[k][k] - M1[i][k] * M1[k][j]) \div prev
                         ELSE M1[i][j]]]
            IN Bareiss(M2, k + 1, M1[k][k], s1)
Det(M) == IF Len(M) = 1 THEN M[1][1] ELSE Bareiss(M, 1, 1, 1)

Minor(M, r, c) == SubMatrix(M, r, c)
Cofactor(M, r, c) == (IF (r + c) % 2 = 0 THEN 1 ELSE -1) * (IF Len(M) = 1 THEN 1 ELSE Det(Minor(M, r, c)))
\* adjugate: Adj[i][j] = cofactor(j, i);  M * Adj = Det(M) * I
Adj(M) == [i \in 1..Len(M) |-> [j \in 1..Len(M) |-> Cofactor(M, j, i)]]
Singular(M) == Det(M) = 0
\* exact infinity norms (as integers for M, as numerator over |det| for the inverse)
AbsI(x) == IF x < 0 THEN -x ELSE x
RowSumAbs(r) == SumTo([k \in 1..Len(r) |-> AbsI(r[k])], Len(r))
NormInf(M) == LET S == {RowSumAbs(M[i]) : i \in 1..Len(M)} IN CHOOSE m \in S : \A x \in S : x <= m
=============================================================================
