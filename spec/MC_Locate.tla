----------------------------- MODULE MC_Locate -----------------------------
(***************************************************************************)
(* Bounded exhaustive model of one Interpolation object: every reachable   *)
(* cache state (jLast, corr) x every position code.  Checks A => S, index  *)
(* safety, and exports every transition (with a shortest call path that    *)
(* reaches its source state) for replay against the real Locate().         *)
(***************************************************************************)
EXTENDS Locate, Json, CSV, IOUtils

VARIABLES c,      \* cache state [j |-> jLast, c |-> correlated_calls]
          last,   \* the transition that led here: [src, p, j]
          path    \* codes of the Locate calls issued since construction (not part of the VIEW)
vars == <<c, last, path>>
view == <<c, last>>

NoCall == [src |-> [j |-> 0, c |-> FALSE], p |-> -1, j |-> 0]
Init == c = [j |-> 0, c |-> FALSE] /\ last = NoCall /\ path = <<>>

LocateAct(p) == LET n == Step(c, p) IN
                /\ c' = n
                /\ last' = [src |-> c, p |-> p, j |-> n.j]
                /\ path' = Append(path, p)
Next == \E p \in Codes : LocateAct(p)
Spec == Init /\ [][Next]_vars

\* ---- invariants
CacheInRange == c.j \in 0..(N-2)                         \* jLast never leaves the segments
ReturnOK     == last.p = -1 \/ SegOK(last.p, last.j)     \* A => S
\* with the right-continuous hunt the answer does not depend on the cache at all
HistoryFree  == last.p = -1 \/ last.j = RightCont(last.p)
\* the cache flag is what the code computes from the two indices
CorrRule     == last.p = -1 \/ c.c = NextCorr(c.j, last.src.j)

Export == IF "OUT" \in DOMAIN IOEnv /\ last.p # -1
          THEN CSVWrite("%1$s", <<ToJson([N |-> N, path |-> path, p |-> last.p, j |-> last.j,
                                           sj |-> last.src.j, sc |-> last.src.c, corr |-> c.c])>>, IOEnv.OUT)
          ELSE TRUE
=============================================================================
