CONSTANT FMAX = 2
INIT Init
NEXT Next
INVARIANT Props
INVARIANT Export
CHECK_DEADLOCK FALSE
