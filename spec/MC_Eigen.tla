------------------------------- MODULE MC_Eigen -------------------------------
EXTENDS Eigen, Json, CSV, IOUtils
Out(rec) == IF "OUT" \in DOMAIN IOEnv THEN CSVWrite("%1$s", <<ToJson(rec)>>, IOEnv.OUT) ELSE TRUE
VARIABLES pat, off, salt
vars == <<pat, off, salt>>
\* patterns grow block by block (sizes 1..7); every offset that fits the pool; salts 0..5
Init == pat \in {<<1>>, <<2>>} /\ off = 0 /\ salt = 0
Next == \/ (Size(pat) + 1 <= 7 /\ pat' = Append(pat, 1) /\ UNCHANGED <<off, salt>>)
        \/ (Size(pat) + 2 <= 7 /\ pat' = Append(pat, 2) /\ UNCHANGED <<off, salt>>)
        \/ (off + Size(pat) < 8 /\ off' = off + 1 /\ UNCHANGED <<pat, salt>>)
        \/ (salt < 5 /\ salt' = salt + 1 /\ UNCHANGED <<pat, off>>)
Laws == off + Size(pat) <= 8 => EigenLaws(pat, off, salt)
Export == off + Size(pat) <= 8 =>
            Out([k |-> "eig", n |-> Size(pat), pat |-> pat, salt |-> salt, m |-> Mat(pat, off, salt),
                 lam |-> [e \in 1..Size(pat) |-> Lam(off, e)], vec |-> [e \in 1..Size(pat) |-> EVec(pat, off, salt, e)],
                 diagonal |-> \A k \in 1..Len(pat) : pat[k] = 1])
=============================================================================
