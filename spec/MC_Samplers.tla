---------------------------- MODULE MC_Samplers ----------------------------
EXTENDS Samplers
CONSTANT GMAX
VARIABLES s, t, b
vars == <<s, t, b>>
Init == s \in 0..GMAX /\ t = 1 /\ b = 0
Next == \/ (t < GMAX /\ t' = t + 1 /\ UNCHANGED <<s, b>>)
        \/ (b < GMAX /\ b' = b + 1 /\ UNCHANGED <<s, t>>)
\* exactly the requested number of samples for every burn-in and thinning setting
CountOK == MetroKept(s, t, b) = s
=============================================================================
