CONSTANTS RMAX = 5 CMAX = 4 HMAX = 3
INIT Init
NEXT Next
INVARIANT RoundTrip
INVARIANT WrongSkip
CHECK_DEADLOCK FALSE
