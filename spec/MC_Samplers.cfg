CONSTANT GMAX = 40
INIT Init
NEXT Next
INVARIANT CountOK
CHECK_DEADLOCK FALSE
