CONSTANT LMAX = 12
INIT VInit
NEXT VNext
INVARIANT VLaws
INVARIANT VExport
CHECK_DEADLOCK FALSE
