---------------------------- MODULE Trace_Scalars ----------------------------
(***************************************************************************)
(* Trace validation for C17.                                               *)
(*  Round : a decimal input of MC_Scalars over 600 decades (both signs):   *)
(*          the library's value is the specification's rounded mantissa    *)
(*          times the power of ten, to 2 ulp, and Round is odd.            *)
(*  Table : decision tables of Sign, StepFunction, Sign(x,y),              *)
(*          Relative_Difference, Floats_Equal on the value classes.        *)
(*  VSH   : one coefficient of the tables of the vector harmonics: phase   *)
(*          exactly, squared modulus to rounding, against Scalars.tla.     *)
(*  Harm  : identities of the harmonics for one (l,m) over all directions; *)
(*          every (l,m) with l <= 12 must arrive, in order.                *)
(*  Obs   : relations on random arguments.                                 *)
(***************************************************************************)
EXTENDS Scalars, Json, IOUtils
VARIABLES l, nl, nm
vars == <<l, nl, nm>>
Log == ndJsonDeserialize(IOEnv.TRACE)
Init == l = 1 /\ nl = 0 /\ nm = 0
Ev(e) == l <= Len(Log) /\ Log[l].e = e /\ l' = l + 1
TRound == Ev("Round") /\ Log[l].ulp <= 2 /\ Log[l].odd /\ UNCHANGED <<nl, nm>>
TTable == /\ Ev("Table") /\ LET ev == Log[l] IN
             /\ ev.sgn = ev.sgnS /\ ev.sgnS = SgnC(ev.x)
             /\ ev.step = ev.stepS /\ ev.stepS = StepC(ev.x)
             /\ ev.keepsS = Sign2Keeps(ev.x, ev.y) /\ (IF ev.keepsS THEN ev.keeps ELSE ev.flips)
             /\ ev.rdzeroS = RelDiffZero(ev.x, ev.y) /\ ev.rdzero = ev.rdzeroS /\ ev.rdrange
             /\ ev.feqS = FloatsEqualSpec(ev.x, ev.y) /\ ev.feq = ev.feqS /\ ev.feqsym
          /\ UNCHANGED <<nl, nm>>
TVSH == /\ Ev("VSH") /\ LET ev == Log[l]
                            y == Norm0(YCoef(ev.comp, ev.l, ev.m, ev.lh, ev.mh))
                            p == PsiCoef(ev.comp, ev.l, ev.m, ev.lh, ev.mh) IN
           /\ ev.yphS = y[1] /\ ev.pphS = p[1]              \* what the replayer was given is the specification's coefficient
           /\ ev.yph = y[1] /\ ev.pph = p[1]                \* phase exactly
           /\ ev.ysq <= 1 /\ ev.psq <= 1                    \* squared modulus
        /\ UNCHANGED <<nl, nm>>
THarm == /\ Ev("Harm") /\ LET ev == Log[l] IN
            /\ ev.l = nl /\ ev.m = nm                       \* every (l,m) in order: exhaustive over l <= 12
            /\ ev.conjq <= 1 /\ ev.yq <= 1 /\ ev.tanq <= 1 /\ ev.gradq <= 1
            /\ IF nm = nl THEN nl' = nl + 1 /\ nm' = -(nl + 1) ELSE nm' = nm + 1 /\ nl' = nl
TObs == Ev("Obs") /\ Log[l].q <= 1 /\ Log[l].ok /\ UNCHANGED <<nl, nm>>
Next == TRound \/ TTable \/ TVSH \/ THarm \/ TObs
Spec == Init /\ [][Next]_vars
TraceAccepted == TLCGet("stats").diameter - 1 = Len(Log)
AllHarmonics == l > Len(Log) => nl = 13
=============================================================================
