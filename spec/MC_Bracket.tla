----------------------------- MODULE MC_Bracket -----------------------------
(***************************************************************************)
(* Design check of Bracket.tla: every objective of a family on the grid    *)
(* 0..N (two slopes, optional flat bottom: ties; optionally raised at      *)
(* every third point: local maxima), every pair of                         *)
(* starting abscissae, every admissible position of every proposed point   *)
(* (limited by GL times the last step, as GLIMIT does in the code).        *)
(***************************************************************************)
EXTENDS Bracket, TLC
CONSTANTS N, GL
VARIABLES m, sl, sr, pw, bump, steps
vars == <<bvars, m, sl, sr, pw, bump, steps>>
\* bump = 0: unimodal (two slopes, flat bottom of width pw); bump > 0: every third grid point is raised by bump, which makes local
\* maxima - the second early return of the first branch (inner point above f(bx)) is reachable only on such objectives
F(x) == (IF x < m THEN 2 * sl * (m - x) ELSE IF x <= m + pw THEN 0 ELSE 2 * sr * (x - m - pw)) + (IF x % 3 = 0 THEN bump ELSE 0)
Init == BInit /\ m \in 0..N /\ sl \in {1, 2, 3} /\ sr \in {1, 3} /\ pw \in {0, 1, 2} /\ bump \in {0, 3, 7} /\ steps = 0
WithinLim(u) == pc \in {"loop"} => (u - bx) * Dir <= GL * (cx - bx) * Dir
Par == UNCHANGED <<m, sl, sr, pw, bump>> /\ steps' = steps + 1
NEvalA == \E u \in 0..N : EvalA(u, F(u)) /\ Par
NEvalB == \E u \in 0..N : EvalB(u, F(u)) /\ Par
NEvalC == \E u \in 0..N : EvalC(u, F(u)) /\ Par
NInsideLow == \E u \in 0..N : Inside(u, F(u)) /\ F(u) < fc /\ Par
NInsideHigh == \E u \in 0..N : Inside(u, F(u)) /\ ~(F(u) < fc) /\ F(u) > fb /\ Par
NInsideUndecided == \E u \in 0..N : Inside(u, F(u)) /\ ~(F(u) < fc) /\ ~(F(u) > fb) /\ Par
NGolden == \E u \in 0..N : Golden(u, F(u)) /\ Par
NOutsideShift == \E u \in 0..N : WithinLim(u) /\ OutsideShift(u, F(u)) /\ Par
NOutsideMore == \E u \in 0..N : WithinLim(u) /\ OutsideMore(u, F(u)) /\ Par
NExtra == \E u \in 0..N : Extra(u, F(u)) /\ Par
NExit == Exit /\ UNCHANGED <<m, sl, sr, pw, bump, steps>>
Next == NEvalA \/ NEvalB \/ NEvalC \/ NInsideLow \/ NInsideHigh \/ NInsideUndecided \/ NGolden \/ NOutsideShift \/ NOutsideMore \/ NExtra \/ NExit
Spec == Init /\ [][Next]_vars
\* every pass of the loop moves cx strictly outwards (so the loop ends on every objective with a minimum)
Outwards == [][(pc = "loop" /\ pc' = "loop") => (cx' - cx) * Dir > 0]_vars
\* the direction never turns round once it is fixed
SameDir == [][(pc \in {"loop", "g1", "s2"} /\ pc' \in {"loop", "g1", "s2", "done"}) => ((cx' > bx') <=> (cx > bx))]_vars
\* values are the objective at the positions
Values == pc \in {"loop", "g1", "s2", "done"} => fa = F(ax) /\ fb = F(bx) /\ fc = F(cx)
\* on return the minimum of the objective lies inside the triple
Encloses == (pc = "done" /\ bump = 0) => \E x \in 0..N : F(x) = 0 /\ ((ax <= x /\ x <= cx) \/ (cx <= x /\ x <= ax))
=============================================================================
