----------------------------- MODULE MC_Bilinear -----------------------------
EXTENDS Bilinear, TLC, Json, CSV, IOUtils
CONSTANT FMAX
VARIABLES f, k
FS == (-FMAX)..FMAX
Init == f = <<>> /\ k = 0
Next == \/ (Len(f) < 4 /\ \E v \in FS : f' = Append(f, v) /\ UNCHANGED k)
        \/ (Len(f) = 4 /\ k < 3 /\ k' = k + 1 /\ UNCHANGED f)
\* k selects a cell geometry (non-uniform) for the bilinear-reproduction clause; f doubles as (al,be,ga,de)
Geo == <<<<0, 1, 0, 1>>, <<0, 2, 1, 4>>, <<-3, -1, 2, 3>>, <<1, 4, -2, 0>>>>
Props == Len(f) = 4 =>
           /\ CellOK(f[1], f[2], f[3], f[4])
           /\ LET g == Geo[k+1] IN ReproducesBilinear(f[1], f[2], f[3], f[4], g[1], g[2], g[3], g[4])
Export == IF "OUT" \in DOMAIN IOEnv /\ Len(f) = 4 /\ k = 0
          THEN CSVWrite("%1$s", <<ToJson([f |-> f, v |-> [a \in 0..4 |-> [b \in 0..4 |-> Bil(f[1], f[2], f[3], f[4], Frac(a, 4), Frac(b, 4))]]])>>, IOEnv.OUT)
          ELSE TRUE
=============================================================================
