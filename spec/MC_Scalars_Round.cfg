CONSTANT LMAX = 12
INIT RInit
NEXT RNext
INVARIANT RLaws
INVARIANT RExport
CHECK_DEADLOCK FALSE
