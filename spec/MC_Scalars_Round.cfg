CONSTANT LMAX = 12
INIT RInit
NEXT RNext
INVARIANT RLaws
INVARIANT RExport
INVARIANT TExportTie
CHECK_DEADLOCK FALSE
