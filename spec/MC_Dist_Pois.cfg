INIT P_Init
NEXT P_Next
INVARIANT P_Export
INVARIANT P_Bounded
CHECK_DEADLOCK FALSE
