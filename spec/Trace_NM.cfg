SPECIFICATION Spec
POSTCONDITION TraceAccepted
CHECK_DEADLOCK FALSE
