------------------------------- MODULE Simpson -------------------------------
(***************************************************************************)
(* C03: adaptive Simpson integration (Integration.cpp: Integrate /         *)
(* Adaptive_Simpson_Integration) as a state machine over *frames*.         *)
(* A frame <<k, j>> is the j-th (0-based) sub-interval of the k-th dyadic  *)
(* subdivision of the ordered interval [lo, hi].  Start evaluates the      *)
(* integrand at lo, hi and the midpoint (3 evaluations); Panel(k, j)       *)
(* evaluates the two quarter points of frame <<k, j>> (2 evaluations) and  *)
(* either accepts (Richardson) or hands both halves down.  Which of the    *)
(* two happens depends on integrand values and is left to the environment: *)
(* the machine only fixes what *must* hold whatever the integrand is.      *)
(***************************************************************************)
EXTENDS Integers, FiniteSets

Pow2(n) == 2^n
Parent(f) == <<f[1] - 1, f[2] \div 2>>
Sibling(f) == <<f[1], IF f[2] % 2 = 0 THEN f[2] + 1 ELSE f[2] - 1>>
Root == <<0, 0>>

\* a panel may be evaluated if it is the root or a half of an already evaluated panel, at most once,
\* and never deeper than the recursion limit
CanPanel(visited, depth, f) ==
   /\ f \notin visited
   /\ f[1] >= 0 /\ f[1] <= depth
   /\ f[2] >= 0 /\ f[2] < Pow2(f[1])
   /\ (f = Root \/ Parent(f) \in visited)

\* at return the evaluated panels form a full binary tree: both halves or none
Closed(visited) == \A f \in visited : f = Root \/ Sibling(f) \in visited
Evaluations(visited) == 3 + 2 * Cardinality(visited)
CountBound(depth) == Pow2(depth + 2) + 1
\* the quarter points of frame <<k,j>> in units of (hi-lo)/2^(k+2): inside the closed interval
QuarterPoints(f) == {4 * f[2] + 1, 4 * f[2] + 3}
Inside(f) == \A q \in QuarterPoints(f) : q >= 0 /\ q <= Pow2(f[1] + 2)
\* the non-convergence warning can only come from a panel at the recursion limit
WarnPossible(visited, depth) == \E f \in visited : f[1] = depth
=============================================================================
