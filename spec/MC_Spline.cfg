CONSTANTS NMAX = 4 SPACINGS = {1,3} YVALS = {0,2} MAXOPS = 0 G = 2
INIT Init
NEXT Next
INVARIANT Props
CHECK_DEADLOCK FALSE
