---------------------------- MODULE Trace_FindMin ----------------------------
(***************************************************************************)
(* Whole executions of Find_Minimum against Bracket.tla followed by the    *)
(* bookkeeping of Brent's minimiser (BrentCore.tla).  The recorder wraps   *)
(* the objective and logs every evaluation as (rank of the abscissa, rank  *)
(* of the value) within the execution; no hook is involved.                *)
(*   MStart                                                                *)
(*   BEval x f    bracketing phase: an enabled action of Bracket.tla       *)
(*   BEval x f    hand-over: where Bracket returns, the next evaluation is *)
(*                at bx again (x = w = v = bx, bracket [min(ax,cx),        *)
(*                max(ax,cx)])                                             *)
(*   BEval x f    trial points of Brent: inside the current bracket and    *)
(*                not at x; the bracket and the three best points are      *)
(*                updated by BrentCore!BUpdate                             *)
(*   MEnd r       the returned abscissa is the model's x, the best point   *)
(*                evaluated (when the loop ends is decided by arithmetic   *)
(*                on the tolerance, which ranks do not see)                *)
(***************************************************************************)
EXTENDS Bracket, BrentCore, Sequences, TLC, Json, IOUtils
VARIABLES l, bs, phase, best, bbest   \* bs: Brent's state; phase: "bracket" | "brent"; best / bbest: lowest value rank seen so far in the
                                      \* execution / since the hand-over
vars == <<l, bvars, bs, phase, best, bbest>>
Log == ndJsonDeserialize(IOEnv.TRACE)
NoB == BState(0, 0, 0, 0, 0, 0, 0, 0)
Init == l = 1 /\ BInit /\ bs = NoB /\ phase = "bracket" /\ best = 0 /\ bbest = 0
Ev(e) == l <= Len(Log) /\ Log[l].e = e /\ l' = l + 1
Seen(f) == best' = IF best = 0 \/ f < best THEN f ELSE best
BSeen(f) == bbest' = IF bbest = 0 \/ f < bbest THEN f ELSE bbest
TStart == Ev("MStart") /\ pc = "a" /\ phase = "bracket" /\ UNCHANGED <<bvars, bs, phase>> /\ best' = 0 /\ bbest' = 0
TBracket == Ev("BEval") /\ phase = "bracket" /\ Eval(Log[l].x, Log[l].f) /\ UNCHANGED <<bs, phase, bbest>> /\ Seen(Log[l].f)
THandover == /\ Ev("BEval") /\ phase = "bracket" /\ (pc = "done" \/ (pc = "loop" /\ ~(fb > fc)))
             /\ Log[l].x = bx /\ Log[l].f = fb                                    \* the same abscissa gives the same value
             /\ bs' = BState(IF ax < cx THEN ax ELSE cx, IF ax > cx THEN ax ELSE cx, bx, bx, bx, fb, fb, fb)
             /\ phase' = "brent" /\ UNCHANGED bvars /\ Seen(Log[l].f) /\ BSeen(Log[l].f)
TTrial == /\ Ev("BEval") /\ phase = "brent"
          /\ LET u == Log[l].x IN bs.a <= u /\ u <= bs.b /\ u # bs.x
          /\ bs' = BUpdate(bs, Log[l].x, Log[l].f)
          /\ UNCHANGED <<bvars, phase>> /\ Seen(Log[l].f) /\ BSeen(Log[l].f)
TEnd == /\ Ev("MEnd") /\ phase = "brent"
        /\ Log[l].r = bs.x                                                         \* returns Brent's x ...
        /\ bs.fx = bbest                                                           \* ... which is the best point Brent evaluated
        /\ Log[l].uni => bs.fx = best                                              \* ... and, on a unimodal objective, the best of all
        /\ bs.a <= bs.x /\ bs.x <= bs.b
        /\ ax' = 0 /\ bx' = 0 /\ cx' = 0 /\ fa' = 0 /\ fb' = 0 /\ fc' = 0 /\ pc' = "a" /\ tu' = 0 /\ tfu' = 0
        /\ bs' = NoB /\ phase' = "bracket" /\ best' = 0 /\ bbest' = 0
Next == TStart \/ TBracket \/ THandover \/ TTrial \/ TEnd
Spec == Init /\ [][Next]_vars
TraceAccepted == TLCGet("stats").diameter - 1 = Len(Log)
=============================================================================
