---------------------------- MODULE Bracket_Ind ----------------------------
(***************************************************************************)
(* The inductive invariant of Bracket.tla for Apalache (symbolic, unbounded *)
(* integers) - a second engine next to the TLAPS proof                      *)
(* proofs/Bracket_Proof.tla, which states the same invariant:               *)
(*   apalache-mc check --init=BInit   --next=BNext --inv=Inv --length=0     *)
(*   apalache-mc check --init=InvInit --next=BNext --inv=Inv --length=1     *)
(* (base case and inductive step).                                          *)
(***************************************************************************)
EXTENDS Bracket
Mono == (ax < bx /\ bx < cx) \/ (ax > bx /\ bx > cx)
Inv == /\ pc \in {"a", "b", "c", "loop", "g1", "s2", "done"}
       /\ pc = "c" => (ax # bx /\ fb <= fa)
       /\ pc \in {"loop", "g1", "s2", "done"} => Mono
       /\ pc \in {"loop", "g1", "s2"} => fb <= fa
       /\ pc \in {"g1", "s2"} => fb > fc
       /\ pc = "s2" => (tfu < fc /\ Further(tu, cx))
       /\ pc = "done" => (fb <= fa /\ fb <= fc)
InvInit == /\ ax \in Int /\ bx \in Int /\ cx \in Int /\ fa \in Int /\ fb \in Int /\ fc \in Int /\ tu \in Int /\ tfu \in Int
           /\ pc \in {"a", "b", "c", "loop", "g1", "s2", "done"}
           /\ Inv
BNext == (\E u \in Int, fu \in Int : Eval(u, fu)) \/ Exit
=============================================================================
