CONSTANTS NMAX = 7 SALTS = 5
INIT Init
NEXT Next
INVARIANT Laws
INVARIANT Export
CHECK_DEADLOCK FALSE
