CONSTANTS N = 10 GL = 3
SPECIFICATION Spec
INVARIANT Monotone
INVARIANT Downhill
INVARIANT Bracketed
INVARIANT Values
INVARIANT Encloses
PROPERTY Outwards
PROPERTY SameDir
CHECK_DEADLOCK FALSE
