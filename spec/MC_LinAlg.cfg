CONSTANTS MAXD = 4 SALTS = 6
INIT Init
NEXT Next
INVARIANT Laws
CHECK_DEADLOCK FALSE
