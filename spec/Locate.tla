------------------------------- MODULE Locate -------------------------------
(***************************************************************************)
(* Index search of libphysica::Interpolation (Numerics.cpp: Bisection,     *)
(* Hunt, Locate) on *position codes*.                                      *)
(*                                                                         *)
(* A query argument x is abstracted, relative to a table of N knots        *)
(* x[0] < ... < x[N-1], to a code p:                                       *)
(*    2k+1  x equals knot k            (k in 0..N-1)                       *)
(*    2k+2  x strictly between knots k and k+1   (k in 0..N-2)             *)
(*    0     x below the domain, inside the 1% tolerance zone               *)
(*    2N    x above the domain, inside the 1% tolerance zone               *)
(*    -1 / 2N+1   outside the tolerance zones (meaningless request, C10)   *)
(* Every comparison the code makes between x and a knot is a comparison    *)
(* between p and 2k+1, so the three routines are transcribed exactly.      *)
(*                                                                         *)
(* Two layers:                                                             *)
(*   A (algorithm): Bis / HuntUp / HuntDown / Loc and the cache update     *)
(*      corr' = (j >= jLast /\ j - jLast < 10)   -- fabs() of an unsigned  *)
(*      difference: a downward step wraps around and is "uncorrelated".    *)
(*   S (property):  SegOK(p, j): the returned segment contains x.          *)
(* The refinement A => S and index safety are checked by TLC (MC_Locate).  *)
(***************************************************************************)
EXTENDS Integers, Sequences, FiniteSets, TLC

CONSTANT N          \* number of knots, >= 3

Codes     == 0..(2*N)                 \* meaningful position codes
InDomain(p) == p >= 1 /\ p <= 2*N-1
IsKnot(p) == p % 2 = 1
KnotOf(p) == (p - 1) \div 2

\* comparisons between the query and knot k
GE(p,k) == p >= 2*k+1     \* x >= x[k]
GT(p,k) == p >  2*k+1     \* x >  x[k]
LT(p,k) == p <  2*k+1     \* x <  x[k]

IdxOK(k) == k >= 0 /\ k <= N-1         \* array read inside the table
Poison == -1000                        \* result of a path that reads out of bounds

(***************************************************************************)
(* Bisection(x, jLeft, jRight)                                             *)
(***************************************************************************)
RECURSIVE Bis(_,_,_)
Bis(p, jl, jr) ==
  IF jr - jl > 1
  THEN LET jm == (jr + jl) \div 2 IN
       IF ~IdxOK(jm) THEN Poison
       ELSE IF GE(p,jm) THEN Bis(p,jm,jr) ELSE Bis(p,jl,jm)
  ELSE jl

(***************************************************************************)
(* Hunt: geometric expansion from jLast, then bisection.                   *)
(* The upward loop is `while(ju < N-1 && x >= x[ju])` (right-continuous at *)
(* knots, like Bisection); the downward loop is `while(x < x[jd])`.        *)
(* Returned pair <<jd,ju>>; <<Poison,Poison>> on an out-of-bounds read.    *)
(***************************************************************************)
RECURSIVE Up(_,_,_,_)
Up(p, jd, ju, dj) ==
  IF ~IdxOK(ju) THEN <<Poison, Poison>>
  ELSE IF ju < N-1 /\ GE(p,ju)
       THEN LET jd2 == ju
                ju2 == ju + dj IN
            IF ju2 > N-1 THEN <<jd2, N-1>> ELSE Up(p, jd2, ju2, dj+dj)
       ELSE <<jd,ju>>

RECURSIVE Down(_,_,_,_)
Down(p, jd, ju, dj) ==
  IF ~IdxOK(jd) THEN <<Poison, Poison>>
  ELSE IF LT(p,jd)
       THEN LET ju2 == jd
                jd2 == jd - dj IN
            IF jd2 < 0 THEN <<0, ju2>> ELSE Down(p, jd2, ju2, dj+dj)
       ELSE <<jd,ju>>

Hunt(p, jLast) ==
  IF ~IdxOK(jLast) THEN Poison
  ELSE IF GT(p,jLast)
       THEN LET b == Up(p, jLast, jLast+1, 1) IN
            IF b[1] = Poison THEN Poison
            ELSE IF b[2]-b[1] > 1 THEN Bis(p,b[1],b[2]) ELSE b[1]
  ELSE IF LT(p,jLast)
       THEN LET b == Down(p, jLast-1, jLast, 1) IN
            IF b[1] = Poison THEN Poison
            ELSE IF b[2]-b[1] > 1 THEN Bis(p,b[1],b[2]) ELSE b[1]
  ELSE jLast

(***************************************************************************)
(* Locate(x): domain / tolerance test, search selection.                   *)
(***************************************************************************)
Loc(p, jLast, corr) ==
  IF p = 0 THEN 0
  ELSE IF p = 2*N THEN N-2
  ELSE IF corr THEN Hunt(p, jLast) ELSE Bis(p, 0, N-1)

\* cache update of Locate
NextCorr(j, jLast) == (j >= jLast /\ j - jLast < 10)

\* state after one Locate(p) from cache state c = [j |-> jLast, c |-> corr]
Step(c, p) == LET j == Loc(p, c.j, c.c) IN [j |-> j, c |-> NextCorr(j, c.j)]

\* state after a sequence of Locate calls (one public entry point = one sequence)
RECURSIVE Steps(_,_)
Steps(c, ps) == IF ps = <<>> THEN c ELSE Steps(Step(c, Head(ps)), Tail(ps))

(***************************************************************************)
(* S: the returned segment contains the argument. At a knot either          *)
(* neighbouring segment contains it.                                       *)
(***************************************************************************)
SegOK(p,j) == /\ j \in 0..(N-2)
              /\ \/ (p = 0 /\ j = 0)
                 \/ (p = 2*N /\ j = N-2)
                 \/ (InDomain(p) /\ 2*j+1 <= p /\ p <= 2*j+3)

\* right-continuous convention (what Bisection returns): the unique segment
RightCont(p) == IF p = 0 THEN 0 ELSE IF p >= 2*N-1 THEN N-2 ELSE (p-1) \div 2

(***************************************************************************)
(* Which Locate calls each public entry point makes, in order.             *)
(***************************************************************************)
Min2(a,b) == IF a <= b THEN a ELSE b
Max2(a,b) == IF a <= b THEN b ELSE a
CallSeq(kind, p, q) ==
  CASE kind = "Locate" -> <<p>>
    [] kind = "I"      -> <<p>>
    [] kind = "D0"     -> <<p, p>>          \* Derivative(x,0): Locate, then Interpolate
    [] kind \in {"D1","D2","D3","D4"} -> <<p>>
    [] kind = "Int"    -> <<Min2(p,q), Max2(p,q)>>
    [] kind \in {"LMin","LMax"} -> <<p, q, p, q>>
    [] kind \in {"GMin","GMax"} -> <<>>
Kinds == {"Locate","I","D0","D1","D2","D3","D4","Int","LMin","LMax","GMin","GMax"}
=============================================================================
