------------------------------- MODULE MC_Elim -------------------------------
(***************************************************************************)
(* Families of square matrices named by the quantifier of C05, generated   *)
(* from (family, size, salt); laws of the determinant checked on the exact *)
(* model; every matrix exported with exact determinant and adjugate.       *)
(***************************************************************************)
EXTENDS Elim, TLC, Json, CSV, IOUtils
CONSTANTS NMAX, SALTS
VARIABLES fam, n, salt
vars == <<fam, n, salt>>
Families == {"dense", "perm", "sperm", "zeropivot", "tinypivot", "lower", "upper", "diag", "symm", "rankdef"}
Init == fam \in Families /\ n = 1 /\ salt = 0
Next == \/ (n < NMAX /\ n' = n + 1 /\ UNCHANGED <<fam, salt>>)
        \/ (salt < SALTS /\ salt' = salt + 1 /\ UNCHANGED <<fam, n>>)
H(i, j, s) == ((i * 7 + j * 13 + s * 31 + i * j * (s + 3) + (i + s) * (j + 2 * s)) % 3) - 1        \* in {-1,0,1}
H5(i, j, s) == ((i * 11 + j * 17 + s * 29 + i * j * (s + 1)) % 5) - 2                                \* in -2..2
\* a permutation of 1..n chosen by the salt: a cyclic shift (even salt) or a reversal-shift (odd salt), then one transposition
Sigma(nn, s, i) == LET a == IF s % 2 = 0 \/ nn = 1 THEN 1 ELSE nn - 1
                       b == (s * 3 + 1) % nn
                       base == ((a * (i - 1) + b) % nn) + 1
                       t1 == (s % nn) + 1
                       t2 == ((s \div 2 + 1) % nn) + 1
                   IN  IF base = t1 THEN t2 ELSE IF base = t2 THEN t1 ELSE base
Mat ==
  CASE fam = "dense"     -> [i \in 1..n |-> [j \in 1..n |-> IF n <= 5 THEN H5(i, j, salt) ELSE H(i, j, salt)]]
    [] fam = "perm"      -> [i \in 1..n |-> [j \in 1..n |-> IF Sigma(n, salt, i) = j THEN 1 ELSE 0]]
    [] fam = "sperm"     -> [i \in 1..n |-> [j \in 1..n |-> IF Sigma(n, salt, i) = j THEN (IF (i + salt) % 2 = 0 THEN 1 ELSE -1) * (1 + ((i + salt) % 3)) ELSE 0]]
    [] fam = "zeropivot" -> [i \in 1..n |-> [j \in 1..n |-> IF i = j /\ i <= 1 + (salt % n) THEN 0 ELSE IF i = j THEN 2 ELSE 1 + ((i + 2 * j + salt) % 2)]]   \* zero leading principal minors
    [] fam = "tinypivot" -> [i \in 1..n |-> [j \in 1..n |->            \* trailing block [[1,K],[K,K]] (pivot 1 against K ~ 2e4: growth K without row exchange), identity elsewhere
                              LET K == 19683 + salt IN
                              IF n = 1 THEN 1
                              ELSE IF i < n - 1 \/ j < n - 1 THEN (IF i = j THEN 1 ELSE 0)
                              ELSE IF i = n - 1 /\ j = n - 1 THEN 1 ELSE K]]
    [] fam = "lower"     -> [i \in 1..n |-> [j \in 1..n |-> IF j > i THEN 0 ELSE IF i = j THEN 1 + ((i + salt) % 3) ELSE H5(i, j, salt)]]
    [] fam = "upper"     -> [i \in 1..n |-> [j \in 1..n |-> IF j < i THEN 0 ELSE IF i = j THEN (-1) - ((i + salt) % 2) ELSE H5(i, j, salt)]]
    [] fam = "diag"      -> [i \in 1..n |-> [j \in 1..n |-> IF i = j THEN (IF (i + salt) % 2 = 0 THEN 1 ELSE -1) * (1 + ((i * salt) % 4)) ELSE 0]]
    [] fam = "symm"      -> [i \in 1..n |-> [j \in 1..n |-> IF i <= j THEN H(i, j, salt) + (IF i = j THEN 2 ELSE 0) ELSE H(j, i, salt)]]
    [] fam = "all2"      -> [i \in 1..2 |-> [j \in 1..2 |-> ((salt \div (5^(2 * (i - 1) + (j - 1)))) % 5) - 2]]      \* every 2x2 matrix over -2..2
    [] fam = "all3"      -> [i \in 1..3 |-> [j \in 1..3 |-> ((salt \div (3^(3 * (i - 1) + (j - 1)))) % 3) - 1]]      \* every 3x3 matrix over -1..1
    [] fam = "rankdef"   -> [i \in 1..n |-> [j \in 1..n |-> IF n = 1 THEN 0 ELSE IF i < n THEN H(i, j, salt) ELSE IF n = 2 THEN 2 * H(1, j, salt) ELSE H(1, j, salt) + H(2, j, salt)]]
AllInit == (fam = "all2" /\ n = 2 /\ salt \in 0..31) \/ (fam = "all3" /\ n = 3 /\ salt \in 0..31)      \* 32 interleaved chains (parallel BFS)
AllNext == salt + 32 <= (IF fam = "all2" THEN 624 ELSE 19682) /\ salt' = salt + 32 /\ UNCHANGED <<fam, n>>
M2 == [i \in 1..n |-> [j \in 1..n |-> H(j + 1, i + 2, salt + 1)]]
Laws == LET M == Mat  d == Det(M) IN
  /\ IsMatrix(M)
  /\ Det(Transpose(M)) = d                                            \* transpose invariance
  /\ (n >= 2 => Det(SwapRows(M, 1, n)) = -d)                          \* sign change under a row swap
  /\ (n <= 5 /\ fam # "tinypivot" => Det(MProd(M, M2)) = d * Det(M2))                      \* multiplicativity
  /\ (fam \in {"lower", "upper", "diag"} => d = LET P[k \in 0..n] == IF k = 0 THEN 1 ELSE P[k-1] * M[k][k] IN P[n])   \* triangular: product of the diagonal
  /\ (fam = "rankdef" /\ n >= 2 => d = 0)
  /\ (fam \in {"perm", "sperm"} => d # 0)
  /\ MProd(M, Adj(M)) = MScal(Identity(n), d)                         \* M adj(M) = det(M) I  (the exact inverse is adj/det)
  /\ MProd(Adj(M), M) = MScal(Identity(n), d)
Export == IF "OUT" \in DOMAIN IOEnv
          THEN CSVWrite("%1$s", <<ToJson([fam |-> fam, n |-> n, salt |-> salt, m |-> Mat, det |-> Det(Mat), adj |-> Adj(Mat)])>>, IOEnv.OUT)
          ELSE TRUE
=============================================================================
