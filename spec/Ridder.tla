------------------------------- MODULE Ridder -------------------------------
(***************************************************************************)
(* C02: Find_Root (Ridder's method) on a finite ordered grid of positions  *)
(* 0..N -- which is what floating-point abscissae are.  The function is    *)
(* known through its sign only: a set of root codes (code 2p = "zero at    *)
(* position p", code 2p+1 = "sign change between p and p+1").              *)
(*                                                                         *)
(* A (the code): ends, NaN / sign checks, then per iteration               *)
(*   x3 = midpoint of the bracket (either rounding),                       *)
(*   x4 = some position between x3 and the bracket end on the root's side  *)
(*        (all that Ridder's formula guarantees without sqrt),             *)
(*   the stopping rule RULE, evaluation of f(x4), the three re-bracketing  *)
(*   cases in the code's order, the iteration cap.                         *)
(* RULE = "iterates": stop when two successive x4 differ by less than acc  *)
(*        (the pinned code).  TLC REFUTES AccOK for it.                    *)
(* RULE = "verified": additionally require that the function changes sign  *)
(*        within acc of x4 (bracket no wider than acc, or a probe one acc  *)
(*        step into the bracket has the other sign); otherwise go on with  *)
(*        the probe as new bracket end.  TLC proves AccOK.                 *)
(* S (the property): see the invariants at the end.                        *)
(***************************************************************************)
EXTENDS Integers, FiniteSets, TLC
CONSTANTS N, ACCS, RULE, MAXIT, ROOTSETS
VARIABLES roots, flip, acc, pc, x1, x2, x3, x4, res, conv, it, ret, evals
vars == <<roots, flip, acc, pc, x1, x2, x3, x4, res, conv, it, ret, evals>>

Abs(x) == IF x < 0 THEN -x ELSE x
\* sign of the function at position p
Sg(p) == IF 2 * p \in roots THEN 0
         ELSE flip * (IF Cardinality({r \in roots : r < 2 * p}) % 2 = 0 THEN -1 ELSE 1)
Between(u, v) == IF u <= v THEN u..v ELSE v..u
Mids(u, v) == {(u + v) \div 2, (u + v + 1) \div 2}
\* the function changes sign or vanishes within acc of position p (inside the original bracket 0..N)
SignChangeNear(p) == \E u, v \in {q \in 0..N : Abs(q - p) <= acc} : Sg(u) * Sg(v) <= 0

Init == /\ roots \in ROOTSETS /\ flip \in {-1, 1} /\ acc \in ACCS
        /\ pc = "start" /\ x1 = 0 /\ x2 = N /\ x3 = -1 /\ x4 = -1 /\ res = -1000 /\ conv = FALSE /\ it = 0 /\ ret = -1 /\ evals = {}

Start == /\ pc = "start" /\ evals' = {0, N}
         /\ IF Sg(0) * Sg(N) >= 0
            THEN IF Sg(0) = 0 THEN pc' = "returned" /\ ret' = 0
                 ELSE IF Sg(N) = 0 THEN pc' = "returned" /\ ret' = N
                 ELSE pc' = "exit" /\ ret' = -1
            ELSE pc' = "mid" /\ ret' = -1
         /\ UNCHANGED <<roots, flip, acc, x1, x2, x3, x4, res, conv, it>>

Mid == /\ pc = "mid"
       /\ IF it >= MAXIT THEN pc' = "returned" /\ ret' = res /\ UNCHANGED <<x3, evals>>      \* iteration cap: last iterate, with a warning
          ELSE /\ x3' \in Mids(x1, x2) /\ evals' = evals \cup {x3'} /\ pc' = "new" /\ UNCHANGED ret
       /\ UNCHANGED <<roots, flip, acc, x1, x2, x4, res, conv, it>>

\* x4 lies between x3 and the end of the bracket on the root's side (f3 has the sign of f1 => root between x3 and x2)
NewPoint == /\ pc = "new"
            /\ x4' \in (IF Sg(x3) = 0 THEN {x3} ELSE IF Sg(x3) = Sg(x1) THEN Between(x3, x2) ELSE Between(x3, x1))
            /\ IF RULE = "iterates" /\ Abs(x4' - res) < acc
               THEN pc' = "returned" /\ ret' = x4' /\ UNCHANGED <<res, conv>>
               ELSE pc' = "eval4" /\ conv' = (Abs(x4' - res) < acc) /\ res' = x4' /\ UNCHANGED ret
            /\ UNCHANGED <<roots, flip, acc, x1, x2, x3, it, evals>>

Eval4 == /\ pc = "eval4" /\ evals' = evals \cup {x4}
         /\ LET f1 == Sg(x1)  f2 == Sg(x2)  f3 == Sg(x3)  f4 == Sg(x4) IN
            IF f4 = 0 THEN pc' = "returned" /\ ret' = x4 /\ UNCHANGED <<x1, x2>>
            ELSE /\ UNCHANGED ret
                 /\ IF f3 # 0 /\ f3 # f4 THEN x1' = x3 /\ x2' = x4 /\ pc' = "check"      \* a) x3 and x4 bracket the root
                    ELSE IF f1 # f4 THEN x2' = x4 /\ x1' = x1 /\ pc' = "check"           \* b) x1 and x4
                    ELSE IF f2 # f4 THEN x1' = x4 /\ x2' = x2 /\ pc' = "check"           \* c) x2 and x4
                    ELSE pc' = "lost" /\ UNCHANGED <<x1, x2>>                            \* "does not reach the root"
         /\ UNCHANGED <<roots, flip, acc, x3, x4, res, conv, it>>

\* after re-bracketing x4 is one end of the bracket
Check == /\ pc = "check"
         /\ IF RULE = "iterates" THEN pc' = "mid" /\ it' = it + 1 /\ UNCHANGED <<x1, x2, ret, evals>>
            ELSE IF Abs(x2 - x1) <= acc THEN pc' = "returned" /\ ret' = x4 /\ UNCHANGED <<x1, x2, it, evals>>
            ELSE IF ~conv THEN pc' = "mid" /\ it' = it + 1 /\ UNCHANGED <<x1, x2, ret, evals>>
            ELSE LET other == IF x1 = x4 THEN x2 ELSE x1
                     xp == IF other > x4 THEN x4 + acc ELSE x4 - acc IN        \* probe one accuracy step into the bracket
                 /\ evals' = evals \cup {xp}
                 /\ IF Sg(xp) = 0 \/ Sg(xp) # Sg(x4) THEN pc' = "returned" /\ ret' = x4 /\ UNCHANGED <<x1, x2, it>>
                    ELSE /\ (IF x1 = x4 THEN x1' = xp /\ x2' = x2 ELSE x2' = xp /\ x1' = x1)
                         /\ pc' = "mid" /\ it' = it + 1 /\ UNCHANGED ret
         /\ UNCHANGED <<roots, flip, acc, x3, x4, res, conv>>

Next == Start \/ Mid \/ NewPoint \/ Eval4 \/ Check
Spec == Init /\ [][Next]_vars

\* ------------------------------------------------------------------ properties
Running == pc \in {"mid", "new", "eval4", "check"}
Bracket == Running => Sg(x1) * Sg(x2) < 0                                  \* the bracket always holds a sign change
Inside == evals \subseteq 0..N /\ (Running => x1 \in 0..N /\ x2 \in 0..N) \* never evaluates outside the original bracket
NeverLost == pc # "lost"                                                   \* the "does not reach the root" exit is dead code
ExitRight == pc = "exit" <=> (pc \notin {"start"} /\ Sg(0) * Sg(N) > 0)    \* exits exactly when there is no sign change and no zero end
EndZero == (pc = "returned" /\ Sg(0) * Sg(N) >= 0) => (ret = (IF Sg(0) = 0 THEN 0 ELSE N))   \* a zero end is returned as is
RetInside == pc = "returned" => ret \in 0..N
AccOK == (pc = "returned" /\ Sg(0) * Sg(N) < 0) => SignChangeNear(ret)     \* a sign change or zero within acc of the returned point
Nested == [][Running /\ Running' => Between(x1', x2') \subseteq Between(x1, x2)]_vars   \* brackets are nested
Halves == [][pc = "eval4" /\ pc' = "check" => 2 * Abs(x2' - x1') <= Abs(x2 - x1) + 1]_vars   \* and at least halve per iteration
NoCap == ~(pc = "returned" /\ it >= MAXIT)                                 \* the cap is never reached on this grid
=============================================================================
