----------------------------- MODULE Trace_Gamma -----------------------------
(***************************************************************************)
(* Trace validation for C06.                                               *)
(*  * Fact events drive the memo machine of Gamma.tla: the only state is   *)
(*    the table length L.  A call must find the table as the machine left  *)
(*    it, leave it at LAfter(L,n), must not alter an existing entry, and   *)
(*    must return n! (q: relative error against the exact Big value, unit  *)
(*    16 eps) whatever L was; recq: n! = n (n-1)! on the library's values. *)
(*  * The other events carry residuals against the exact values exported   *)
(*    by MC_Gamma (replay) or relations between the library's own outputs  *)
(*    (record), quantised by the recorder in the unit the property states; *)
(*    the specification checks the unit (tol) against the parameter a and  *)
(*    the bound.                                                           *)
(***************************************************************************)
EXTENDS Gamma, Json, IOUtils
VARIABLES l, L
Log == ndJsonDeserialize(IOEnv.TRACE)
Init == l = 1 /\ L = 1
Ev(e) == l <= Len(Log) /\ Log[l].e = e /\ l' = l + 1

TReset == Ev("Reset") /\ L' = 1
\* (obs: the build exports the memo table, so its length is observed; otherwise the table is private to the library, the history
\* ran in a fresh process, the model's L advances on its own and only the returned values are judged)
TFact == Ev("Fact") /\ LET ev == Log[l] IN
           /\ FactDefined(ev.n)
           /\ ev.ret                                      \* the call returned
           /\ L' = LAfter(L, ev.n)                        \* grows to n+1 entries, never shrinks
           /\ ev.obs => /\ ev.Lb = L                      \* the table is what the calls so far made it
                        /\ ev.La = LAfter(L, ev.n)
                        /\ ("Lspec" \in DOMAIN ev => ev.Lspec = ev.La) \* ... and that is what MC_Gamma's Memo machine exported for this history
                        /\ ev.stable                      \* entries never change once written
           /\ ev.q <= 1 /\ ev.recq <= 1                   \* returns n! whatever L was
TGammaAt == Ev("GammaAt") /\ Log[l].lnq <= 1 /\ Log[l].gq <= 1 /\ UNCHANGED L
TBinom == Ev("Binom") /\ LET ev == Log[l] IN ev.q <= 1 /\ ev.symq <= 1 /\ ev.pasq <= 1 /\ ev.zero /\ UNCHANGED L
TolOK(a2, tol) == tol = (IF a2 <= 200 THEN "1e-12" ELSE "1e-3")
TQ == Ev("Q") /\ LET ev == Log[l] IN
        /\ TolOK(ev.a2, ev.tol)
        /\ ev.qq <= 1 /\ ev.pq <= 1                       \* agreement with the exact series (x expl/erfcl)
        /\ ev.inrange /\ ev.sumq <= 1 /\ ev.ulq <= 1      \* P,Q in [0,1], P+Q = 1, Upper+Lower = Gamma
        /\ ev.branch = (IF ev.a2 > 200 THEN "quad" ELSE IF ev.m < ev.a2 + 2 THEN "series" ELSE "cf")   \* the recorder's branch label is the code's selection rule
        /\ UNCHANGED L
TRel == Ev("Rel") /\ UNCHANGED L /\ LET ev == Log[l] IN
          \/ (ev.kind = "lnGamma" /\ ev.libq <= 1 /\ ev.recq <= 1 /\ ev.grecq <= 1 /\ ev.glibq <= 1)
          \/ (ev.kind = "PQ" /\ ev.inrange /\ ev.monoq <= 1 /\ ev.sumq <= 1 /\ ev.recq <= 1 /\ ev.ulq <= 1)
TInv == Ev("Inv") /\ UNCHANGED L /\ LET ev == Log[l] IN
          /\ ev.tol = (IF ev.hi THEN "1e-3" ELSE "1e-7")
          /\ ev.fin /\ ev.pq <= 1 /\ ev.qq <= 1
Next == TReset \/ TFact \/ TGammaAt \/ TBinom \/ TQ \/ TRel \/ TInv
Spec == Init /\ [][Next]_<<l, L>>
TraceAccepted == TLCGet("stats").diameter - 1 = Len(Log)
=============================================================================
