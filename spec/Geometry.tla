------------------------------ MODULE Geometry ------------------------------
(***************************************************************************)
(* C16: rotations and spherical coordinates, where they are rational.      *)
(* With (cos a, sin a) from a Pythagorean triple and a unit axis from a    *)
(* Pythagorean quadruple, Rodrigues' matrix                                *)
(*    R = c I + (1-c) n n^T + s [n]_x                                      *)
(* has rational entries.  TLC checks on these exact matrices that R is     *)
(* proper orthogonal, fixes the axis, turns vectors perpendicular to the   *)
(* axis by the angle in the right-handed sense and composes by angle       *)
(* addition; plain spherical coordinates with rational sines and cosines   *)
(* have norm r and the stated components.                                  *)
(***************************************************************************)
EXTENDS Rat, Sequences, TLC

\* <<cos, sin>> pairs (all four quadrants) and unit axes <<n1,n2,n3>> as rationals
V3(a, b, c) == <<a, b, c>>
Dot(u, v) == RAdd(RAdd(RMul(u[1], v[1]), RMul(u[2], v[2])), RMul(u[3], v[3]))
Cross(u, v) == <<RSub(RMul(u[2], v[3]), RMul(u[3], v[2])), RSub(RMul(u[3], v[1]), RMul(u[1], v[3])), RSub(RMul(u[1], v[2]), RMul(u[2], v[1]))>>
Rodrigues(cs, n) ==
  LET c == cs[1]  s == cs[2]  t == RSub(ROne, c) IN
  << <<RAdd(c, RMul(t, RMul(n[1], n[1]))), RSub(RMul(t, RMul(n[1], n[2])), RMul(s, n[3])), RAdd(RMul(t, RMul(n[1], n[3])), RMul(s, n[2]))>>,
     <<RAdd(RMul(t, RMul(n[1], n[2])), RMul(s, n[3])), RAdd(c, RMul(t, RMul(n[2], n[2]))), RSub(RMul(t, RMul(n[2], n[3])), RMul(s, n[1]))>>,
     <<RSub(RMul(t, RMul(n[1], n[3])), RMul(s, n[2])), RAdd(RMul(t, RMul(n[2], n[3])), RMul(s, n[1])), RAdd(c, RMul(t, RMul(n[3], n[3])))>> >>
MatVec(M, v) == <<Dot(M[1], v), Dot(M[2], v), Dot(M[3], v)>>
Col(M, j) == <<M[1][j], M[2][j], M[3][j]>>
MatMul(A, B) == [i \in 1..3 |-> [j \in 1..3 |-> Dot(A[i], Col(B, j))]]
Transp(M) == [i \in 1..3 |-> [j \in 1..3 |-> M[j][i]]]
Ident == [i \in 1..3 |-> [j \in 1..3 |-> IF i = j THEN ROne ELSE RZero]]
Det3(M) == Dot(M[1], Cross(M[2], M[3]))
AngleSum(a, b) == <<RSub(RMul(a[1], b[1]), RMul(a[2], b[2])), RAdd(RMul(a[2], b[1]), RMul(a[1], b[2]))>>     \* (cos, sin) of the sum

RotationLaws(cs, cs2, n, v) ==
  LET Rm == Rodrigues(cs, n)  Rm2 == Rodrigues(cs2, n)  w == MatVec(Rm, v)
      vp == <<RSub(v[1], RMul(Dot(v, n), n[1])), RSub(v[2], RMul(Dot(v, n), n[2])), RSub(v[3], RMul(Dot(v, n), n[3]))>>     \* part of v perpendicular to the axis
  IN /\ Dot(n, n) = ROne /\ RAdd(RMul(cs[1], cs[1]), RMul(cs[2], cs[2])) = ROne
     /\ MatMul(Transp(Rm), Rm) = Ident /\ Det3(Rm) = ROne                                   \* proper orthogonal
     /\ MatVec(Rm, n) = n                                                                 \* the axis is fixed
     /\ MatMul(Rm, Rm2) = Rodrigues(AngleSum(cs, cs2), n)                                  \* same axis: angles add
     /\ Dot(MatVec(Rm, vp), vp) = RMul(cs[1], Dot(vp, vp))                                \* perpendicular vectors turn by alpha ...
     /\ Dot(n, Cross(vp, MatVec(Rm, vp))) = RMul(cs[2], Dot(vp, vp))                      \* ... in the right-handed sense
     /\ Dot(w, w) = Dot(v, v)
\* plain spherical coordinates with rational sines/cosines
Spherical(r, th, ph) == <<RMul(r, RMul(th[2], ph[1])), RMul(r, RMul(th[2], ph[2])), RMul(r, th[1])>>
SphericalLaws(r, th, ph) == LET x == Spherical(r, th, ph) IN Dot(x, x) = RMul(r, r) /\ x[3] = RMul(r, th[1])
=============================================================================
