CONSTANTS HLEN = 3 NMAX = 400 NCHK = 60 ABIG = {}
INIT QS_Init
NEXT QS_Next
INVARIANT QS_Laws
INVARIANT QS_Export
INVARIANT QS_Bounded
CHECK_DEADLOCK FALSE
