INIT Init
NEXT Next
INVARIANT AllDefined
INVARIANT UniqueNames
INVARIANT InitOrderSafe
INVARIANT UnitsExact
INVARIANT DimsRight
INVARIANT NonZero
CHECK_DEADLOCK FALSE
