---------------------------- MODULE GaussLegendre ----------------------------
(***************************************************************************)
(* C12: Gauss-Legendre rules.                                              *)
(*                                                                         *)
(* A (index structure of Compute_Gauss_Legendre_Roots_and_Weights): the    *)
(* loop runs i = 0..m-1 with m = (n+1) div 2 and writes slots i and n-1-i  *)
(* (for odd n the middle slot twice).  Machine Fill: every slot written,   *)
(* mirrored slots written in the same step.                                *)
(*                                                                         *)
(* A (affine map): a rule on [-1,1] is a sequence of <<z, w>> pairs; the   *)
(* code maps slot i to x_mid - hw z and slot n-1-i to x_mid + hw z with    *)
(* weight hw * w.  On rational stand-in rules TLC checks that the map      *)
(* yields an ascending, symmetric rule whose weights sum to b-a, and for   *)
(* reversed limits the mirror image with negated weights.                  *)
(*                                                                         *)
(* X (moments): int_a^b (x-a)^k dx = (b-a)^(k+1)/(k+1), exact in Big.      *)
(***************************************************************************)
EXTENDS Rat, Big, Sequences, FiniteSets, TLC

\* ------------------------------------------------------------------ Fill machine
MidCount(n) == (n + 1) \div 2
SlotsOfStep(n, i) == {i, n - 1 - i}
FillOK(n, written, i) == \* after steps 0..i-1
   written = UNION {SlotsOfStep(n, j) : j \in 0..(i - 1)}

\* ------------------------------------------------------------------ affine map of a symmetric half-rule
\* half = sequence of <<z, w>> (rationals) for the non-negative nodes z_1 > z_2 > ... >= 0 of a symmetric rule on [-1,1];
\* n = number of nodes of the full rule (odd n: the last z is 0)
Slot(n, half, a, b, s) ==          \* s in 0..n-1 : <<node, weight>> as the code assigns them
  LET mid == RDiv(RAdd(a, b), R(2))
      hw  == RDiv(RSub(b, a), R(2))
      i   == IF s < MidCount(n) THEN s ELSE n - 1 - s          \* loop index that writes slot s (the last write wins)
      z   == half[i + 1][1]   w == half[i + 1][2]
  IN IF s < MidCount(n) /\ ~(n % 2 = 1 /\ s = n - 1 - s)
     THEN <<RSub(mid, RMul(hw, z)), RMul(hw, w)>>
     ELSE <<RAdd(mid, RMul(hw, z)), RMul(hw, w)>>
RuleOn(n, half, a, b) == [s \in 0..(n - 1) |-> Slot(n, half, a, b, s)]
RECURSIVE RSumF(_,_,_)
RSumF(F, lo, hi) == IF lo > hi THEN RZero ELSE RAdd(F[lo][2], RSumF(F, lo + 1, hi))
RuleLaws(n, half, a, b) ==
  LET Ru == RuleOn(n, half, a, b)   Rv == RuleOn(n, half, b, a)   fwd == RLt(a, b) IN
  /\ \A s \in 0..(n - 2) : IF fwd THEN RLt(Ru[s][1], Ru[s + 1][1]) ELSE RLt(Ru[s + 1][1], Ru[s][1])     \* ordered in the direction of integration
  /\ \A s \in 0..(n - 1) : /\ RAdd(Ru[s][1], Ru[n - 1 - s][1]) = RAdd(a, b)                               \* symmetric about the midpoint
                           /\ Ru[s][2] = Ru[n - 1 - s][2]
                           /\ RSgn(Ru[s][2]) = (IF fwd THEN 1 ELSE -1)                                    \* weights carry the orientation
                           /\ Rv[s][1] = Ru[n - 1 - s][1] /\ Rv[s][2] = RNeg(Ru[n - 1 - s][2])            \* reversed limits: mirror image, negated
                           /\ (IF fwd THEN RLt(a, Ru[s][1]) /\ RLt(Ru[s][1], b) ELSE RLt(b, Ru[s][1]) /\ RLt(Ru[s][1], a))
  /\ RSumF(Ru, 0, n - 1) = RSub(b, a)                                                                     \* weights sum to b-a

\* ------------------------------------------------------------------ acceptance of a recorded rule (trace side)
RuleAccepted(ev) ==
  /\ ev.len = ev.n /\ ev.width2 /\ ev.fin
  /\ ev.mono /\ ev.inside /\ ev.wsign
  /\ ev.symxq <= 1 /\ ev.symwq <= 1 /\ ev.sumq <= 1
  /\ ev.deg = 2 * ev.n - 1 /\ ev.exq <= 1 /\ ev.monq <= 1 /\ ev.beyond
  /\ ev.ovq <= 1 /\ ev.ovexq <= 1 /\ ev.mirq <= 1
=============================================================================
