CONSTANT LMAX = 12
INIT TInit
NEXT TNext
INVARIANT TLaws
INVARIANT TExport
CHECK_DEADLOCK FALSE
