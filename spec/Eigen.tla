-------------------------------- MODULE Eigen --------------------------------
(***************************************************************************)
(* C15: symmetric integer matrices with a planted integer eigen-structure. *)
(* A matrix is assembled from 1x1 blocks <<lam>> and 2x2 blocks            *)
(* [[a,b],[b,a]] (eigenvalues a+b, a-b with eigenvectors (1,1), (1,-1)),   *)
(* then conjugated with a permutation, so that eigenvectors have zero      *)
(* components in scattered positions.  The specification states, and TLC   *)
(* checks exactly, that every planted pair satisfies M v = lam v, that the *)
(* spectrum sums to the trace and is separated in magnitude.               *)
(***************************************************************************)
EXTENDS LinAlg, FiniteSets, TLC

\* spectrum pool: even integers, magnitudes decreasing with ratios between 0.3 and 0.75, both signs
Pool == <<1920, -1280, 768, -512, 320, 192, -96, 48>>
\* a pattern is a sequence of block sizes (1 or 2); block k uses the next eigenvalues of the pool, starting at offset off
RECURSIVE BlockStart(_,_)
BlockStart(pat, k) == IF k = 1 THEN 1 ELSE BlockStart(pat, k - 1) + pat[k - 1]
Size(pat) == BlockStart(pat, Len(pat)) + pat[Len(pat)] - 1
\* position -> <<block index, offset in block>>
BlockOf(pat, i) == CHOOSE k \in 1..Len(pat) : BlockStart(pat, k) <= i /\ i < BlockStart(pat, k) + pat[k]
Lam(off, i) == Pool[off + i]
\* entry of the block-diagonal matrix before the permutation
BEntry(pat, off, i, j) ==
  LET k == BlockOf(pat, i) IN
  IF BlockOf(pat, j) # k THEN 0
  ELSE IF pat[k] = 1 THEN Lam(off, i)
  ELSE LET s == BlockStart(pat, k)  l1 == Lam(off, s)  l2 == Lam(off, s + 1) IN
       IF i = j THEN (l1 + l2) \div 2 ELSE (l1 - l2) \div 2
\* a permutation of 1..n from a salt: cyclic shift composed with a reversal for odd salts
Perm(n, salt, i) == LET r == IF salt % 2 = 1 THEN n + 1 - i ELSE i IN ((r - 1 + salt \div 2) % n) + 1
Mat(pat, off, salt) == LET n == Size(pat) IN [i \in 1..n |-> [j \in 1..n |-> BEntry(pat, off, Perm(n, salt, i), Perm(n, salt, j))]]
\* planted eigenvector (integer, not normalised) of eigenvalue number e (1..n, in pool order), after the permutation
EVec(pat, off, salt, e) ==
  LET n == Size(pat)  k == BlockOf(pat, e)  s == BlockStart(pat, k) IN
  [i \in 1..n |-> LET q == Perm(n, salt, i) IN
                  IF pat[k] = 1 THEN (IF q = e THEN 1 ELSE 0)
                  ELSE IF q = s THEN 1 ELSE IF q = s + 1 THEN (IF e = s THEN 1 ELSE -1) ELSE 0]
AbsI(x) == IF x < 0 THEN -x ELSE x
EigenLaws(pat, off, salt) ==
  LET n == Size(pat)  M == Mat(pat, off, salt) IN
  /\ Symmetric(M)
  /\ \A e \in 1..n : MVec(M, EVec(pat, off, salt, e)) = VScal(EVec(pat, off, salt, e), Lam(off, e))        \* M v = lambda v, exactly
  /\ TraceM(M) = SumTo([e \in 1..n |-> Lam(off, e)], n)                                                    \* the spectrum sums to the trace
  /\ \A e \in 1..(n - 1) : 5 * AbsI(Lam(off, e + 1)) <= 4 * AbsI(Lam(off, e)) /\ 10 * AbsI(Lam(off, e + 1)) >= AbsI(Lam(off, e))   \* ratios in [0.1, 0.8]
  /\ \A e, f \in 1..n : e # f => Dot(EVec(pat, off, salt, e), EVec(pat, off, salt, f)) = 0                 \* planted eigenvectors are orthogonal
=============================================================================
