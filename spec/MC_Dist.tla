------------------------------- MODULE MC_Dist -------------------------------
EXTENDS Distributions, Json, CSV, IOUtils, FiniteSets
Out(rec) == IF "OUT" \in DOMAIN IOEnv THEN CSVWrite("%1$s", <<ToJson(rec)>>, IOEnv.OUT) ELSE TRUE
VARIABLES a, b, c
vars == <<a, b, c>>
\* (Binomial coefficients come from the Pascal machine of MC_Gamma: the replayer forms C(n,x) p^x (1-p)^(n-x) with dyadic p = k/8.)
\* ---- Poisson: a = m (mean m/8), b = count k, c = Horner state for sum_{j<=k}
PM == {1, 4, 8, 20, 80, 240, 792, 800, 808, 1600, 4000, 8000}
PK(m) == LET mu == m \div 8  r == ISqrt(mu) + 1 IN {k \in ({0, 1, 2, 3, 5, 10, 98, 99, 100, 101, 500} \cup {mu + s * cc * r : s \in {-1, 1}, cc \in {0, 1, 2, 4, 6}}) : k >= 0 /\ k <= 500}
P_Init == a = 0 /\ b = -1 /\ c = <<>>
P_Next == \/ (a = 0 /\ a' \in PM /\ UNCHANGED <<b, c>>)
          \/ (a # 0 /\ b = -1 /\ b' \in PK(a) /\ c' = PoisStart(b') /\ UNCHANGED a)
          \/ (a # 0 /\ b >= 0 /\ c.lev > 1 /\ c' = PoisStep(c, a) /\ UNCHANGED <<a, b>>)
P_Done == a # 0 /\ b >= 0 /\ c.lev = 1
P_Export == P_Done => LET t == PoisTerm(a, b) IN Out([k |-> "pois", m8 |-> a, cnt |-> b, cnum |-> c.n, cden |-> c.d, pnum |-> t[1], pden |-> t[2]])
P_Bounded == (a # 0 /\ b >= 0) => LimbsBelow(c.n, 20000) /\ LimbsBelow(c.d, 20000)
=============================================================================
