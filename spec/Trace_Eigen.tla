------------------------------ MODULE Trace_Eigen ------------------------------
(***************************************************************************)
(* Trace validation for C15.  Every request ran in its own process with a  *)
(* time limit: an exit or a timeout is an observation (valret / sysret     *)
(* false), and the property demands a return for every matrix of the       *)
(* quantifier.                                                             *)
(*  QR  : Q orthogonal, R upper triangular exactly, QR = M (64 n eps).     *)
(*  Eig : Eigenvalues returns the planted spectrum (1e-10 ||M||), it sums  *)
(*        to the trace; Eigensystem returns n pairs with unit vectors,     *)
(*        M v = lambda v (1e-11 ||M||) and, for the exact families of       *)
(*        MC_Eigen, vectors parallel to the planted ones (1e-9).           *)
(***************************************************************************)
EXTENDS Integers, Sequences, TLC, Json, IOUtils
VARIABLE l
Log == ndJsonDeserialize(IOEnv.TRACE)
Reject(i) == TLCSet(7, Append(TLCGet(7), i))
Judge(ok) == IF ok THEN TRUE ELSE Reject(l)
Init == l = 1 /\ TLCSet(7, <<>>)
Ev(e) == l <= Len(Log) /\ Log[l].e = e /\ l' = l + 1
TQR == Ev("QR") /\ LET ev == Log[l] IN Judge(ev.returned /\ ev.fin /\ ev.triu /\ ev.orthoq <= 1 /\ ev.resq <= 1)
TEig == Ev("Eig") /\ LET ev == Log[l] IN Judge(
          /\ ev.cls \in {"diagonal", "block", "random"}
          /\ ev.valret /\ ev.cnt /\ ev.valq <= 1 /\ ev.sumq <= 1                  \* the spectrum
          /\ ev.sysret /\ ev.syscnt                                              \* Eigensystem terminates and returns n pairs
          /\ ev.sysvalq <= 1                                                      \* one pair for each eigenvalue of the spectrum
          /\ ev.normq <= 1 /\ ev.resq <= 1 /\ ev.parq <= 1)                       \* unit vectors, M v = lambda v, parallel to the planted vectors
Next == TQR \/ TEig
Spec == Init /\ [][Next]_l
TraceAccepted == /\ TLCGet("stats").diameter - 1 = Len(Log)
                 /\ PrintT(<<"REJECTED-EVENTS", TLCGet(7)>>)
                 /\ TLCGet(7) = <<>>
=============================================================================
