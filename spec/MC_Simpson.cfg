CONSTANT DMAX = 3
INIT Init
NEXT Next
INVARIANT Bounded
INVARIANT AllInside
INVARIANT ClosedAtEnd
CHECK_DEADLOCK FALSE
