----------------------------- MODULE MC_Helpers -----------------------------
(***************************************************************************)
(* Bounded exhaustive models for C19.  One module, several machines; each  *)
(* .cfg selects INIT/NEXT and the invariants of one machine.               *)
(*   WD      : A => S for Workload_Distribution on the full (w,t) grid     *)
(*   Range   : RangeSpec satisfies RangeOK on the (min,max,step) grid;     *)
(*             exports expected sequences                                  *)
(*   Closest : A => S for all sorted lists (with duplicates) x targets     *)
(*   Lists   : list templates: laws on the definitions, exports cases      *)
(*   Stats   : exact mean / variance / median / weighted mean; laws;       *)
(*             exports cases                                               *)
(***************************************************************************)
EXTENDS Helpers, TLC, Json, CSV, IOUtils

CONSTANTS WMAX, TMAX,        \* workload grid
          RLIM, SMAX,        \* Range: min,max in -RLIM..RLIM, step 1..SMAX
          LMAX, VMAX,        \* Closest: list length, values 0..VMAX (targets are half-integers => scaled by 2)
          DLEN, DHI,         \* Stats: exhaustive data sets up to DLEN over -DHI..DHI
          RNDLEN             \* Stats: one pseudo-random data set grown up to RNDLEN

Out(rec) == IF "OUT" \in DOMAIN IOEnv THEN CSVWrite("%1$s", <<ToJson(rec)>>, IOEnv.OUT) ELSE TRUE

VARIABLES a, b, c      \* generic registers of the machine in use
vars == <<a, b, c>>

\* ------------------------------------------------------------------ WD
WD_Init == a = 1 /\ b = 0 /\ c = 0
WD_Next == \/ (b < TMAX /\ b' = b + 1 /\ UNCHANGED <<a, c>>)
           \/ (a < WMAX /\ a' = a + 1 /\ UNCHANGED <<b, c>>)
WD_Refines == WD_S(WD_A(a, b), a, b)

\* ------------------------------------------------------------------ Range
Range_Init == a \in -RLIM..RLIM /\ b = -RLIM /\ c = 1
Range_Next == \/ (b < RLIM /\ b' = b + 1 /\ UNCHANGED <<a, c>>)
              \/ (c < SMAX /\ c' = c + 1 /\ UNCHANGED <<a, b>>)
Range_OK   == RangeOK(RangeSpec(a, b, c), a, b, c)
Range_Export == Out([k |-> "Range", min |-> a, max |-> b, step |-> c, out |-> RangeSpec(a, b, c)])

\* ------------------------------------------------------------------ Closest (a = sorted list)
Cl_Init == a = <<>> /\ b = 0 /\ c = 0
Cl_Next == /\ Len(a) < LMAX
           /\ \E v \in 0..VMAX : (IF a = <<>> THEN TRUE ELSE 2*v >= a[Len(a)]) /\ a' = Append(a, 2*v)
           /\ UNCHANGED <<b, c>>
Targets == -3..(2*VMAX + 3)        \* scaled by 2: all integers and half-integers from below to above
Cl_Refines == a = <<>> \/ \A t \in Targets : ClosestOK(a, t, Closest_A(a, t))
Cl_Export  == a = <<>> \/ Out([k |-> "Closest", list |-> a, idx |-> [t \in Targets |-> Closest_A(a, t)], t0 |-> -3])

\* ------------------------------------------------------------------ Lists (a, b = lists over 0..2)
Li_Init == a = <<>> /\ b = <<>> /\ c = 0
Li_Next == \/ (Len(a) < LMAX /\ \E v \in 0..2 : a' = Append(a, v) /\ UNCHANGED <<b, c>>)
           \/ (Len(b) < 2 /\ \E v \in 0..2 : b' = Append(b, v) /\ UNCHANGED <<a, c>>)
Li_Laws == /\ Len(Combine(a, b)) = Len(a) + Len(b)
           /\ Flatten(<<a, b, a>>) = a \o b \o a
           /\ \A x \in 0..2 : Contains(a, x) <=> FindIndices(a, x) # <<>>
           /\ \A x \in 0..2 : \A k \in 1..Len(FindIndices(a, x)) : a[FindIndices(a, x)[k] + 1] = x
           /\ \A i1 \in -1..Len(a), i2 \in 0..(Len(a)+2) :
                 LET s == SubList(a, i1, i2) IN
                 /\ Len(s) <= Len(a)
                 /\ (a # <<>> /\ i1 <= 0 /\ i2 >= Len(a) - 1 => s = a)
                 /\ \A k \in 1..Len(s) : s[k] = a[(IF i1 < 0 THEN 0 ELSE i1) + k]
           /\ (Len(a) = Len(b) /\ a # <<>> => TransposeL(TransposeL(<<a, b>>)) = <<a, b>>)
Li_Export == Out([k |-> "Lists", a |-> a, b |-> b,
                  combine |-> Combine(a, b), flat |-> Flatten(<<a, b, a>>),
                  find |-> [x \in 0..2 |-> FindIndices(a, x)],
                  has  |-> [x \in 0..2 |-> Contains(a, x)],
                  sub  |-> [i1 \in -1..1 |-> [i2 \in 0..(Len(a)+2) |-> SubList(a, i1, i2)]],
                  tr   |-> IF Len(a) = Len(b) /\ a # <<>> THEN TransposeL(<<a, b>>) ELSE <<>>])

\* ------------------------------------------------------------------ Stats (a = data, b = LCG state, c = mode)
Lcg(s) == (s * 1103 + 12345) % 65536
St_Init == a = <<>> /\ b = 7 /\ c \in {0, 1}
St_Next == \/ (c = 0 /\ Len(a) < DLEN /\ \E v \in (-DHI)..DHI : a' = Append(a, v) /\ UNCHANGED <<b, c>>)
           \/ (c = 1 /\ Len(a) < RNDLEN /\ a' = Append(a, (Lcg(b) % 101) - 50) /\ b' = Lcg(b) /\ UNCHANGED c)
Shift(d, k) == [i \in 1..Len(d) |-> d[i] + k]
Scale(d, k) == [i \in 1..Len(d) |-> d[i] * k]
Rev(d)      == [i \in 1..Len(d) |-> d[Len(d) + 1 - i]]
StW(d) == [i \in 1..Len(d) |-> 1 + (i % 3)]
St_Laws == a = <<>> \/
           /\ Mean(Shift(a, 3)) = RAdd(Mean(a), R(3))
           /\ Mean(Scale(a, -2)) = RMul(Mean(a), R(-2))
           /\ Mean(Rev(a)) = Mean(a) /\ Median(Rev(a)) = Median(a)
           /\ Median(Shift(a, 3)) = RAdd(Median(a), R(3))
           /\ (Len(a) > 1 => /\ Variance(Shift(a, 3)) = Variance(a)
                             /\ Variance(Scale(a, -2)) = RMul(Variance(a), R(4))
                             /\ RSgn(Variance(a)) >= 0)
           /\ WMean(a, [i \in 1..Len(a) |-> 3]) = Mean(a)
           /\ (Len(a) \in 2..5 => LET w == StW(a) IN
                 /\ WMean(Shift(a, 3), w) = RAdd(WMean(a, w), R(3)) /\ WMean(Scale(a, -2), w) = RMul(WMean(a, w), R(-2))
                 /\ WSE2(Shift(a, 3), w) = WSE2(a, w)                                   \* translation
                 /\ WSE2(Scale(a, -2), w) = RMul(WSE2(a, w), R(4))                      \* scaling
                 /\ WSE2(Rev(a), Rev(w)) = WSE2(a, w)                                   \* permutation
                 /\ WSE2(a, Scale(w, 2)) = WSE2(a, w)                                   \* weights matter only up to a common factor
                 /\ WSE2(a, [i \in 1..Len(a) |-> 3]) = SE2Equal(a)                     \* reduction to s^2/N
                 /\ WSE2Cochran(a, w) = WSE2(a, w))                                     \* the formula of the code is that quantity
St_Export == a = <<>> \/
             Out([k |-> "Stats", data |-> a, mean |-> Mean(a), median |-> Median(a),
                  var |-> IF Len(a) > 1 THEN Variance(a) ELSE <<0, 1>>,
                  w |-> [i \in 1..Len(a) |-> 1 + (i % 3)],
                  wmean |-> WMean(a, [i \in 1..Len(a) |-> 1 + (i % 3)]),
                  se2eq |-> IF Len(a) > 1 THEN SE2Equal(a) ELSE <<0, 1>>,
                  wse2 |-> IF Len(a) \in 2..5 THEN WSE2(a, StW(a)) ELSE <<-1, 1>>])
=============================================================================
