------------------------------- MODULE WDCore -------------------------------
(* The index formula of Workload_Distribution, shared by Helpers (TLC) and proofs/WD_Proof (TLAPS).                          *)
(* idx = 0..w is the 0-based position in the list of w+1 entries, q = tasks \div workers, r = tasks % workers:               *)
(* everybody gets q, the last r workers one more -- the code adds (r - i) to entry w - i for i = 0..r-1.                     *)
EXTENDS Integers
WDIndex(w, q, r, idx) == idx * q + (IF w - idx < r THEN r - (w - idx) ELSE 0)
=============================================================================
