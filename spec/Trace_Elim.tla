----------------------------- MODULE Trace_Elim -----------------------------
(***************************************************************************)
(* Acceptance of the replay of MC_Elim's matrices through the real         *)
(* Determinant / Invertible / Inverse.  `sing` is the exact singularity    *)
(* computed by the specification (Det = 0) and travels with the case; all  *)
(* residuals are quantised by the replayer in the unit the property        *)
(* prescribes: n x kappa x eps for the inverse (kappa from the exact       *)
(* inverse), n x eps x prod ||row||_1 for the determinant.                 *)
(***************************************************************************)
EXTENDS Integers, Sequences, TLC, Json, IOUtils
VARIABLE l
Log == ndJsonDeserialize(IOEnv.TRACE)
Init == l = 1
TCase == /\ l <= Len(Log) /\ Log[l].e = "Case" /\ l' = l + 1
         /\ LET ev == Log[l] IN
            /\ ev.detq <= 1                                  \* Determinant agrees with the exact (pivoted, fraction-free) value
            /\ ev.invertible = ~ev.sing                      \* Invertible is true exactly when the determinant is non-zero
            /\ ~ev.mem
            /\ ev.ret = ~ev.sing                             \* Inverse returns for every invertible matrix, and only then
            /\ (~ev.ret => ev.status # 0 /\ ev.diag)         \* singular: failure status and diagnostic
            /\ (ev.ret => ev.invq <= 1 /\ ev.resLq <= 1 /\ ev.resRq <= 1)   \* X ~ exact inverse; X M ~ I; M X ~ I (one more factor kappa)
Next == TCase
Spec == Init /\ [][Next]_l
TraceAccepted == TLCGet("stats").diameter - 1 = Len(Log)
=============================================================================
