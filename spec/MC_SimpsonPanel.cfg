INIT Init
NEXT Next
INVARIANT QuinticExact
INVARIANT NotVacuous
INVARIANT ChildInherits
INVARIANT CubicSimpson
CHECK_DEADLOCK FALSE
