---------------------------- MODULE Trace_LinAlg ----------------------------
(***************************************************************************)
(* Trace validation for C04.  Every event is one call of a Vector/Matrix   *)
(* operation in one of its spellings, recorded from the real library with  *)
(* integer operands (possibly scaled by powers of two by the recorder and  *)
(* scaled back exactly) and its result, or the fact that the process was   *)
(* terminated with a diagnostic.  Accepted iff                             *)
(*     returned  <=>  Defined(op, operands)                                *)
(*     returned  =>   result = definition                                  *)
(*     not returned => non-zero exit status and non-empty diagnostic       *)
(***************************************************************************)
EXTENDS LinAlg, TLC, Json, IOUtils
VARIABLE l
Log == ndJsonDeserialize(IOEnv.TRACE)
Init == l = 1
Ev(e) == l <= Len(Log) /\ Log[l].e = e /\ l' = l + 1

Idx0(A, op, ix) ==    \* 0-based index arguments inside the object?
  CASE op \in {"Row", "DelRow"} -> ix[1] \in 0..(Rows(A)-1)
    [] op \in {"Col", "DelCol"} -> ix[1] \in 0..(Cols(A)-1)
    [] op = "SubMatrix" -> ix[1] \in 0..(Rows(A)-1) /\ ix[2] \in 0..(Cols(A)-1)
IdxResult(A, op, ix) ==
  CASE op = "Row" -> RowOf(A, ix[1] + 1)
    [] op = "Col" -> ColOf(A, ix[1] + 1)
    [] op = "DelRow" -> DelRow(A, ix[1] + 1)
    [] op = "DelCol" -> DelCol(A, ix[1] + 1)
    [] op = "SubMatrix" -> SubMatrix(A, ix[1] + 1, ix[2] + 1)

Outcome(ev, defined, expected) ==
  IF ev.ret THEN defined /\ ev.out = expected
  ELSE ~defined /\ ev.status # 0 /\ ev.diag

TOp == /\ Ev("Op")
       /\ LET ev == Log[l] IN
          Outcome(ev, Defined(ev.op, ev.A, ev.B), IF Defined(ev.op, ev.A, ev.B) THEN Result(ev.op, ev.A, ev.B) ELSE 0)
TIdx == /\ Ev("Idx")
        /\ LET ev == Log[l] IN
           Outcome(ev, Idx0(ev.A, ev.op, ev.ix), IF Idx0(ev.A, ev.op, ev.ix) THEN IdxResult(ev.A, ev.op, ev.ix) ELSE 0)
TBlock == /\ Ev("Block")
          /\ LET ev == Log[l] IN
             Outcome(ev, BlockOK(ev.A, ev.B, ev.C, ev.D),
                     IF BlockOK(ev.A, ev.B, ev.C, ev.D) THEN Block(ev.A, ev.B, ev.C, ev.D) ELSE 0)
TBlockG == /\ Ev("BlockG")
           /\ LET ev == Log[l] IN Outcome(ev, GridOK(ev.G), IF GridOK(ev.G) THEN BlockGrid(ev.G) ELSE 0)
\* scalars that are not powers of two (3, -7, 0.1), subnormal or huge: division distributes over the entries to rounding (2 ulp),
\* finite quotients are finite, every spelling
TCorner == /\ Ev("Corner") /\ Log[l].fin /\ Log[l].ulps <= 2
Next == TOp \/ TIdx \/ TBlock \/ TBlockG \/ TCorner
Spec == Init /\ [][Next]_l
TraceAccepted == TLCGet("stats").diameter - 1 = Len(Log)
=============================================================================
