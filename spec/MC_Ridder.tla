----------------------------- MODULE MC_Ridder -----------------------------
EXTENDS Ridder
\* one root anywhere (zero at a position or sign change between positions), and every triple of distinct sign changes
OneRoot == {{r} : r \in 0..(2 * N)}
ThreeRoots == {{2 * i + 1, 2 * j + 1, 2 * k + 1} : i, j, k \in 0..(N - 1)} \ {{2 * i + 1} : i \in 0..(N - 1)}
NoRoot == {{}}
TwoRoots == {{2 * i + 1, 2 * j + 1} : i, j \in 0..(N - 1)} \ {{2 * i + 1} : i \in 0..(N - 1)}
RootSetsAll == OneRoot \cup {s \in ThreeRoots : Cardinality(s) = 3} \cup NoRoot \cup {s \in TwoRoots : Cardinality(s) = 2 /\ \A r \in s : r > 1 /\ r < 2 * N - 1}
=============================================================================
