CONSTANT N = 12
INIT Init
NEXT Next
VIEW view
INVARIANT CacheInRange
INVARIANT ReturnOK
INVARIANT HistoryFree
INVARIANT CorrRule
INVARIANT Export
