------------------------------- MODULE Trace_NM -------------------------------
(***************************************************************************)
(* Recorded executions of Minimization::minimize on ARBITRARY objectives   *)
(* (any dimension, any scale) against the control structure of             *)
(* NelderMead.tla.  Where a trial point lies is vector arithmetic, but     *)
(* every decision of the method is a comparison of objective values: the   *)
(* ranking (ilo, ihi, inhi with the code's tie rules - the very operator   *)
(* Rank of NelderMead.tla, applied to value ranks), acceptance of a trial  *)
(* point (ytry < y[ihi]), expansion after ytry <= y[ilo], contraction      *)
(* after ytry >= y[inhi], shrink after a contraction that is not below the *)
(* saved worst value, in index order around the best vertex.  The recorder *)
(* wraps the objective and logs each value as its rank among the values of *)
(* the execution:                                                          *)
(*   NStart mpts                                                           *)
(*   NEval f      initial vertices in order, then one line per trial point *)
(*   NEnd y nfunc fmin   the reported vertex values (ranks), the reported   *)
(*                evaluation count and minimum                             *)
(* The trace is accepted iff every evaluation is the one the model expects *)
(* next, and at the end the model's vertex values, best first, its count   *)
(* of evaluations and its minimum are what the object reports.  When the   *)
(* method stops is decided by the fractional range (arithmetic): NEnd is   *)
(* accepted at any loop head.                                              *)
(***************************************************************************)
EXTENDS NelderMead, Json, IOUtils
VARIABLES l, yv, st, rk, ysave, todo, cnt, mp
vars == <<l, yv, st, rk, ysave, todo, cnt, mp>>
Log == ndJsonDeserialize(IOEnv.TRACE)
NoRank == [ilo |-> 0, ihi |-> 0, inhi |-> 0]
Init == l = 1 /\ yv = <<>> /\ st = "idle" /\ rk = NoRank /\ ysave = RZero /\ todo = <<>> /\ cnt = 0 /\ mp = 0
Ev(e) == l <= Len(Log) /\ Log[l].e = e /\ l' = l + 1
Accept(y, i, f) == IF RLt(f, y[i]) THEN [y EXCEPT ![i] = f] ELSE y          \* amotry: the trial point replaces the worst vertex only if it is better

TNStart == /\ Ev("NStart") /\ st = "idle" /\ Log[l].mpts >= 2
           /\ st' = "init" /\ yv' = <<>> /\ cnt' = 0 /\ mp' = Log[l].mpts /\ UNCHANGED <<rk, ysave, todo>>
TInit == /\ Ev("NEval") /\ st = "init"
         /\ yv' = Append(yv, R(Log[l].f))
         /\ st' = (IF Len(yv) + 1 = mp THEN "loop" ELSE "init") /\ UNCHANGED <<rk, ysave, todo, cnt, mp>>
TReflect == /\ Ev("NEval") /\ st = "loop"
            /\ LET r == Rank(yv)  f == R(Log[l].f)  y1 == Accept(yv, r.ihi, f) IN
               /\ yv' = y1 /\ rk' = r
               /\ IF RLe(f, yv[r.ilo]) THEN st' = "exp" /\ ysave' = ysave
                  ELSE IF RGe(f, y1[r.inhi]) THEN st' = "con" /\ ysave' = y1[r.ihi]
                  ELSE st' = "loop" /\ ysave' = ysave
            /\ cnt' = cnt + 1 /\ UNCHANGED <<todo, mp>>
TExpand == /\ Ev("NEval") /\ st = "exp"
           /\ yv' = Accept(yv, rk.ihi, R(Log[l].f)) /\ st' = "loop" /\ cnt' = cnt + 1 /\ UNCHANGED <<rk, ysave, todo, mp>>
TContract == /\ Ev("NEval") /\ st = "con"
             /\ LET f == R(Log[l].f) IN
                /\ yv' = Accept(yv, rk.ihi, f)
                /\ IF RGe(f, ysave) THEN st' = "shr" /\ todo' = SelectSeq([i \in 1..mp |-> i], LAMBDA i : i # rk.ilo)
                                    ELSE st' = "loop" /\ todo' = todo
             /\ cnt' = cnt + 1 /\ UNCHANGED <<rk, ysave, mp>>
TShrink == /\ Ev("NEval") /\ st = "shr" /\ todo # <<>>
           /\ yv' = [yv EXCEPT ![Head(todo)] = R(Log[l].f)] /\ todo' = Tail(todo)
           /\ st' = (IF Tail(todo) = <<>> THEN "loop" ELSE "shr") /\ cnt' = cnt + 1 /\ UNCHANGED <<rk, ysave, mp>>
TNEnd == /\ Ev("NEnd") /\ st = "loop"
         /\ LET r == Rank(yv)  ev == Log[l]
                final == [yv EXCEPT ![1] = yv[r.ilo], ![r.ilo] = yv[1]] IN          \* best vertex first
            /\ Len(ev.y) = mp /\ \A i \in 1..mp : R(ev.y[i]) = final[i]
            /\ R(ev.fmin) = final[1]
            /\ ev.nfunc = cnt
         /\ st' = "idle" /\ UNCHANGED <<yv, rk, ysave, todo, cnt, mp>>
Next == TNStart \/ TInit \/ TReflect \/ TExpand \/ TContract \/ TShrink \/ TNEnd
Spec == Init /\ [][Next]_vars
TraceAccepted == TLCGet("stats").diameter - 1 = Len(Log)
=============================================================================
