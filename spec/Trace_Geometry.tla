---------------------------- MODULE Trace_Geometry ----------------------------
(***************************************************************************)
(* Trace validation for C16.  Rot: an exact rational Rodrigues matrix of   *)
(* MC_Geometry against Rotation_Matrix (unit 16 eps).  Obs: one relation   *)
(* instance on random arguments, residual quantised by the recorder in the *)
(* unit of its kind; every result must be finite, whatever the axis class. *)
(***************************************************************************)
EXTENDS Integers, Sequences, TLC, Json, IOUtils
VARIABLES l, seen
vars == <<l, seen>>
Log == ndJsonDeserialize(IOEnv.TRACE)
Kinds == {"orthogonal", "det", "axisfixed", "compose", "turncos", "turnsin", "rot2d", "plain", "norm", "polar", "handed"}
Classes == {"sphere", "coordinate", "nearz", "exactz", "plain"}
Init == l = 1 /\ seen = {}
Ev(e) == l <= Len(Log) /\ Log[l].e = e /\ l' = l + 1
TRot == Ev("Rot") /\ Log[l].shape /\ Log[l].q <= 1 /\ UNCHANGED seen
TObs == /\ Ev("Obs") /\ LET ev == Log[l] IN ev.kind \in Kinds /\ ev.cls \in Classes /\ ev.fin /\ ev.q <= 1
        /\ seen' = seen \cup {<<Log[l].kind, Log[l].cls>>}
\* beyond the listed properties (a trace of its own; a rejection is a note): Normalized has norm one, is parallel to the original,
\* leaves it untouched and equals Normalize in place; Angle(v, axis) of a vector at polar angle theta is theta, symmetric
TAux == /\ Ev("Aux") /\ LET ev == Log[l] IN ev.dim \in 1..6 /\ ev.size /\ ev.normq <= 1 /\ ev.kept /\ ev.same /\ ev.angq \in -1..1 /\ ev.sym
        /\ UNCHANGED seen
Next == TRot \/ TObs \/ TAux
Spec == Init /\ [][Next]_vars
TraceAccepted == TLCGet("stats").diameter - 1 = Len(Log)
\* every axis class was exercised for the axis-relative clauses
Covered == l > Len(Log) => \A c \in {"sphere", "coordinate", "nearz", "exactz"} : <<"norm", c>> \in seen /\ <<"polar", c>> \in seen
=============================================================================
