CONSTANTS MAXIT = 6
          WIDE = FALSE
INIT Init
NEXT Next
INVARIANT YIsObjective
INVARIANT BestMonotone
INVARIANT PsumOK
INVARIANT CountOK
INVARIANT DoneOK
INVARIANT Export
CHECK_DEADLOCK FALSE
