CONSTANT MAXIT = 6
INIT Init
NEXT Next
INVARIANT YIsObjective
INVARIANT BestMonotone
INVARIANT PsumOK
INVARIANT CountOK
INVARIANT DoneOK
INVARIANT Export
CHECK_DEADLOCK FALSE
