----------------------------- MODULE MC_Simpson -----------------------------
(* All adaptive bisection trees for recursion limits 0..DMAX: the environment chooses accept / recurse.  *)
EXTENDS Simpson, TLC
CONSTANT DMAX
VARIABLES depth, visited, accepted, done
vars == <<depth, visited, accepted, done>>
Init == depth \in 0..DMAX /\ visited = {} /\ accepted = {} /\ done = FALSE
Pending == {f \in ({Root} \cup {<<g[1] + 1, 2 * g[2] + b>> : g \in visited \ accepted, b \in 0..1}) : f \notin visited}
\* Panel: evaluate a pending frame; at the recursion limit it must accept, otherwise the environment decides
Panel(f, acc) == /\ ~done /\ f \in Pending /\ CanPanel(visited, depth, f)
                 /\ (f[1] = depth => acc)
                 /\ visited' = visited \cup {f}
                 /\ accepted' = IF acc THEN accepted \cup {f} ELSE accepted
                 /\ UNCHANGED <<depth, done>>
Finish == ~done /\ Pending = {} /\ done' = TRUE /\ UNCHANGED <<depth, visited, accepted>>
Next == (\E f \in Pending, acc \in BOOLEAN : Panel(f, acc)) \/ Finish
\* invariants
Bounded   == Evaluations(visited) <= CountBound(depth)
AllInside == \A f \in visited : Inside(f) /\ f[1] <= depth
ClosedAtEnd == done => Closed(visited)
Progress  == done \/ Pending # {} \/ visited # {}
=============================================================================
