---------------------------- MODULE Trace_Interp ----------------------------
(***************************************************************************)
(* Trace validation for C01 on real-valued tables.  An execution is        *)
(*   Reset{N,dim}  then one Interval{i,...} per interval i = 1..N-1 (1D)   *)
(*                 or one Cell{i,...} per grid cell (2D), in order,        *)
(*                 then Zone{end} for both extrapolation zones (1D).       *)
(* The state machine makes sure that *every* interval of *every* table is  *)
(* accounted for; each observation must satisfy the property's clauses:    *)
(* monotone between adjacent abscissae, between the two ordinates, knots   *)
(* reproduced, first derivative continuous, reported derivatives are the   *)
(* derivatives of the returned curve.  Residuals are integer-quantised by  *)
(* the recorder in the unit the event kind prescribes.                     *)
(***************************************************************************)
EXTENDS Integers, Sequences, TLC, Json, IOUtils
VARIABLES n, dim, nxt, zones, rev, l
vars == <<n, dim, nxt, zones, rev, l>>
Log == ndJsonDeserialize(IOEnv.TRACE)
Init == n = 1 /\ dim = 0 /\ nxt = 1 /\ zones = 0 /\ rev = 0 /\ l = 1
Ev(e) == l <= Len(Log) /\ Log[l].e = e /\ l' = l + 1
Complete == nxt = n /\ (dim = 1 => zones = 2 /\ rev = 1)          \* all intervals / cells (both zones and the revisit) of the current table seen

TReset == /\ Ev("Reset") /\ Complete
          /\ n' = Log[l].N /\ dim' = Log[l].dim /\ nxt' = 1 /\ zones' = 0 /\ rev' = 0
TInterval == /\ Ev("Interval") /\ dim = 1
             /\ LET ev == Log[l] IN
                /\ ev.i = nxt /\ ev.i < n
                /\ ev.sg \in {-1, 0, 1}
                /\ ev.nviol = 0                \* monotone in the direction of the data (flat data: flat piece)
                /\ ev.nout = 0                 \* stays between the two tabulated values
                /\ ev.kl = 0 /\ ev.kr <= 1     \* tabulated value at both abscissae
                /\ ev.c1q <= 1                 \* first derivative continuous across the abscissa
                /\ ev.dq0 = 0 /\ ev.dq1 <= 1 /\ ev.dq2 <= 1 /\ ev.dq3 <= 1   \* Derivative(x,k) = k-th derivative of the curve
             /\ nxt' = nxt + 1 /\ UNCHANGED <<n, dim, zones, rev>>
TZone == /\ Ev("Zone") /\ dim = 1 /\ nxt = n
         /\ Log[l].end = zones /\ Log[l].q <= 1
         /\ zones' = zones + 1 /\ UNCHANGED <<n, dim, nxt, rev>>
\* the curve does not depend on the order of the queries: every revisited point gives the bits of the sequential pass
TRevisit == /\ Ev("Revisit") /\ dim = 1 /\ zones = 2 /\ rev = 0
            /\ Log[l].nq > 0 /\ Log[l].ndiff = 0 /\ Log[l].nbad = 0
            /\ rev' = 1 /\ UNCHANGED <<n, dim, nxt, zones>>
TCell == /\ Ev("Cell") /\ dim = 2
         /\ LET ev == Log[l] IN
            /\ ev.i = nxt /\ ev.i < n
            /\ ev.nout = 0 /\ ev.nodeq <= 1 /\ ev.edgeq <= 1 /\ ev.bilq <= 1
         /\ nxt' = nxt + 1 /\ UNCHANGED <<n, dim, zones, rev>>
Next == TReset \/ TInterval \/ TZone \/ TRevisit \/ TCell
Spec == Init /\ [][Next]_vars
TraceAccepted == TLCGet("stats").diameter - 1 = Len(Log)
=============================================================================
