------------------------------ MODULE Trace_Root ------------------------------
(***************************************************************************)
(* Trace validation for C02.  One execution of the real Find_Root is       *)
(*   Call{n, rlo, rhi, sLo, sHi}  Eval{rk, sg, inb}*  Return{...}          *)
(* with abscissae replaced by their ranks among all abscissae of the       *)
(* execution -- positions on an ordered grid, as in Ridder.tla.            *)
(*                                                                         *)
(* S (verdict): every evaluation inside the bracket, in whatever order and *)
(* number (the statement fixes neither); an end that is a zero is returned *)
(* as is; otherwise the returned point is inside the bracket and the       *)
(* function changes sign or vanishes within the requested accuracy of it   *)
(* (chg: the function's own signs on the window x +- acc; dq: distance to  *)
(* the nearest planted root in units of acc); both argument orders return  *)
(* the same bits; linear functions are solved to rounding; a bracket       *)
(* without sign change or with NaN ends exits with status and diagnostic.  *)
(*                                                                         *)
(* A (CHECK_A = TRUE, reported as model drift only): the first two         *)
(* evaluations are the ends, lower first; with a zero end nothing else is  *)
(* evaluated; the evaluations                                              *)
(* follow the Ridder machine -- x3 strictly inside the bracket, x4 between *)
(* x3 and the end on the root's side, re-bracketing by the code's cases,   *)
(* optional probe steps of the "verified" stopping rule.                   *)
(***************************************************************************)
EXTENDS Integers, Sequences, TLC, Json, IOUtils
CONSTANT CHECK_A
VARIABLES l, ph, n, rlo, rhi, sLo, sHi, k, x1, x2, s1, s2, x3, s3, e4
vars == <<l, ph, n, rlo, rhi, sLo, sHi, k, x1, x2, s1, s2, x3, s3, e4>>
Log == ndJsonDeserialize(IOEnv.TRACE)
Init == l = 1 /\ ph = "idle" /\ n = 0 /\ rlo = 0 /\ rhi = 0 /\ sLo = 0 /\ sHi = 0 /\ k = 0 /\ x1 = 0 /\ x2 = 0 /\ s1 = 0 /\ s2 = 0 /\ x3 = 0 /\ s3 = 0 /\ e4 = 0
Ev(e) == l <= Len(Log) /\ Log[l].e = e /\ l' = l + 1
Btw(p, u, v) == IF u <= v THEN u <= p /\ p <= v ELSE v <= p /\ p <= u

TCall == /\ Ev("Call") /\ ph \in {"idle"}
         /\ LET ev == Log[l] IN
            /\ ev.rlo = 0 /\ ev.rhi = ev.n - 1                 \* the ends are the extreme abscissae of the execution: nothing was evaluated outside
            /\ n' = ev.n /\ rlo' = ev.rlo /\ rhi' = ev.rhi /\ sLo' = ev.sLo /\ sHi' = ev.sHi
         /\ ph' = (IF CHECK_A THEN "ends" ELSE "run") /\ k' = 0 /\ e4' = 0 /\ UNCHANGED <<x1, x2, s1, s2, x3, s3>>

\* S level: an evaluation, anywhere inside the bracket, at any time
TEvalS == /\ ~CHECK_A /\ Ev("Eval") /\ ph = "run"
          /\ Log[l].inb /\ Log[l].rk \in 0..(n - 1)
          /\ k' = k + 1 /\ UNCHANGED <<ph, n, rlo, rhi, sLo, sHi, x1, x2, s1, s2, x3, s3, e4>>

\* the k-th evaluation
TEval == /\ CHECK_A /\ Ev("Eval") /\ ph \in {"ends", "mid", "new", "retonly"}
         /\ LET ev == Log[l] IN
            /\ ev.inb /\ ev.rk \in 0..(n - 1)                    \* S: inside the bracket
            /\ CASE ph = "ends" /\ k = 0 -> ev.rk = rlo /\ ev.sg = sLo /\ k' = 1 /\ ph' = "ends" /\ UNCHANGED <<x1, x2, s1, s2, x3, s3, e4>>
                 [] ph = "ends" /\ k = 1 -> /\ ev.rk = rhi /\ ev.sg = sHi /\ k' = 2
                                            \* S: with a zero end (or no sign change) nothing else may be evaluated: the machine stays in "ends"
                                            /\ ph' = (IF sLo * sHi < 0 THEN "mid" ELSE "ends")
                                            /\ x1' = rlo /\ x2' = rhi /\ s1' = sLo /\ s2' = sHi /\ UNCHANGED <<x3, s3, e4>>
                 [] ph = "ends" /\ k = 2 -> FALSE
                 [] ph = "mid" ->
                       /\ k' = k + 1
                       /\ \/ \* the midpoint x3 of the bracket
                             /\ (CHECK_A => Btw(ev.rk, x1, x2))
                             /\ x3' = ev.rk /\ s3' = ev.sg /\ ph' = "new" /\ UNCHANGED <<x1, x2, s1, s2, e4>>
                          \/ \* A: the probe of the verified stopping rule, one accuracy step from x4 (end e4) into the bracket
                             /\ CHECK_A /\ e4 # 0 /\ Btw(ev.rk, x1, x2)
                             /\ LET sEnd == IF e4 = 1 THEN s1 ELSE s2 IN
                                IF ev.sg = 0 \/ ev.sg # sEnd THEN ph' = "retonly" /\ UNCHANGED <<x1, x2, s1, s2>>
                                ELSE /\ ph' = "mid"
                                     /\ IF e4 = 1 THEN x1' = ev.rk /\ UNCHANGED <<x2, s1, s2>> ELSE x2' = ev.rk /\ UNCHANGED <<x1, s1, s2>>
                             /\ e4' = 0 /\ UNCHANGED <<x3, s3>>
                 [] ph = "new" -> \* x4, between x3 and the bracket end on the root's side, then the code's re-bracketing cases
                       /\ k' = k + 1
                       /\ (CHECK_A => s3 # 0 /\ Btw(ev.rk, x3, IF s3 = s1 THEN x2 ELSE x1))
                       /\ LET x4 == ev.rk  s4 == ev.sg IN
                          IF s4 = 0 THEN ph' = "retonly" /\ UNCHANGED <<x1, x2, s1, s2, x3, s3, e4>>
                          ELSE IF s3 # 0 /\ s3 # s4 THEN x1' = x3 /\ s1' = s3 /\ x2' = x4 /\ s2' = s4 /\ e4' = 2 /\ ph' = "mid" /\ UNCHANGED <<x3, s3>>
                          ELSE IF s1 # s4 THEN x2' = x4 /\ s2' = s4 /\ e4' = 2 /\ ph' = "mid" /\ UNCHANGED <<x1, s1, x3, s3>>
                          ELSE x1' = x4 /\ s1' = s4 /\ e4' = 1 /\ ph' = "mid" /\ UNCHANGED <<x2, s2, x3, s3>>
                 [] ph = "retonly" -> FALSE
         /\ UNCHANGED <<n, rlo, rhi, sLo, sHi>>

TReturn == /\ Ev("Return") /\ ph \in {"ends", "mid", "new", "retonly", "run"}
           /\ (CHECK_A => \/ ph \in {"ends", "retonly"}
                           \/ (ph = "mid" /\ e4 # 0)                    \* bracket no wider than the accuracy (or the iteration cap)
                           \/ (ph = "new" /\ s3 = 0))                   \* the midpoint is an exact zero
           /\ LET ev == Log[l] IN
              /\ ev.inb /\ ev.rk \in 0..(n - 1)                                      \* returned point inside the bracket
              /\ ev.same                                                             \* whichever order the ends were given in
              /\ IF sLo * sHi >= 0
                 THEN /\ (CHECK_A => ph = "ends" /\ k = 2)                           \* A: only the two ends were evaluated
                      /\ (ev.retlo /\ sLo = 0) \/ (ev.rethi /\ sHi = 0)             \* a zero end is returned as is
                 ELSE /\ ph \in {"mid", "new", "retonly", "run"}
                      /\ ev.chg \/ (ev.dq >= 0 /\ ev.dq <= 1)                         \* sign change or zero within acc of the returned point
                      /\ (ev.linq >= 0 => ev.linq <= 1)                               \* linear functions are solved exactly (to rounding)
           /\ ph' = "idle" /\ UNCHANGED <<n, rlo, rhi, sLo, sHi, k, x1, x2, s1, s2, x3, s3, e4>>

\* bracket without sign change / NaN end: must not return, must exit with failure status and a diagnostic, no memory error
TReject == /\ Ev("Reject") /\ ph = "idle"
           /\ LET ev == Log[l] IN ~ev.returned /\ ev.status # 0 /\ ev.diag /\ ~ev.mem
           /\ UNCHANGED <<ph, n, rlo, rhi, sLo, sHi, k, x1, x2, s1, s2, x3, s3, e4>>
\* "Died" (the library exited or crashed on a bracket with a sign change) is not an action: such a trace is rejected
Next == TCall \/ TEval \/ TEvalS \/ TReturn \/ TReject
Spec == Init /\ [][Next]_vars
TraceAccepted == TLCGet("stats").diameter - 1 = Len(Log)
=============================================================================
