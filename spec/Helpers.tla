------------------------------- MODULE Helpers -------------------------------
(***************************************************************************)
(* C19: partition, grid, search, list and summary-statistics helpers       *)
(* (Utilities.cpp, List_Manipulations.hpp, Statistics.cpp §5).             *)
(* S = what any correct implementation may return; A = what this code does.*)
(***************************************************************************)
EXTENDS Integers, Sequences, FiniteSets, Rat, WDCore

\* ------------------------------------------------------------------ Workload_Distribution
\* A: quotient for everybody, the remainder goes to the last `rem` workers.
\* index_list[workers - i] += rem - i  for i in 0..rem-1   (0-based list of workers+1 entries)
WD_A(w, t) == [k \in 1..(w+1) |-> WDIndex(w, t \div w, t % w, k - 1)]   \* k = 0-based index + 1; proofs/WD_Proof.tla proves WD_S for every w, t
\* S: workers+1 non-decreasing indices from 0 to tasks; consecutive differences differ by at most one
WD_S(s, w, t) == /\ Len(s) = w + 1
                 /\ s[1] = 0 /\ s[w+1] = t
                 /\ \A k \in 1..w : s[k] <= s[k+1]
                 /\ LET D == {s[k+1] - s[k] : k \in 1..w} IN \A x \in D, y \in D : x - y \in {-1, 0, 1}

\* ------------------------------------------------------------------ Range
RECURSIVE RangeUp(_,_,_), RangeDown(_,_,_)
RangeUp(i, max, step)   == IF i < max THEN <<i>> \o RangeUp(i + step, max, step) ELSE <<>>
RangeDown(i, max, step) == IF i > max THEN <<i>> \o RangeDown(i - step, max, step) ELSE <<>>
\* half-open [min,max) ascending when min<max, (max,min] descending when min>max  (step >= 1)
RangeSpec(min, max, step) == IF min > max THEN RangeDown(min, max, step) ELSE RangeUp(min, max, step)
\* S characterisation used to validate RangeSpec itself
RangeOK(s, min, max, step) ==
   LET d == IF min > max THEN -step ELSE step IN
   /\ \A k \in 1..Len(s) : s[k] = min + (k-1)*d
   /\ \A k \in 1..Len(s) : IF min > max THEN s[k] > max ELSE s[k] < max
   /\ LET nxt == min + Len(s)*d IN IF min > max THEN nxt <= max ELSE nxt >= max

\* ------------------------------------------------------------------ Linear_Space / Log_Space (shape)
SpaceCount(steps, degenerate) == IF steps < 2 \/ degenerate THEN 1 ELSE steps

\* ------------------------------------------------------------------ Locate_Closest_Location
\* targets and elements are integers (the recorder scales half-integers by 2)
Dist(a, b) == IF a >= b THEN a - b ELSE b - a
ClosestOK(list, target, idx) ==      \* idx is 0-based
   /\ idx \in 0..(Len(list)-1)
   /\ \A k \in 1..Len(list) : Dist(list[idx+1], target) <= Dist(list[k], target)
\* A: upper_bound, then compare the two neighbours, ties go up
UpperBound(list, target) == LET S == {k \in 1..Len(list) : list[k] > target} IN
                            IF S = {} THEN Len(list) + 1 ELSE CHOOSE k \in S : \A m \in S : k <= m
Closest_A(list, target) == LET ub == UpperBound(list, target) - 1 IN     \* 0-based index of first element > target
   IF ub = Len(list) THEN Len(list) - 1
   ELSE IF ub = 0 THEN 0
   ELSE IF Dist(list[ub], target) < Dist(list[ub+1], target) THEN ub - 1 ELSE ub
Sorted(list) == \A k \in 1..(Len(list)-1) : list[k] <= list[k+1]

\* ------------------------------------------------------------------ list templates
Combine(a, b) == a \o b
SubList(v, i1, i2) == LET lo == IF i1 < 0 THEN 0 ELSE i1          \* inclusive 0-based bounds, clamped
                          hi == IF i2 > Len(v) - 1 THEN Len(v) - 1 ELSE i2
                      IN  IF hi < lo THEN <<>> ELSE SubSeq(v, lo + 1, hi + 1)
RECURSIVE Flatten(_)
Flatten(vv) == IF vv = <<>> THEN <<>> ELSE Head(vv) \o Flatten(Tail(vv))
Rectangular(vv) == \A i \in 1..Len(vv) : Len(vv[i]) = Len(vv[1])
TransposeL(vv) == [j \in 1..Len(vv[1]) |-> [i \in 1..Len(vv) |-> vv[i][j]]]
Contains(v, x) == \E k \in 1..Len(v) : v[k] = x
RECURSIVE FindFrom(_,_,_)
FindFrom(v, x, k) == IF k > Len(v) THEN <<>> ELSE (IF v[k] = x THEN <<k-1>> ELSE <<>>) \o FindFrom(v, x, k+1)
FindIndices(v, x) == FindFrom(v, x, 1)

\* ------------------------------------------------------------------ summary statistics (exact)
RECURSIVE SumSeq(_), SumSq(_)
SumSeq(d) == IF d = <<>> THEN 0 ELSE Head(d) + SumSeq(Tail(d))
SumSq(d)  == IF d = <<>> THEN 0 ELSE Head(d)*Head(d) + SumSq(Tail(d))
Mean(d)     == Frac(SumSeq(d), Len(d))
\* unbiased sample variance = (N*sum x^2 - (sum x)^2) / (N (N-1))
Variance(d) == Frac(Len(d)*SumSq(d) - SumSeq(d)*SumSeq(d), Len(d)*(Len(d)-1))
\* median from the order statistics
CountLe(d, x) == Cardinality({k \in 1..Len(d) : d[k] <= x})
CountLt(d, x) == Cardinality({k \in 1..Len(d) : d[k] < x})
OrderStat(d, r) == CHOOSE x \in {d[k] : k \in 1..Len(d)} : CountLt(d, x) < r /\ r <= CountLe(d, x)   \* r-th smallest, r = 1..N
Median(d) == LET n == Len(d) IN
             IF n % 2 = 1 THEN R(OrderStat(d, (n+1) \div 2))
             ELSE Frac(OrderStat(d, n \div 2) + OrderStat(d, n \div 2 + 1), 2)
\* weighted mean with integer weights w > 0
RECURSIVE SumW(_,_)
SumW(d, w) == IF d = <<>> THEN 0 ELSE Head(d)*Head(w) + SumW(Tail(d), Tail(w))
WMean(d, w) == Frac(SumW(d, w), SumSeq(w))
\* equal weights: Cochran's standard error^2 reduces to s^2 / N
SE2Equal(d) == RDiv(Variance(d), R(Len(d)))
\* unequal weights: the squared standard error of the ratio estimator in its translation-invariant form
\*      N / ((N-1) W^2) * sum_i w_i^2 (x_i - X)^2 ,  X = S/W          (small lists only: 32-bit integers)
WSE2(d, w) == LET N == Len(d)  W == SumSeq(w)  S == SumW(d, w) IN
              Frac(N * SumSeq([i \in 1..N |-> w[i] * w[i] * (W * d[i] - S) * (W * d[i] - S)]), (N - 1) * W * W * W * W)
\* ... and as Weighted_Average computes it (Cochran): N/((N-1) W^2) (sum1 - 2 X sum2 + X^2 sum3)
WSE2Cochran(d, w) ==
   LET N == Len(d)  W == SumSeq(w)  X == Frac(SumW(d, w), W)  wb == Frac(W, N)
       dwx(i) == RSub(R(w[i] * d[i]), RMul(X, wb))
       dw(i)  == RSub(R(w[i]), wb)
       s1 == RSum([i \in 1..N |-> RMul(dwx(i), dwx(i))], 1, N)
       s2 == RSum([i \in 1..N |-> RMul(dw(i), dwx(i))], 1, N)
       s3 == RSum([i \in 1..N |-> RMul(dw(i), dw(i))], 1, N)
   IN RMul(Frac(N, (N - 1) * W * W), RAdd(RSub(s1, RMul(R(2), RMul(X, s2))), RMul(RMul(X, X), s3)))
=============================================================================
