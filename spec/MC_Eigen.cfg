INIT Init
NEXT Next
INVARIANT Laws
INVARIANT Export
CHECK_DEADLOCK FALSE
