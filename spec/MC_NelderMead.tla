---------------------------- MODULE MC_NelderMead ----------------------------
EXTENDS NelderMead, Json, CSV, IOUtils
CONSTANTS MAXIT,      \* iterations per run (exact dyadic rationals: 32-bit integers overflow beyond 6)
          WIDE        \* TRUE: the larger set of start simplices (thorough tier)
Out(rec) == IF "OUT" \in DOMAIN IOEnv THEN CSVWrite("%1$s", <<ToJson(rec)>>, IOEnv.OUT) ELSE TRUE
VARIABLES o, ftol, p, y, psum, nfunc, it, pc, evals, best0, prevbest, kinds
vars == <<o, ftol, p, y, psum, nfunc, it, pc, evals, best0, prevbest, kinds>>
Objs2 == {[kind |-> 0, d |-> cc, w |-> 0, a |-> <<a1, a2>>, b |-> bb, c |-> cc, f0 |-> ff] : a1 \in {1, 2}, a2 \in {1, 3}, bb \in {-1, 0, 1}, cc \in {<<0, 0>>, <<3, -2>>}, ff \in {1, 5}}
Objs1 == {[kind |-> 0, d |-> cc, w |-> 0, a |-> <<a1>>, b |-> 0, c |-> cc, f0 |-> ff] : a1 \in {1, 3}, cc \in {<<0>>, <<2>>, <<-5>>}, ff \in {1, 7}}
\* two wells: start simplices wide enough to straddle the ridge between them
Wells2 == {[kind |-> 1, d |-> dd, w |-> ww, a |-> <<a1, a2>>, b |-> 0, c |-> <<0, 0>>, f0 |-> 1] : a1 \in {1, 2}, a2 \in {1, 3}, dd \in {<<8, 6>>, <<-6, 10>>}, ww \in {1, 2}}
Wells1 == {[kind |-> 1, d |-> dd, w |-> ww, a |-> <<a1>>, b |-> 0, c |-> <<0>>, f0 |-> 1] : a1 \in {1, 2}, dd \in {<<10>>, <<-6>>}, ww \in {1, 2}}
WStarts2 == {<<x, yy, dx>> : x \in {-1, 0, 2}, yy \in {-1, 0}, dx \in {6, 8, 10}} \cup {<<x, yy, -8>> : x \in {8, 7}, yy \in {6, 5}}
Starts2 == IF WIDE THEN {<<x, yy, dx>> : x \in {-4, -2, 0, 1, 3}, yy \in {-3, -1, 1, 2}, dx \in {1, 2}}
                   ELSE {<<x, yy, dx>> : x \in {-4, 0, 3}, yy \in {-3, 1}, dx \in {1, 2}}
Simplex2(s) == << <<R(s[1]), R(s[2])>>, <<R(s[1] + s[3]), R(s[2])>>, <<R(s[1]), R(s[2] + s[3])>> >>
Simplex1(x, dx) == << <<R(x)>>, <<R(x + dx)>> >>
Init == /\ \/ \E ob \in Objs2, s \in Starts2 : o = ob /\ p = Simplex2(s)
           \/ \E ob \in Objs1, x \in (IF WIDE THEN {-6, -3, 0, 1, 4, 5} ELSE {-6, 0, 4}), dx \in {1, 3} : o = ob /\ p = Simplex1(x, dx)
           \/ \E ob \in Wells2, s \in WStarts2 : o = ob /\ p = Simplex2(s)
           \/ \E ob \in Wells1, x \in {-1, 0, 1, 10, -6}, dx \in {10, -6, 8, -10} : o = ob /\ p = Simplex1(x, dx)
        /\ ftol \in {Frac(1, 4), Frac(1, 64)}
        /\ y = [i \in 1..Len(p) |-> Obj(o, p[i])] /\ psum = Psum(p) /\ nfunc = 0 /\ it = 0 /\ pc = "loop"
        /\ evals = p /\ best0 = MinOf(y) /\ prevbest = MinOf(y) /\ kinds = <<>>
Step == /\ pc = "loop" /\ it < MAXIT
        /\ LET r == Rank(y) IN
           IF RLe(Rtol(y, r), ftol)        \* the code tests 2|dy|/(|yhi|+|ylo|+1e-10) < ftol: on this lattice TINY only turns equality into 'converged'
           THEN /\ pc' = "done"
                /\ p' = [p EXCEPT ![1] = p[r.ilo], ![r.ilo] = p[1]] /\ y' = [y EXCEPT ![1] = y[r.ilo], ![r.ilo] = y[1]]      \* best vertex first
                /\ UNCHANGED <<psum, nfunc, it, evals, prevbest, kinds>>
           ELSE LET n == Iteration(o, p, y, psum, r) IN
                /\ p' = n.p /\ y' = n.y /\ psum' = n.psum /\ nfunc' = nfunc + n.dn /\ it' = it + 1 /\ evals' = evals \o n.pts
                /\ prevbest' = MinOf(y) /\ kinds' = Append(kinds, n.kind) /\ pc' = "loop"
        /\ UNCHANGED <<o, ftol, best0>>
Next == Step
\* ---- S
YIsObjective == \A i \in 1..Len(p) : y[i] = Obj(o, p[i])
BestMonotone == RLe(MinOf(y), prevbest) /\ RLe(MinOf(y), best0)
PsumOK == pc = "loop" => psum = Psum(p)
CountOK == nfunc = Len(evals) - Len(p)
DoneOK == pc = "done" => y[1] = MinOf(y) /\ RLe(y[1], best0)
\* ---- export of finished or depth-limited runs (the sequence of evaluated points, as exact dyadic rationals)
Export == (pc = "done" \/ it = MAXIT) => Out([k |-> "nm", o |-> o, ftol |-> ftol, start |-> SubSeq(evals, 1, Len(p)), evals |-> evals, done |-> pc = "done",
                                              p |-> p, y |-> y, nfunc |-> nfunc, kinds |-> kinds])
=============================================================================
