----------------------------- MODULE MC_LinAlg -----------------------------
(***************************************************************************)
(* Laws of the definitions in LinAlg (validates the specification itself): *)
(* every shape triple (m,n,k) <= MAXD with operands filled by a hash of    *)
(* (i,j,salt) over -2..2 (zeros and both signs occur).                     *)
(***************************************************************************)
EXTENDS LinAlg, TLC
CONSTANTS MAXD, SALTS
VARIABLES m, n, k, salt
vars == <<m, n, k, salt>>
H(i, j, s) == ((i * 7 + j * 13 + s * 31 + i * j * s) % 5) - 2
Fill(r, c, s) == [i \in 1..r |-> [j \in 1..c |-> H(i, j, s)]]
FillV(d, s) == [i \in 1..d |-> H(i, 3, s + 1)]
Init == m = 1 /\ n = 1 /\ k = 1 /\ salt = 0
Next == \/ (m < MAXD /\ m' = m + 1 /\ UNCHANGED <<n, k, salt>>)
        \/ (n < MAXD /\ n' = n + 1 /\ UNCHANGED <<m, k, salt>>)
        \/ (k < MAXD /\ k' = k + 1 /\ UNCHANGED <<m, n, salt>>)
        \/ (salt < SALTS /\ salt' = salt + 1 /\ UNCHANGED <<m, n, k>>)
A == Fill(m, n, salt)
B == Fill(n, k, salt + 5)
A2 == Fill(m, n, salt + 9)
v == FillV(n, salt)
w == FillV(m, salt + 2)
Laws ==
  /\ Transpose(MProd(A, B)) = MProd(Transpose(B), Transpose(A))
  /\ MProd(A, Identity(n)) = A /\ MProd(Identity(m), A) = A
  /\ Transpose(Transpose(A)) = A
  /\ ColM(MVec(A, v)) = MProd(A, ColM(v))
  /\ RowM(VMat(w, A)) = MProd(RowM(w), A)
  /\ Outer(w, v) = MProd(ColM(w), RowM(v))
  /\ <<<<Dot(v, v)>>>> = MProd(RowM(v), ColM(v))
  /\ MPlus(A, A2) = MPlus(A2, A) /\ MMinus(MPlus(A, A2), A2) = A
  /\ MScal(MPlus(A, A2), 3) = MPlus(MScal(A, 3), MScal(A2, 3))
  /\ MProd(MScal(A, 2), B) = MScal(MProd(A, B), 2)
  /\ Norm2(A) = TraceM(MProd(A, Transpose(A)))
  /\ Symmetric(MProd(A, Transpose(A)))
  /\ (m = n => /\ Symmetric(MPlus(A, Transpose(A)))
               /\ Antisymmetric(MMinus(A, Transpose(A)))
               /\ TraceM(A) = TraceM(Transpose(A)))
  /\ Diagonal(DiagM(v)) /\ Diagonal(Identity(m))
  /\ (m >= 2 /\ n >= 2 => SubMatrix(A, 1, 1) = [i \in 1..(m-1) |-> [j \in 1..(n-1) |-> A[i+1][j+1]]])
  /\ \A r \in 1..m : RowOf(A, r) = ColOf(Transpose(A), r)
  /\ Block(A, Fill(m, k, salt+1), Fill(k, n, salt+2), Fill(k, k, salt+3))
       = Transpose(Block(Transpose(A), Transpose(Fill(k, n, salt+2)), Transpose(Fill(m, k, salt+1)), Transpose(Fill(k, k, salt+3))))
  /\ (n = 3 => LET x == FillV(3, salt) y == FillV(3, salt + 4) IN
               /\ Dot(Cross(x, y), x) = 0 /\ Dot(Cross(x, y), y) = 0
               /\ Cross(x, y) = VScal(Cross(y, x), -1))
=============================================================================
