--------------------------- MODULE MC_SimpsonPanel ---------------------------
(***************************************************************************)
(* The panel rule of Adaptive_Simpson_Integration in exact rationals:      *)
(*   S = h/6 (fa + 4 fc + fb),  Sleft = h/12 (fa + 4 fd + fc),             *)
(*   Sright = h/12 (fc + 4 fe + fb),  S2 = Sleft + Sright,                 *)
(*   accepted value  S2 + (S2 - S)/15.                                     *)
(* Checked for every monomial x^p, p <= 5, on a lattice of panels: the     *)
(* accepted value IS the exact integral (so, by linearity and because the  *)
(* recursion only adds accepted values of disjoint panels, Integrate is    *)
(* exact on quintics for every epsilon and depth); the value handed to a   *)
(* child as its coarse estimate is that child's own Simpson estimate; and  *)
(* for p = 6 the accepted value is NOT exact (the clause is not vacuous).  *)
(***************************************************************************)
EXTENDS Rat, Integers, TLC
VARIABLES p, an, wn       \* monomial degree, panel [an/2, an/2 + wn/4]
Init == p \in 0..6 /\ an \in -2..2 /\ wn \in {2, 4}
Next == UNCHANGED <<p, an, wn>>
A == Frac(an, 2)
W == Frac(wn, 4)
F(x) == RPow(x, p)
Mid(x, y) == RDiv(RAdd(x, y), R(2))
B == RAdd(A, W)
C == Mid(A, B)
D == Mid(A, C)
E == Mid(C, B)
Simp(x, y, fx, fm, fy) == RMul(RDiv(RSub(y, x), R(6)), RAdd(RAdd(fx, RMul(R(4), fm)), fy))
S == Simp(A, B, F(A), F(C), F(B))
Sleft  == RMul(RDiv(W, R(12)), RAdd(RAdd(F(A), RMul(R(4), F(D))), F(C)))
Sright == RMul(RDiv(W, R(12)), RAdd(RAdd(F(C), RMul(R(4), F(E))), F(B)))
S2 == RAdd(Sleft, Sright)
Accepted == RAdd(S2, RDiv(RSub(S2, S), R(15)))
Exact == RDiv(RSub(RPow(B, p + 1), RPow(A, p + 1)), R(p + 1))
QuinticExact == p <= 5 => Accepted = Exact
NotVacuous   == p = 6 => Accepted # Exact
ChildInherits == Sleft = Simp(A, C, F(A), F(D), F(C)) /\ Sright = Simp(C, B, F(C), F(E), F(B))
CubicSimpson == p <= 3 => S = Exact
=============================================================================
