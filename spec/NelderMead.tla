----------------------------- MODULE NelderMead -----------------------------
(***************************************************************************)
(* C11: Minimization::minimize (downhill simplex) transcribed in exact     *)
(* rational arithmetic.  On integer-coefficient quadratics from integer    *)
(* starting simplices every quantity of the algorithm is a dyadic          *)
(* rational, so the model follows the code's decisions exactly:            *)
(*   ranking (ilo, ihi, inhi) with the code's tie rules,                   *)
(*   rtol = 2|y_hi - y_lo| / (|y_hi| + |y_lo|)  (the code adds TINY=1e-10  *)
(*   to the denominator: on this lattice that only makes rtol = ftol count *)
(*   as converged, which MC_NelderMead's test accounts for),               *)
(*   amotry with factors -1, 2, 1/2 and the acceptance test ytry < y[ihi], *)
(*   shrink towards the best vertex, psum maintenance, nfunc accounting,   *)
(*   final swap of the best vertex into slot 0.                            *)
(* A second family of objectives (two piecewise-linear wells) is not      *)
(* convex, so that the contraction can fail and the simplex shrinks; all   *)
(* quantities stay dyadic there as well, and equal values are frequent,    *)
(* which exercises the tie rules of the ranking.                           *)
(* S (property level): the best vertex value never increases; y is the     *)
(* objective at the vertices; at termination slot 0 holds the best vertex  *)
(* and fmin its value, which is not worse than any starting vertex.        *)
(***************************************************************************)
EXTENDS Rat, Sequences, FiniteSets, TLC

\* objective, kind 0: f(x) = f0 + sum_i a[i] (x_i - c_i)^2 + b (x_1 - c_1)(x_2 - c_2)   (b only when ndim >= 2)
\* objective, kind 1 (two wells, not convex: the only way to make the simplex shrink):
\*                    f(x) = f0 + min( sum_i a[i] |x_i - c_i| ,  w + sum_i a[i] |x_i - d_i| )
Quad(o, x) == LET n == Len(x)
                  d == [i \in 1..n |-> RSub(x[i], R(o.c[i]))]
                  S[k \in 0..n] == IF k = 0 THEN R(o.f0) ELSE RAdd(S[k - 1], RMul(R(o.a[k]), RMul(d[k], d[k])))
              IN IF n >= 2 THEN RAdd(S[n], RMul(R(o.b), RMul(d[1], d[2]))) ELSE S[n]
Cone(o, cent, x) == LET n == Len(x)
                        S[k \in 0..n] == IF k = 0 THEN RZero ELSE RAdd(S[k - 1], RMul(R(o.a[k]), RAbs(RSub(x[k], R(cent[k])))))
                    IN S[n]
Obj(o, x) == IF o.kind = 0 THEN Quad(o, x)
             ELSE RAdd(R(o.f0), RMin(Cone(o, o.c, x), RAdd(R(o.w), Cone(o, o.d, x))))

ColSum(p, j) == LET S[i \in 0..Len(p)] == IF i = 0 THEN RZero ELSE RAdd(S[i - 1], p[i][j]) IN S[Len(p)]
Psum(p) == [j \in 1..Len(p[1]) |-> ColSum(p, j)]
RGt(a, b) == RLt(b, a)
RGe(a, b) == RLe(b, a)

\* the ranking loop of the code (0-based indices in the code, 1-based here)
Rank(y) ==
  LET m == Len(y)
      init == IF RGt(y[1], y[2]) THEN [ilo |-> 1, ihi |-> 1, inhi |-> 2] ELSE [ilo |-> 1, ihi |-> 2, inhi |-> 1]
      step(r, i) == LET lo == IF RLe(y[i], y[r.ilo]) THEN i ELSE r.ilo IN
                    IF RGt(y[i], y[r.ihi]) THEN [ilo |-> lo, ihi |-> i, inhi |-> r.ihi]
                    ELSE IF RGt(y[i], y[r.inhi]) /\ i # r.ihi THEN [ilo |-> lo, ihi |-> r.ihi, inhi |-> i]
                    ELSE [ilo |-> lo, ihi |-> r.ihi, inhi |-> r.inhi]
      F[i \in 0..m] == IF i = 0 THEN init ELSE step(F[i - 1], i)
  IN F[m]
Rtol(y, r) == RDiv(RMul(R(2), RAbs(RSub(y[r.ihi], y[r.ilo]))), RAdd(RAbs(y[r.ihi]), RAbs(y[r.ilo])))

\* amotry: returns the new <<p, y, psum, ytry, ptry>>
Amotry(o, p, y, psum, ihi, fac) ==
  LET n    == Len(psum)
      fac1 == RDiv(RSub(ROne, fac), R(n))
      fac2 == RSub(fac1, fac)
      ptry == [j \in 1..n |-> RSub(RMul(psum[j], fac1), RMul(p[ihi][j], fac2))]
      ytry == Obj(o, ptry)
  IN IF RLt(ytry, y[ihi])
     THEN [p |-> [p EXCEPT ![ihi] = ptry], y |-> [y EXCEPT ![ihi] = ytry],
           psum |-> [j \in 1..n |-> RAdd(psum[j], RSub(ptry[j], p[ihi][j]))], ytry |-> ytry, ptry |-> ptry]
     ELSE [p |-> p, y |-> y, psum |-> psum, ytry |-> ytry, ptry |-> ptry]

\* one pass of the for(;;) loop body after the convergence test; returns the new state and the points evaluated
Iteration(o, p, y, psum, r) ==
  LET n  == Len(psum)
      a1 == Amotry(o, p, y, psum, r.ihi, R(-1))
  IN IF RLe(a1.ytry, y[r.ilo])
     THEN LET a2 == Amotry(o, a1.p, a1.y, a1.psum, r.ihi, R(2)) IN
          [p |-> a2.p, y |-> a2.y, psum |-> a2.psum, pts |-> <<a1.ptry, a2.ptry>>, dn |-> 2, kind |-> "expand"]
     ELSE IF RGe(a1.ytry, a1.y[r.inhi])
     THEN LET ysave == a1.y[r.ihi]
              a2 == Amotry(o, a1.p, a1.y, a1.psum, r.ihi, Frac(1, 2)) IN
          IF RGe(a2.ytry, ysave)
          THEN LET p3 == [i \in 1..Len(p) |-> IF i = r.ilo THEN a2.p[i] ELSE [j \in 1..n |-> RMul(Frac(1, 2), RAdd(a2.p[i][j], a2.p[r.ilo][j]))]]
                   y3 == [i \in 1..Len(p) |-> IF i = r.ilo THEN a2.y[i] ELSE Obj(o, p3[i])]
                   order == SelectSeq([i \in 1..Len(p) |-> i], LAMBDA i : i # r.ilo) IN
               [p |-> p3, y |-> y3, psum |-> Psum(p3), pts |-> <<a1.ptry, a2.ptry>> \o [k \in 1..Len(order) |-> p3[order[k]]], dn |-> 2 + n, kind |-> "shrink"]
          ELSE [p |-> a2.p, y |-> a2.y, psum |-> a2.psum, pts |-> <<a1.ptry, a2.ptry>>, dn |-> 2, kind |-> "contract"]
     ELSE [p |-> a1.p, y |-> a1.y, psum |-> a1.psum, pts |-> <<a1.ptry>>, dn |-> 1, kind |-> "reflect"]

MinOf(y) == LET F[i \in 1..Len(y)] == IF i = 1 THEN y[1] ELSE RMin(F[i - 1], y[i]) IN F[Len(y)]
=============================================================================
