----------------------------- MODULE MC_Steffen -----------------------------
(***************************************************************************)
(* Exhaustive lattice of tables, grown knot by knot (so that TLC's BFS     *)
(* parallelises).  mode 0: arbitrary ordinates from YS; mode 1: parabola   *)
(* data y = x^2 - K on a non-uniform grid starting at x = 3, where the     *)
(* limiter is inactive.  Every table with >= 3 knots is checked against    *)
(* the S clauses and exported with its exact coefficients and values.      *)
(***************************************************************************)
EXTENDS Steffen, TLC, Json, CSV, IOUtils
CONSTANTS NMAX, SPACINGS, YMAX, NPAR
VARIABLES X, Y, mode
vars == <<X, Y, mode>>
YS == (-YMAX)..YMAX
Init == \/ (mode = 0 /\ X = <<0>> /\ Y \in {<<y>> : y \in YS})
        \/ (mode = 1 /\ X = <<3>> /\ Y = <<9>>)
Next == \/ /\ mode = 0 /\ Len(X) < NMAX
           /\ \E h \in SPACINGS, y \in YS : X' = Append(X, X[Len(X)] + h) /\ Y' = Append(Y, y)
           /\ UNCHANGED mode
        \/ /\ mode = 1 /\ Len(X) < NPAR
           /\ \E h \in SPACINGS : LET x == X[Len(X)] + h IN X' = Append(X, x) /\ Y' = Append(Y, x * x)
           /\ UNCHANGED mode
Props == Len(X) >= 3 => LET C == Coefs(X, Y) IN
           /\ ReproducesKnots(C, Y)
           /\ Monotone(C)
           /\ C1(C)
           /\ LineExact(C, X, Y)
           /\ (mode = 1 => /\ ParabolaExact(C, X, Y, 1, 0)
                           /\ \A i \in 1..Len(X) : Unlimited(C, i))      \* non-vacuity: the limiter really is inactive
\* quarter points of every piece with exact value and derivatives
Quarter(C, i, k) == RDiv(RMul(R(k), C.h[i]), R(4))
Export == IF "OUT" \in DOMAIN IOEnv /\ Len(X) >= 3
          THEN LET C == Coefs(X, Y) IN CSVWrite("%1$s", <<ToJson([x |-> X, y |-> Y, mode |-> mode,
                  dy |-> C.dy, a |-> C.a, b |-> C.b,
                  unl |-> [i \in 1..Len(X) |-> Unlimited(C, i)],
                  q |-> [i \in 1..Len(C.a) |-> [k \in 1..3 |->
                           <<Cubic(C, i, Quarter(C, i, k)), Deriv1(C, i, Quarter(C, i, k)), Deriv2(C, i, Quarter(C, i, k))>>]],
                  integ |-> [i \in 1..Len(C.a) |-> PieceInt(C, i, RZero, C.h[i])]])>>, IOEnv.OUT)
          ELSE TRUE
=============================================================================
