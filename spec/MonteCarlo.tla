----------------------------- MODULE MonteCarlo -----------------------------
(***************************************************************************)
(* C14: Monte-Carlo integrators.                                           *)
(*                                                                         *)
(* S.  The specification of an integration has NO history variable: the    *)
(* result is a function of the call key (method, dimension, region,        *)
(* budget, integrand, seed).  Trace validation keeps a memo from keys to   *)
(* result bits; a call is accepted only if it never evaluated outside the  *)
(* region and agrees with the memo.                                        *)
(*                                                                         *)
(* A.  Miser's private linear congruential generator (iran), as the code   *)
(* uses it: advanced once per dimension in every non-leaf node, and its    *)
(* value picks the split dimension whenever a node looks flat (the         *)
(* environment decides which nodes are flat).  The shape of the bisection  *)
(* tree is what the result depends on.  With iran carried over from        *)
(* earlier calls (RESET = FALSE, the pinned code) TLC finds two histories  *)
(* with different trees; with iran reset per call the tree is a function   *)
(* of the call alone.                                                      *)
(***************************************************************************)
EXTENDS Integers, Sequences, FiniteSets, TLC

\* ------------------------------------------------------------------ S: memo acceptance
MemoAccepts(memo, key, bits, nout) == nout = 0 /\ (key \in DOMAIN memo => memo[key] = bits)
MemoPut(memo, key, bits) == IF key \in DOMAIN memo THEN memo ELSE [k \in DOMAIN memo \cup {key} |-> IF k = key THEN bits ELSE memo[k]]

\* ------------------------------------------------------------------ A: Miser's split-dimension choice
LCG(x) == (x * 2661 + 36979) % 175000
RECURSIVE Advance(_,_)
Advance(x, k) == IF k = 0 THEN x ELSE Advance(LCG(x), k - 1)
\* a node with npts >= MNBS advances iran once per dimension; if it is flat the split dimension is (ndim * iran) div 175000,
\* otherwise it is decided by the sampled values (a function of the call: modelled as dimension 0)
SplitDim(ndim, iranAfter, flat) == IF flat THEN (ndim * iranAfter) \div 175000 ELSE 0
\* the tree of one call as the sequence of split dimensions in depth-first order, for a given flatness pattern (sequence of booleans, one per node)
RECURSIVE Tree(_,_,_,_)
Tree(ndim, iran, flats, depth) ==      \* returns <<sequence of split dims, iran afterwards, remaining flats>>
  IF depth = 0 \/ flats = <<>> THEN <<<<>>, iran, flats>>
  ELSE LET ir == Advance(iran, ndim)
           d  == SplitDim(ndim, ir, Head(flats))
           L  == Tree(ndim, ir, Tail(flats), depth - 1)
           Rr == Tree(ndim, L[2], L[3], depth - 1)
       IN <<(<<d>> \o L[1]) \o Rr[1], Rr[2], Rr[3]>>
=============================================================================
