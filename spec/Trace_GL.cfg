CONSTANT NEX = 512
INIT Init
NEXT Next
INVARIANT Complete
POSTCONDITION TraceAccepted
CHECK_DEADLOCK FALSE
