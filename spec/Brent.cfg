CONSTANTS N = 12 TS = {1, 2}
INIT Init
NEXT Next
INVARIANT BracketHolds
INVARIANT BestSoFar
INVARIANT Ordered
INVARIANT Accurate
CHECK_DEADLOCK FALSE
