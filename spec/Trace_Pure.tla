----------------------------- MODULE Trace_Pure -----------------------------
(* Trace validation of recorded calls against Pure.  Fresh events come first (one per pair; a fresh call that does not return is   *)
(* recorded with ret = FALSE and the way it ended: then every later call of the pair must end the same way, which the recorder     *)
(* reports as Died).  Rejected events are collected in TLC register 7.                                                               *)
EXTENDS Pure, Integers, TLC, Json, IOUtils
VARIABLE l
Log == ndJsonDeserialize(IOEnv.TRACE)
Reject(i) == TLCSet(7, Append(TLCGet(7), i))
Judge(ok) == IF ok THEN TRUE ELSE Reject(l)
TInit == l = 1 /\ PInit /\ TLCSet(7, <<>>)
Ev(e) == l <= Len(Log) /\ Log[l].e = e /\ l' = l + 1
TFresh == Ev("Fresh") /\ LET ev == Log[l] IN Fresh(ev.fn, ev.a, IF ev.ret THEN ev.out ELSE "did not return")
TCall == Ev("Call") /\ LET ev == Log[l] IN
            IF CallOK(ev.fn, ev.a, ev.out) THEN Call(ev.fn, ev.a, ev.out) ELSE Reject(l) /\ UNCHANGED <<ref, seen>>
\* a call that ended the process after a history: allowed only if the fresh call did not return either
TDied == Ev("Died") /\ LET ev == Log[l] IN
            /\ Judge(Key(ev.fn, ev.a) \in DOMAIN ref /\ ref[Key(ev.fn, ev.a)] = "did not return")
            /\ UNCHANGED <<ref, seen>>
TNext == TFresh \/ TCall \/ TDied
TraceAccepted == /\ TLCGet("stats").diameter - 1 = Len(Log)
                 /\ PrintT(<<"REJECTED-EVENTS", TLCGet(7)>>)
                 /\ TLCGet(7) = <<>>
\* non-vacuity: at the end every pair has been called after a history (unless a death cut the histories short)
Covered == (l > Len(Log) /\ TLCGet(7) = <<>>) => AllSeen
=============================================================================
