CONSTANTS NMAX = 3 SPACINGS = {1,3} YVALS = {0,1,3} MAXOPS = 2 G = 2
INIT Init
NEXT Next
INVARIANT Props
CHECK_DEADLOCK FALSE
