INIT Init
NEXT Next
INVARIANT AllHarmonics
POSTCONDITION TraceAccepted
CHECK_DEADLOCK FALSE
