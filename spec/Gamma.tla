-------------------------------- MODULE Gamma --------------------------------
(***************************************************************************)
(* C06: the Gamma-function family, as far as it is rational.               *)
(*                                                                         *)
(*  * Factorial with its on-demand memo table (a state machine: the only   *)
(*    state is the table length L; the property says the value returned    *)
(*    does not depend on it).                                              *)
(*  * Binomial coefficients by Pascal's rule.                              *)
(*  * Gamma at integers and half-integers:  Gamma(n) = (n-1)!,             *)
(*    Gamma(n+1/2) = sqrt(pi) (2n)! / (4^n n!).                            *)
(*  * Regularised incomplete gamma function at integer and half-integer a  *)
(*    and half-integer x = m/2:                                            *)
(*      Q(x,a)     = exp(-x) S(x,a),      S = sum_{j<a} x^j / j!           *)
(*      Q(x,n+1/2) = erfc(sqrt x) + exp(-x) sqrt(x/pi) R(x,n),             *)
(*                   R = sum_{j<n} x^j 4^(j+1) (j+1)! / (2j+2)!            *)
(*    S and R are rational; they are evaluated exactly (Horner scheme on   *)
(*    Big numerator / denominator).  The replayer supplies the single      *)
(*    transcendental factor (libm expl / erfcl / sqrtl, trusted).          *)
(***************************************************************************)
EXTENDS Big, TLC

Max2(a, b) == IF a >= b THEN a ELSE b

\* ------------------------------------------------------------------ Factorial memo machine
\* A (what the code does): the table holds 0!..(L-1)!; a call with n >= L extends it one entry at a time,
\* each new entry being the last one times its own index; a call with n < L is a lookup.
\* S (what the property says): the value returned is n!, whatever L was; entries never change once written.
RECURSIVE Grow(_,_)
Grow(tbl, n) == IF Len(tbl) > n THEN tbl ELSE Grow(Append(tbl, BMulSmall(tbl[Len(tbl)], Len(tbl))), n)
FactCallTable(tbl, n) == IF n < Len(tbl) THEN tbl ELSE Grow(tbl, n)
FactCallRet(tbl, n) == FactCallTable(tbl, n)[n + 1]
FactDefined(n) == n <= 170
LAfter(L, n) == Max2(L, n + 1)

\* ------------------------------------------------------------------ Pascal
PascalNext(row) == [k \in 1..(Len(row) + 1) |-> IF k = 1 \/ k = Len(row) + 1 THEN <<1>> ELSE BAdd(row[k - 1], row[k])]

\* ------------------------------------------------------------------ exact series for Q
\* Horner evaluation of  scale * (1 + m/d(1) (1 + m/d(2) ( ... (1 + m/d(K)) ... )))  as <<num, den>>
RECURSIVE HornerND(_,_,_,_)
HornerND(m, Den(_), k, K) ==      \* value of the tail starting at level k (1-based), K levels in total
  IF k > K THEN <<<<1>>, <<1>>>>
  ELSE LET t == HornerND(m, Den, k + 1, K)
           d == BMulSmall(t[2], Den(k))
       IN <<BAdd(d, BMulSmall(t[1], m)), d>>
DenInt(k)  == 2 * k          \* integer a, x = m/2:  x/k = m/(2k)
DenHalf(k) == 2 * k + 1      \* half-integer a:      t_{j+1}/t_j = 2x/(2j+3) = m/(2j+3)
\* a2 = 2a.  Integer a (a2 even): S(x,a) with a-1 Horner levels; half-integer a = n+1/2: R(x,n)/2 with n-1 levels (n>=1)
QSeries(a2, m) ==
  IF a2 % 2 = 0 THEN HornerND(m, DenInt, 1, a2 \div 2 - 1)
  ELSE IF a2 = 1 THEN <<<<>>, <<1>>>>                                   \* Q(x,1/2) = erfc(sqrt x): no rational part
  ELSE LET t == HornerND(m, DenHalf, 1, (a2 - 1) \div 2 - 1) IN <<BMulSmall(t[1], 2), t[2]>>
\* x^a / a!  resp. the increment of the half-integer series, as <<num, den>> (for the recurrence law)
RECURSIVE TermInt(_,_)
TermInt(m, a) == IF a = 0 THEN <<<<1>>, <<1>>>> ELSE LET t == TermInt(m, a - 1) IN <<BMulSmall(t[1], m), BMulSmall(t[2], 2 * a)>>
RECURSIVE TermHalf(_,_)
TermHalf(m, n) == IF n = 0 THEN <<<<2>>, <<1>>>> ELSE LET t == TermHalf(m, n - 1) IN <<BMulSmall(t[1], m), BMulSmall(t[2], 2 * n + 1)>>
\* rational equality / order on Big pairs
QEq(p, q) == BMul(p[1], q[2]) = BMul(q[1], p[2])
QAdd(p, q) == <<BAdd(BMul(p[1], q[2]), BMul(q[1], p[2])), BMul(p[2], q[2])>>
QLt(p, q) == BLt(BMul(p[1], q[2]), BMul(q[1], p[2]))

\* The same Horner scheme as an iteration (one level per step) on redundant limbs: this is the form MC_Gamma runs
\* as a state machine for large a.  st = [lev, n, d]: value of the tail starting at level lev is n/d.
HornerStart(K) == [lev |-> K + 1, n |-> <<1>>, d |-> <<1>>]
HornerStep(st, m, Den(_)) == LET k  == st.lev - 1
                                 d2 == LMulS(st.d, Den(k))
                             IN [lev |-> k, n |-> LAdd(d2, LMulS(st.n, m)), d |-> d2]
HornerLevels(a2) == IF a2 % 2 = 0 THEN a2 \div 2 - 1 ELSE IF a2 = 1 THEN 0 ELSE (a2 - 1) \div 2 - 1

\* integer square root (floor)
ISqrt(n) == CHOOSE r \in 0..n : r * r <= n /\ (r + 1) * (r + 1) > n
=============================================================================
