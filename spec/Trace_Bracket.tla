---------------------------- MODULE Trace_Bracket ----------------------------
(***************************************************************************)
(* Trace validation of the bracketing phase of Find_Minimum against        *)
(* Bracket.tla.  The recorder (harness/c11.cpp, mode "bracket") wraps the  *)
(* objective, calls the guarded hook Verif_Bracket and logs, per           *)
(* execution,                                                              *)
(*   BStart                                                                *)
(*   BEval x f     one line per evaluation, in order: the rank of the      *)
(*                 abscissa among all abscissae of the execution and the   *)
(*                 rank of the value among all its values (ties equal)     *)
(*   BEnd a b c fa fb fc   ranks of the triple the code returned           *)
(* Every BEval must be an enabled evaluation action of the model at the    *)
(* position and value logged; BEnd is accepted only where the model        *)
(* returns, with the model's triple.  Unlogged: which of the outer         *)
(* branches was taken (TLC tries both continuations).                      *)
(* Scales are ordinary (1e-3..1e3), so that the sign tests of the code,    *)
(* which multiply two differences, cannot underflow.                       *)
(***************************************************************************)
EXTENDS Bracket, Sequences, TLC, Json, IOUtils
VARIABLE l
vars == <<l, bvars>>
Log == ndJsonDeserialize(IOEnv.TRACE)
Init == l = 1 /\ BInit
Ev(e) == l <= Len(Log) /\ Log[l].e = e /\ l' = l + 1
TStart == /\ Ev("BStart") /\ pc = "a"
          /\ UNCHANGED bvars
TEval == Ev("BEval") /\ Eval(Log[l].x, Log[l].f)
TEnd == /\ Ev("BEnd") /\ (pc = "done" \/ (pc = "loop" /\ ~(fb > fc)))
        /\ LET ev == Log[l] IN ev.a = ax /\ ev.b = bx /\ ev.c = cx /\ ev.fa = fa /\ ev.fb = fb /\ ev.fc = fc
        /\ ((ax < bx /\ bx < cx) \/ (ax > bx /\ bx > cx)) /\ fb <= fa /\ fb <= fc            \* the property itself, on the code's triple
        /\ ax' = 0 /\ bx' = 0 /\ cx' = 0 /\ fa' = 0 /\ fb' = 0 /\ fc' = 0 /\ pc' = "a" /\ tu' = 0 /\ tfu' = 0
Next == TStart \/ TEval \/ TEnd
Spec == Init /\ [][Next]_vars
TraceAccepted == TLCGet("stats").diameter - 1 = Len(Log)
=============================================================================
