CONSTANTS HLEN = 3 NMAX = 400 NCHK = 60 ABIG = {}
INIT Memo_Init
NEXT Memo_Next
INVARIANT Memo_S
INVARIANT Memo_Export
PROPERTY Memo_Stable
CHECK_DEADLOCK FALSE
