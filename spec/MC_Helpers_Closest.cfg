CONSTANTS WMAX = 128 TMAX = 1024 RLIM = 12 SMAX = 13 LMAX = 5 VMAX = 4 DLEN = 5 DHI = 2 RNDLEN = 200
INIT Cl_Init
NEXT Cl_Next
INVARIANT Cl_Refines
INVARIANT Cl_Export
CHECK_DEADLOCK FALSE
