----------------------------- MODULE MC_Locate2 -----------------------------
(***************************************************************************)
(* Pool of interpolation objects driven through every public entry point   *)
(* (each is a fixed sequence of Locate calls, see Locate!CallSeq), copies  *)
(* and assignments.  Checks that every intermediate Locate of every entry  *)
(* point returns a segment containing its argument, from every reachable   *)
(* combination of cache states, and that the answer is history free.       *)
(***************************************************************************)
EXTENDS Locate

CONSTANT K   \* objects in the pool

VARIABLES cs,    \* cs[o] = cache state of object o
          lastAct
vars == <<cs, lastAct>>

Fresh == [j |-> 0, c |-> FALSE]
Init == cs = [o \in 1..K |-> Fresh] /\ lastAct = "init"

RECURSIVE StepsOK(_,_)
StepsOK(c, ps) == IF ps = <<>> THEN TRUE
                  ELSE LET j == Loc(Head(ps), c.j, c.c) IN
                       /\ SegOK(Head(ps), j)
                       /\ j = RightCont(Head(ps))
                       /\ StepsOK(Step(c, Head(ps)), Tail(ps))

Call(o, kind, p, q) == /\ cs' = [cs EXCEPT ![o] = Steps(cs[o], CallSeq(kind, p, q))]
                       /\ lastAct' = kind
Copy(src, dst) == /\ src # dst
                  /\ cs' = [cs EXCEPT ![dst] = cs[src]]
                  /\ lastAct' = "Copy"
Rebuild(o) == cs' = [cs EXCEPT ![o] = Fresh] /\ lastAct' = "Rebuild"

Next == \/ \E o \in 1..K, kind \in Kinds, p \in Codes, q \in Codes : Call(o, kind, p, q)
        \/ \E s \in 1..K, d \in 1..K : Copy(s, d)
        \/ \E o \in 1..K : Rebuild(o)
Spec == Init /\ [][Next]_vars

CachesInRange == \A o \in 1..K : cs[o].j \in 0..(N-2)
\* every entry point, from every reachable state, only ever obtains correct segments
AllCallsOK == \A o \in 1..K, kind \in Kinds, p \in Codes, q \in Codes : StepsOK(cs[o], CallSeq(kind, p, q))
=============================================================================
