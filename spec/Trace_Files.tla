------------------------------ MODULE Trace_Files ------------------------------
(***************************************************************************)
(* Trace validation for C20: the file machine.  Export writes a file, the  *)
(* Import that follows must skip exactly the header lines written and must *)
(* return the exported shape with every value within six significant       *)
(* digits (maxrelq in units of 5e-6 relative).  Unit events: In_Units      *)
(* overloads and the unit constants as built by several compilers.         *)
(***************************************************************************)
EXTENDS ExportImport, Json, IOUtils
VARIABLES l, file      \* file = <<kind, rows, cols, header lines>> of the file on disk, or <<>>
vars == <<l, file>>
Log == ndJsonDeserialize(IOEnv.TRACE)
Init == l = 1 /\ file = <<>>
Ev(e) == l <= Len(Log) /\ Log[l].e = e /\ l' = l + 1
TExport == /\ Ev("Export") /\ LET ev == Log[l] IN
              /\ ev.rows >= 1 /\ ev.cols >= 1 /\ ev.hdr >= 0
              /\ ev.lines = ev.hdr + ev.rows                          \* what is on disk is what FileOf describes
              /\ file' = <<ev.kind, ev.rows, ev.cols, ev.hdr>>
\* Save_Function (beyond the listed properties; validated from a trace of its own, a rejection is a note): the number of
\* lines on disk is the number of grid nodes; the Import that follows compares every cell with the grid and the curve
TSaved == /\ Ev("Saved") /\ LET ev == Log[l] IN
              /\ ev.dim \in {1, 2} /\ ev.xp >= 2 /\ ev.yp >= 0
              /\ ev.lines = SavedRows(ev.dim, ev.xp, ev.yp)
              /\ file' = <<"saved", SavedRows(ev.dim, ev.xp, ev.yp), SavedCols(ev.dim), 0>>
TImport == /\ Ev("Import") /\ file # <<>> /\ LET ev == Log[l] IN
              /\ ev.skipped = HeaderLines(file[4])
              /\ ev.rows = file[2] /\ ev.cols = file[3]              \* same shape
              /\ ev.maxrelq <= 1                                      \* every value to six significant digits
              /\ ev.signok
           /\ file' = <<>>
TInUnits == /\ Ev("InUnits") /\ Log[l].q <= 1 /\ Log[l].same /\ Log[l].roundok /\ UNCHANGED file
\* a unit constant as seen in one build: non-zero, equal to its defining product within 4 ulp, bit-identical in all builds
TUnit == /\ Ev("Unit") /\ Log[l].nonzero /\ Log[l].ulp <= 4 /\ Log[l].samebits /\ UNCHANGED file
Next == TExport \/ TSaved \/ TImport \/ TInUnits \/ TUnit
Spec == Init /\ [][Next]_vars
TraceAccepted == TLCGet("stats").diameter - 1 = Len(Log)
=============================================================================
