------------------------------ MODULE MC_Nested ------------------------------
EXTENDS NestedQuad, Json, CSV, IOUtils
CONSTANTS SALTS
Out(rec) == IF "OUT" \in DOMAIN IOEnv THEN CSVWrite("%1$s", <<ToJson(rec)>>, IOEnv.OUT) ELSE TRUE
VARIABLES meth, dim, orient, par, salt, level, choice
vars == <<meth, dim, orient, par, salt, level, choice>>
H(i, j, s) == ((i * 7 + j * 13 + s * 31 + i * j * (s + 3) + (i + s) * (j + 2 * s)) % 5) - 2
Coefs(ax, s) == LET c == [k \in 1..4 |-> H(ax + 1, k, s)] IN IF \A k \in 1..4 : c[k] = 0 THEN <<1, 0, 0, 1>> ELSE c
ExplicitPar(m) == IF m = "Gauss-Kronrod" THEN 3 ELSE IF m = "Gauss-Legendre_2" THEN 5 ELSE 7
Init == /\ meth \in Methods /\ dim \in 1..3 /\ orient \in 0..7 /\ orient < IPow(2, dim)
        /\ par \in {0, 1} /\ salt \in 0..SALTS /\ level = 0 /\ choice = <<>>
\* descend the nest: level k picks an abscissa of ITS OWN axis
Next == /\ level < dim /\ level' = level + 1 /\ \E p \in 1..3 : choice' = Append(choice, p)
        /\ UNCHANGED <<meth, dim, orient, par, salt>>
WiringInv == level = dim => Wired(Leaf(dim, choice))
Axis(k) == LET cc == Coefs(k, salt) l0 == AxLo[k + 1] h0 == AxHi[k + 1]
               a == IF Rev(orient, k) THEN h0 ELSE l0   b == IF Rev(orient, k) THEN l0 ELSE h0 IN
           [c |-> cc, lo |-> a, hi |-> b,
            num |-> Int1(cc, a, b)[1], den |-> Int1(cc, a, b)[2], anum |-> IntAbs(cc, l0, h0, 1)[1], aden |-> IntAbs(cc, l0, h0, 1)[2]]
Export == level = 0 => Out([k |-> "nest", meth |-> meth, dim |-> dim, orient |-> orient, sign |-> SignOf(orient, dim),
                            par |-> IF par = 0 THEN 0 ELSE ExplicitPar(meth), leaves |-> Leaves(meth, IF par = 0 THEN 0 ELSE ExplicitPar(meth), dim),
                            tol |-> Tol(meth), salt |-> salt, axes |-> [k \in 1..dim |-> Axis(k - 1)]])
\* laws of the exact model: reversing one axis negates; the integral over [lo,hi] plus [hi,lo] vanishes
Laws == \A k \in 0..2 : LET c == Coefs(k, salt) IN RAdd(Int1(c, AxLo[k + 1], AxHi[k + 1]), Int1(c, AxHi[k + 1], AxLo[k + 1])) = RZero
=============================================================================
