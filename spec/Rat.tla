--------------------------------- MODULE Rat ---------------------------------
(***************************************************************************)
(* Exact rational arithmetic over TLC's (32-bit, overflow-checked)         *)
(* integers.  A rational is a normalised pair <<n, d>> with d > 0 and      *)
(* gcd(|n|, d) = 1.  TLC reports overflow as an error, never wraps, so a   *)
(* model that finishes has computed exactly.                               *)
(***************************************************************************)
EXTENDS Integers

Abs(x) == IF x < 0 THEN -x ELSE x
Sgn(x) == IF x > 0 THEN 1 ELSE IF x < 0 THEN -1 ELSE 0

RECURSIVE Gcd(_,_)
Gcd(a, b) == IF b = 0 THEN a ELSE Gcd(b, a % b)

Norm(n, d) == LET s == IF d < 0 THEN -1 ELSE 1
                  g == Gcd(Abs(n), Abs(d))
              IN  IF n = 0 THEN <<0, 1>> ELSE <<(s * n) \div g, (s * d) \div g>>

R(i)       == <<i, 1>>
Frac(n, d) == Norm(n, d)
Num(a) == a[1]
Den(a) == a[2]

RAdd(a, b) == LET g == Gcd(a[2], b[2])
                  l == (a[2] \div g) * b[2]
              IN  Norm(a[1] * (b[2] \div g) + b[1] * (a[2] \div g), l)
RNeg(a)    == <<-a[1], a[2]>>
RSub(a, b) == RAdd(a, RNeg(b))
RMul(a, b) == LET g1 == Gcd(Abs(a[1]), b[2])
                  g2 == Gcd(Abs(b[1]), a[2])
              IN  IF a[1] = 0 \/ b[1] = 0 THEN <<0, 1>>
                  ELSE Norm((a[1] \div g1) * (b[1] \div g2), (a[2] \div g2) * (b[2] \div g1))
RInv(a)    == IF a[1] < 0 THEN <<-a[2], -a[1]>> ELSE <<a[2], a[1]>>
RDiv(a, b) == RMul(a, RInv(b))

RSgn(a)    == Sgn(a[1])
RAbs(a)    == <<Abs(a[1]), a[2]>>
RLt(a, b)  == RSgn(RSub(a, b)) < 0
RLe(a, b)  == RSgn(RSub(a, b)) <= 0
REq(a, b)  == a = b
RMin(a, b) == IF RLe(a, b) THEN a ELSE b
RMax(a, b) == IF RLe(a, b) THEN b ELSE a
RZero == <<0, 1>>
ROne  == <<1, 1>>

RECURSIVE RPow(_,_)
RPow(a, k) == IF k = 0 THEN ROne ELSE RMul(a, RPow(a, k-1))

RECURSIVE RSum(_,_,_)
\* sum_{i=lo}^{hi} F[i] for a function/sequence of rationals
RSum(F, lo, hi) == IF lo > hi THEN RZero ELSE RAdd(F[lo], RSum(F, lo+1, hi))
=============================================================================
