CONSTANTS HLEN = 3 NMAX = 400 NCHK = 60 ABIG = {}
INIT Pas_Init
NEXT Pas_Next
INVARIANT Pas_Laws
INVARIANT Pas_Export
CHECK_DEADLOCK FALSE
