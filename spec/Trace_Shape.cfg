CONSTANTS MaxDim = 3
          Depth = 0
INIT TInit
NEXT TNext
POSTCONDITION TraceAccepted
CHECK_DEADLOCK FALSE
