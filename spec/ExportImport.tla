---------------------------- MODULE ExportImport ----------------------------
(***************************************************************************)
(* C20, first half: the text file between Export_* and Import_*.           *)
(* A file is a sequence of lines, a line a sequence of tokens; a token is  *)
(* either text (header words) or a cell <<row, column>> of the exported    *)
(* table.  A (as the code does it):                                        *)
(*   Export   writes the header (if non-empty) followed by a line break,   *)
(*            then one line per row;                                       *)
(*   Import   skips `skipped` lines, reads numeric tokens until the first  *)
(*            non-numeric one, infers rows = lines - skipped and           *)
(*            columns = tokens div rows, and fills the table row by row.   *)
(* S: with skipped = number of header lines written, the imported table    *)
(* has the exported shape and cell (i,j) is the exported cell (i,j).       *)
(***************************************************************************)
EXTENDS Integers, Sequences, FiniteSets, TLC

Text == <<0, 0>>                        \* a non-numeric token (header word); cells are <<row, column>> with row >= 1
Undefined == <<0, 0, <<>>>>             \* the reader would divide by zero
HeaderLines(h) == h                     \* h = number of lines the header string occupies (0 = no header)
\* header lines may be blank (bit i of hb set <=> header line i has no token at all): the reader counts lines, whatever they contain
FileOfB(rows, cols, h, hb) == [i \in 1..(h + rows) |-> IF i <= h THEN (IF (hb \div (2 ^ (i - 1))) % 2 = 1 THEN <<>> ELSE <<Text, Text>>) ELSE [j \in 1..cols |-> <<i - h, j>>]]
FileOf(rows, cols, h) == FileOfB(rows, cols, h, 0)
RECURSIVE Flatten(_,_)
Flatten(file, i) == IF i > Len(file) THEN <<>> ELSE file[i] \o Flatten(file, i + 1)
RECURSIVE NumericPrefix(_)
NumericPrefix(toks) == IF toks = <<>> \/ Head(toks) = Text THEN <<>> ELSE <<Head(toks)>> \o NumericPrefix(Tail(toks))
\* the reader of Import_Table; returns <<rows, cols, table>> or Undefined when it would divide by zero
ImportTable(file, skipped) ==
  LET toks == NumericPrefix(Flatten(file, skipped + 1))
      rows == Len(file) - skipped
  IN IF rows <= 0 THEN Undefined
     ELSE LET cols == Len(toks) \div rows IN
          <<rows, cols, [i \in 1..rows |-> [j \in 1..cols |-> toks[(i - 1) * cols + j]]]>>
ImportList(file, skipped) == NumericPrefix(Flatten(file, skipped + 1))
RoundTripOK(rows, cols, h) ==
  LET r == ImportTable(FileOf(rows, cols, h), h) IN
  /\ r # Undefined /\ r[1] = rows /\ r[2] = cols
  /\ \A i \in 1..rows, j \in 1..cols : r[3][i][j] = <<i, j>>
RoundTripBlankOK(rows, cols, h, hb) ==
  LET r == ImportTable(FileOfB(rows, cols, h, hb), h) IN r # Undefined /\ r[1] = rows /\ r[2] = cols /\ \A i \in 1..rows, j \in 1..cols : r[3][i][j] = <<i, j>>
\* Beyond the listed properties: Interpolation::Save_Function / Interpolation_2D::Save_Function are exporters of the same
\* file machine (no header; one line per sample of the domain grid, x-major for two dimensions; y_points = 0 means x_points)
SavedRows(dim, xp, yp) == IF dim = 1 THEN xp ELSE xp * (IF yp = 0 THEN xp ELSE yp)
SavedCols(dim) == dim + 1
\* cell <<r, c>> of the saved file of a two-dimensional function: row r belongs to grid node (ix, iy)
SavedNode(r, yp) == <<((r - 1) \div yp) + 1, ((r - 1) % yp) + 1>>
SavedOK(dim, xp, yp) ==
  LET rows == SavedRows(dim, xp, yp) IN
  /\ RoundTripOK(rows, SavedCols(dim), 0)
  /\ dim = 2 => LET ny == IF yp = 0 THEN xp ELSE yp IN
                 /\ {SavedNode(r, ny) : r \in 1..rows} = (1..xp) \X (1..ny)                 \* every node once
                 /\ \A r \in 1..(rows - 1) : LET a == SavedNode(r, ny) b == SavedNode(r + 1, ny) IN   \* x-major order
                        \/ (a[1] = b[1] /\ b[2] = a[2] + 1) \/ (b[1] = a[1] + 1 /\ a[2] = ny /\ b[2] = 1)
ListRoundTripOK(rows, h) == ImportList(FileOf(rows, 1, h), h) = [i \in 1..rows |-> <<i, 1>>]
=============================================================================
