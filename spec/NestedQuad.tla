----------------------------- MODULE NestedQuad -----------------------------
(***************************************************************************)
(* C13: named one-dimensional methods and nested multi-dimensional         *)
(* integrals.                                                              *)
(*                                                                         *)
(* X.  Separable polynomial integrands  p_0(x) p_1(y) p_2(z)  with integer *)
(* coefficients on integer boxes whose axes have DISJOINT ranges: the      *)
(* exact integral is a product of rationals, computed here.                *)
(*                                                                         *)
(* A.  The nesting as the code builds it: level k integrates variable k    *)
(* over its own pair of limits and hands func the tuple of all variables.  *)
(* A leaf evaluation is a tuple of tagged abscissae <<axis, position>>;    *)
(* the wiring invariant says component k carries the tag of axis k.        *)
(* Fixed-order rules have a known number of leaves (order^dim).            *)
(***************************************************************************)
EXTENDS Rat, Sequences, FiniteSets, TLC

Methods == {"Trapezoidal", "Gauss-Legendre", "Gauss-Kronrod", "Tanh-Sinh", "Gauss-Legendre_2", "Adaptive-Simpson"}
Tol(m) == IF m = "Trapezoidal" THEN "1e-6" ELSE "1e-9"
\* ranges of the three axes (disjoint, so that an argument reveals which variable it received)
AxLo == <<0, 3, 5>>
AxHi == <<2, 4, 7>>

RECURSIVE IPow(_,_)
IPow(b, e) == IF e = 0 THEN 1 ELSE b * IPow(b, e - 1)
\* exact integral of sum_k c[k+1] x^k from lo to hi
RECURSIVE IntPoly(_,_,_,_)
IntPoly(c, lo, hi, k) == IF k > Len(c) THEN RZero
                         ELSE RAdd(Frac(c[k] * (IPow(hi, k) - IPow(lo, k)), k), IntPoly(c, lo, hi, k + 1))
Int1(c, lo, hi) == IntPoly(c, lo, hi, 1)
\* sum_k |c_k| * int |x|^k  (a scale for the error allowance; ranges are non-negative)
RECURSIVE IntAbs(_,_,_,_)
IntAbs(c, lo, hi, k) == IF k > Len(c) THEN RZero
                        ELSE RAdd(Frac((IF c[k] < 0 THEN -c[k] ELSE c[k]) * (IPow(hi, k) - IPow(lo, k)), k), IntAbs(c, lo, hi, k + 1))

\* orientation: bit k of o set <=> limits of axis k are given reversed
Rev(o, k) == (o \div IPow(2, k)) % 2 = 1
SignOf(o, dim) == LET S[k \in 0..dim] == IF k = 0 THEN 1 ELSE S[k - 1] * (IF Rev(o, k - 1) THEN -1 ELSE 1) IN S[dim]

\* number of integrand evaluations of the fixed-order rules (0: adaptive, not fixed)
Order(m, par) == IF m = "Gauss-Legendre" THEN 30 ELSE IF m = "Gauss-Legendre_2" THEN (IF par = 0 THEN 30 ELSE par) ELSE 0
Leaves(m, par, dim) == IPow(Order(m, par), dim)

\* ---- A: the nest.  pos \in 1..3 abstract abscissae per level
Leaf(dim, choice) == [k \in 1..dim |-> <<k - 1, choice[k]>>]          \* what the correct nest hands to func
Wired(leaf) == \A k \in 1..Len(leaf) : leaf[k][1] = k - 1
=============================================================================
