CONSTANT NEX = 512
INIT Init
NEXT Next
POSTCONDITION TraceAccepted
CHECK_DEADLOCK FALSE
