---------------------------- MODULE Trace_Simpson ----------------------------
(***************************************************************************)
(* Trace validation for C03.  One execution =                              *)
(*   Call{orient, depth}  Panel{k, j, inb}*  Return{...}                   *)
(* recorded by wrapping the integrand of the real Integrate(f,a,b,eps,d).  *)
(* The recorder maps every pair of successive evaluations to the frame     *)
(* whose quarter points they are (k = -1 if there is none).                *)
(* The trace specification re-uses the frame machine of Simpson.tla: each  *)
(* Panel must be enabled in the state reached so far, and Return checks    *)
(* the clauses of the property that quantify over the whole execution.     *)
(***************************************************************************)
EXTENDS Simpson, Sequences, TLC, Json, IOUtils
VARIABLES depth, orient, visited, l
vars == <<depth, orient, visited, l>>
Log == ndJsonDeserialize(IOEnv.TRACE)
Init == depth = 0 /\ orient = 0 /\ visited = {} /\ l = 1
Ev(e) == l <= Len(Log) /\ Log[l].e = e /\ l' = l + 1

TCall == /\ Ev("Call")
         /\ depth' = Log[l].depth /\ orient' = Log[l].orient /\ visited' = {}
TPanel == /\ Ev("Panel")
          /\ orient # 0                                    \* equal limits: the integrand is never evaluated
          /\ LET f == <<Log[l].k, Log[l].j>> IN
             /\ CanPanel(visited, depth, f)                \* a half of an evaluated panel, once, within the depth limit
             /\ Log[l].inb                                 \* both abscissae inside the closed interval
             /\ visited' = visited \cup {f}
          /\ UNCHANGED <<depth, orient>>
TReturn == /\ Ev("Return")
           /\ LET ev == Log[l] IN
              /\ ev.startInb                               \* the three start evaluations are lo, hi and a point between
              /\ IF orient = 0 THEN ev.n = 0 /\ ev.zero    \* equal limits give zero without evaluating
                 ELSE /\ ev.n <= CountBound(depth)         \* at most 2^(depth+2)+1 evaluations
                      /\ ev.n % 2 = 1 /\ ev.n >= 5
                      \* executions with thousands of panels are logged without their Panel events (ev.big)
                      /\ (~ev.big => /\ ev.n = Evaluations(visited)       \* every evaluation is accounted for by a panel
                                     /\ Closed(visited))                  \* both halves of every refined panel were integrated
              /\ ev.swapneg                                \* swapping the limits negates the result exactly
              /\ ev.epssame                                \* the sign of epsilon is irrelevant
              /\ (ev.cls = "quintic" => ev.errq <= 1)      \* exact on quintics for any epsilon and depth (unit: rounding)
              /\ (ev.cls = "regular" /\ ~ev.warn => ev.errq <= 1)   \* |error| <= 4 eps + rounding when the estimator converged
           /\ UNCHANGED <<depth, orient, visited>>
Next == TCall \/ TPanel \/ TReturn
Spec == Init /\ [][Next]_vars
TraceAccepted == TLCGet("stats").diameter - 1 = Len(Log)
=============================================================================
