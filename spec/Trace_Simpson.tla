---------------------------- MODULE Trace_Simpson ----------------------------
(***************************************************************************)
(* Trace validation for C03.  One execution =                              *)
(*   Call{orient, depth}  Panel{k, j, inb}*  Return{...}                   *)
(* recorded by wrapping the integrand of the real Integrate(f,a,b,eps,d).  *)
(* The recorder maps every pair of successive evaluations to the frame     *)
(* whose quarter points they are (k = -1 if there is none).                *)
(* S (verdict, CHECK_A = FALSE): what the statement says and nothing else  *)
(* - every evaluation inside the closed interval, at most 2^(depth+2)+1 of *)
(* them, zero for equal limits, exact negation, sign of epsilon, accuracy. *)
(* The statement fixes neither the order of the evaluations nor which      *)
(* abscissae are used.                                                     *)
(* A (CHECK_A = TRUE, model drift only): the trace re-uses the frame       *)
(* machine of Simpson.tla: the three start evaluations are lo, hi and a    *)
(* point between, in this order; each Panel must be enabled in the state   *)
(* reached so far (quarter points of a pending frame, lower one first);    *)
(* the count is odd and accounted for by the panels; every refined panel   *)
(* has both halves; equal limits do not evaluate at all.                   *)
(***************************************************************************)
EXTENDS Simpson, Sequences, TLC, Json, IOUtils
CONSTANT CHECK_A
VARIABLES depth, orient, visited, l
vars == <<depth, orient, visited, l>>
Log == ndJsonDeserialize(IOEnv.TRACE)
Init == depth = 0 /\ orient = 0 /\ visited = {} /\ l = 1
Ev(e) == l <= Len(Log) /\ Log[l].e = e /\ l' = l + 1

TCall == /\ Ev("Call")
         /\ depth' = Log[l].depth /\ orient' = Log[l].orient /\ visited' = {}
TPanel == /\ Ev("Panel")
          /\ Log[l].inb                                    \* S: both abscissae inside the closed interval
          /\ IF CHECK_A
             THEN /\ orient # 0                            \* A: equal limits: the integrand is never evaluated
                  /\ LET f == <<Log[l].k, Log[l].j>> IN
                     /\ CanPanel(visited, depth, f)        \* A: a half of an evaluated panel, once, within the depth limit
                     /\ visited' = visited \cup {f}
             ELSE UNCHANGED visited
          /\ UNCHANGED <<depth, orient>>
TReturn == /\ Ev("Return")
           /\ LET ev == Log[l] IN
              /\ ev.allinb                                 \* S: every evaluation inside the closed interval
              /\ (CHECK_A => ev.startInb)                  \* A: the three start evaluations are lo, hi and a point between
              /\ IF orient = 0 THEN ev.zero /\ (CHECK_A => ev.n = 0)    \* S: equal limits give zero (A: without evaluating)
                 ELSE /\ ev.n <= CountBound(depth)         \* S: at most 2^(depth+2)+1 evaluations
                      /\ (CHECK_A => ev.n % 2 = 1 /\ ev.n >= 5)
                      \* executions with thousands of panels are logged without their Panel events (ev.big)
                      /\ ((CHECK_A /\ ~ev.big) => /\ ev.n = Evaluations(visited)       \* A: every evaluation is accounted for by a panel
                                                  /\ Closed(visited))                  \* A: both halves of every refined panel were integrated
              /\ ev.swapneg                                \* swapping the limits negates the result exactly
              /\ ev.epssame                                \* the sign of epsilon is irrelevant
              /\ (ev.cls = "quintic" => ev.errq <= 1)      \* exact on quintics for any epsilon and depth (unit: rounding)
              /\ (ev.cls = "regular" /\ ~ev.warn => ev.errq <= 1)   \* |error| <= 4 eps + rounding when the estimator converged
           /\ UNCHANGED <<depth, orient, visited>>
Next == TCall \/ TPanel \/ TReturn
Spec == Init /\ [][Next]_vars
TraceAccepted == TLCGet("stats").diameter - 1 = Len(Log)
=============================================================================
