CONSTANTS NMAX = 4 SPACINGS = {1,2,3} YMAX = 2 NPAR = 6
INIT Init
NEXT Next
INVARIANT Props
INVARIANT Export
CHECK_DEADLOCK FALSE
