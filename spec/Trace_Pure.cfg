INIT TInit
NEXT TNext
INVARIANT Covered
POSTCONDITION TraceAccepted
CHECK_DEADLOCK FALSE
