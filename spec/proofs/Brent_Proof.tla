----------------------------- MODULE Brent_Proof -----------------------------
(***************************************************************************)
(* Unbounded proof (TLAPS) about the bookkeeping of Brent's minimiser,     *)
(* BrentCore!BUpdate, for EVERY position and EVERY value (TLC explores it  *)
(* on a grid with one objective family, the trace spec on recorded ranks): *)
(* if the trial point lies in the bracket and differs from x, then after   *)
(* the update                                                              *)
(*   - the bracket still contains x and never grows; with x and u strictly *)
(*     inside it shrinks strictly and x stays strictly inside,             *)
(*   - x is the better of the old x and u (so x is always the best point   *)
(*     evaluated), and its value is the smaller value,                     *)
(*   - the values of the three best points stay ordered fx <= fw <= fv     *)
(*     when they were ordered before.                                      *)
(***************************************************************************)
EXTENDS BrentCore, TLAPS

IsState(s) == /\ s = BState(s.a, s.b, s.x, s.w, s.v, s.fx, s.fw, s.fv)
              /\ s.a \in Int /\ s.b \in Int /\ s.x \in Int /\ s.w \in Int /\ s.v \in Int
              /\ s.fx \in Int /\ s.fw \in Int /\ s.fv \in Int

THEOREM BracketKeepsX ==
  ASSUME NEW s, IsState(s), NEW u \in Int, NEW fu \in Int,
         s.a <= s.x, s.x <= s.b, s.a <= u, u <= s.b, u # s.x
  PROVE  LET n == BUpdate(s, u, fu) IN
         /\ n.a <= n.x /\ n.x <= n.b
         /\ s.a <= n.a /\ n.b <= s.b
         /\ n.x = (IF fu <= s.fx THEN u ELSE s.x)
         /\ n.fx = (IF fu <= s.fx THEN fu ELSE s.fx)
         /\ n.fx <= s.fx /\ n.fx <= fu
  BY DEF BUpdate, BState, IsState

\* with x and the trial point strictly inside (what the code's tolerance guard ensures) the bracket shrinks strictly in every step and
\* x stays strictly inside - the claim without "strictly inside" is false (x at an end of the bracket): TLAPS rejected it
THEOREM BracketShrinks ==
  ASSUME NEW s, IsState(s), NEW u \in Int, NEW fu \in Int,
         s.a < s.x, s.x < s.b, s.a < u, u < s.b, u # s.x
  PROVE  LET n == BUpdate(s, u, fu) IN
         /\ n.a < n.x /\ n.x < n.b
         /\ (n.a > s.a \/ n.b < s.b)
  BY DEF BUpdate, BState, IsState

THEOREM OrderKept ==
  ASSUME NEW s, IsState(s), NEW u \in Int, NEW fu \in Int,
         s.fx <= s.fw, s.fw <= s.fv
  PROVE  LET n == BUpdate(s, u, fu) IN n.fx <= n.fw /\ (n.fw <= n.fv \/ s.w = s.x \/ s.v = s.x \/ s.v = s.w)
  BY DEF BUpdate, BState, IsState
=============================================================================
