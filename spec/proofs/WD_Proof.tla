------------------------------ MODULE WD_Proof ------------------------------
(***************************************************************************)
(* Unbounded proof (TLAPS) of the design of Workload_Distribution as it is *)
(* transcribed in Helpers!WD_A (WDCore!WDIndex): for EVERY number of workers w >= 1 and     *)
(* EVERY number of tasks t, the list idx |-> idx*q + (remainder handed to  *)
(* the last r workers) starts at 0, ends at t, and consecutive differences *)
(* are q or q+1 (hence non-decreasing and differing by at most one).       *)
(* q and r are characterised by t = q*w + r, 0 <= r < w (what \div and %   *)
(* compute); TLC checks WD_A against WD_S for all w <= 128, t <= 1024 and  *)
(* the code against WD_A; this theorem removes the bound on the model side.*)
(***************************************************************************)
EXTENDS WDCore, TLAPS

A(w, q, r, idx) == WDIndex(w, q, r, idx)

THEOREM WDCorrect ==
  ASSUME NEW w \in Nat \ {0}, NEW t \in Nat, NEW q \in Nat, NEW r \in 0..(w-1), t = q * w + r
  PROVE  /\ A(w, q, r, 0) = 0
         /\ A(w, q, r, w) = t
         /\ \A k \in 0..(w-1) : A(w, q, r, k+1) - A(w, q, r, k) \in {q, q+1}
<1>1. A(w, q, r, 0) = 0
  BY DEF A, WDIndex
<1>2. A(w, q, r, w) = t
  BY DEF A, WDIndex
<1>3. ASSUME NEW k \in 0..(w-1) PROVE A(w, q, r, k+1) - A(w, q, r, k) \in {q, q+1}
  <2>1. (k+1) * q = k * q + q
    OBVIOUS
  <2>2. QED BY <2>1 DEF A, WDIndex
<1>4. QED BY <1>1, <1>2, <1>3

COROLLARY WDMonotone ==
  ASSUME NEW w \in Nat \ {0}, NEW t \in Nat, NEW q \in Nat, NEW r \in 0..(w-1), t = q * w + r,
         NEW j \in 0..(w-1), NEW k \in 0..(w-1)
  PROVE  /\ A(w, q, r, k) <= A(w, q, r, k+1)
         /\ (A(w, q, r, j+1) - A(w, q, r, j)) - (A(w, q, r, k+1) - A(w, q, r, k)) \in {-1, 0, 1}
<1>1. A(w, q, r, k+1) - A(w, q, r, k) \in {q, q+1} BY WDCorrect
<1>2. A(w, q, r, j+1) - A(w, q, r, j) \in {q, q+1} BY WDCorrect
<1>3. A(w, q, r, k) \in Int /\ A(w, q, r, k+1) \in Int /\ A(w, q, r, j) \in Int /\ A(w, q, r, j+1) \in Int
  BY DEF A, WDIndex
<1>4. QED BY <1>1, <1>2, <1>3
=============================================================================
