---------------------------- MODULE Bracket_Proof ----------------------------
(***************************************************************************)
(* Unbounded proof (TLAPS) for Bracket.tla: for EVERY sequence of          *)
(* evaluated abscissae and EVERY values whatsoever (any objective, not     *)
(* only the families TLC enumerates on a grid), the bracketing phase keeps *)
(* its triple strictly monotone, keeps f(bx) <= f(ax) inside the loop, and *)
(* whenever it returns, bx lies strictly between ax and cx with            *)
(* f(bx) <= f(ax) and f(bx) <= f(cx).                                      *)
(* The inductive invariant adds what the pending two-step branches know:   *)
(* after an undecided inner point the loop condition fb > fc still holds;  *)
(* a successful outer point tu lies beyond cx and its value is below fc.   *)
(***************************************************************************)
EXTENDS Bracket, TLAPS

BNext == (\E u \in Int, fu \in Int : Eval(u, fu)) \/ Exit
BSpec == BInit /\ [][BNext]_bvars

Mono == (ax < bx /\ bx < cx) \/ (ax > bx /\ bx > cx)
Inv == /\ pc \in {"a", "b", "c", "loop", "g1", "s2", "done"}
       /\ ax \in Int /\ bx \in Int /\ cx \in Int /\ fa \in Int /\ fb \in Int /\ fc \in Int /\ tu \in Int /\ tfu \in Int
       /\ pc = "c" => (ax # bx /\ fb <= fa)
       /\ pc \in {"loop", "g1", "s2", "done"} => Mono
       /\ pc \in {"loop", "g1", "s2"} => fb <= fa
       /\ pc \in {"g1", "s2"} => fb > fc
       /\ pc = "s2" => (tfu < fc /\ Further(tu, cx))
       /\ pc = "done" => (fb <= fa /\ fb <= fc)

LEMMA InitInv == BInit => Inv
  BY DEF BInit, Inv, Mono

LEMMA StepInv == Inv /\ [BNext]_bvars => Inv'
<1> SUFFICES ASSUME Inv, [BNext]_bvars PROVE Inv'
  OBVIOUS
<1>1. CASE Exit
  BY <1>1 DEF Exit, Inv, Mono, Further
<1>2. CASE UNCHANGED bvars
  BY <1>2 DEF bvars, Inv, Mono, Further
<1>3. ASSUME NEW u \in Int, NEW fu \in Int, Eval(u, fu) PROVE Inv'
  <2>1. CASE EvalA(u, fu)
    BY <2>1 DEF EvalA, Inv, Mono, Further
  <2>2. CASE EvalB(u, fu)
    BY <2>2 DEF EvalB, Inv, Mono, Further
  <2>3. CASE EvalC(u, fu)
    BY <2>3 DEF EvalC, Inv, Mono, Further
  <2>4. CASE Inside(u, fu)
    BY <2>4 DEF Inside, Between, Inv, Mono, Further
  <2>5. CASE Golden(u, fu)
    BY <2>5 DEF Golden, Shift, BeyondC, Further, Inv, Mono
  <2>6. CASE OutsideShift(u, fu)
    BY <2>6 DEF OutsideShift, Shift, BeyondC, Further, Inv, Mono
  <2>7. CASE OutsideMore(u, fu)
    BY <2>7 DEF OutsideMore, BeyondC, Further, Inv, Mono
  <2>8. CASE Extra(u, fu)
    BY <2>8 DEF Extra, Further, Inv, Mono
  <2>9. QED BY <1>3, <2>1, <2>2, <2>3, <2>4, <2>5, <2>6, <2>7, <2>8 DEF Eval
<1>4. QED BY <1>1, <1>2, <1>3 DEF BNext

THEOREM BracketSafe == BSpec => []Inv
  BY InitInv, StepInv, PTL DEF BSpec

\* what the property needs, as consequences of the invariant
THEOREM InvGivesProperty == Inv => Monotone /\ Downhill /\ Bracketed
  BY DEF Inv, Mono, Monotone, Downhill, Bracketed
=============================================================================
