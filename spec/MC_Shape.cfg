CONSTANTS MaxDim = 3
          Depth = 2
SPECIFICATION Spec
INVARIANTS RepInv Bounded
ACTION_CONSTRAINT Export
CHECK_DEADLOCK FALSE
