------------------------------- MODULE Scalars -------------------------------
(***************************************************************************)
(* C17: scalar helper functions and the coefficient tables of the vector   *)
(* spherical harmonics, as far as they are integer / rational.             *)
(*                                                                         *)
(* Round(x, d) on decimal inputs x = m * 10^e (m a positive integer): the  *)
(* result is RoundMant(m, d) * 10^(e + Digits(m) - d), half-up.            *)
(*                                                                         *)
(* Sign / StepFunction / Sign(x,y) / Relative_Difference / Floats_Equal on *)
(* a set of value classes: decision tables.                                *)
(*                                                                         *)
(* VSH coefficients from the ladder identities of cos(th) Y_lm and         *)
(* sin(th) exp(+-i phi) Y_lm:  rhat Y_lm = sum coef * Y_{l+-1, m(+-1)};    *)
(* each coefficient is a phase in {1,-1,i,-i} times the square root of a   *)
(* rational; Psi = r grad Y_lm has the same structure with the l+1 part    *)
(* multiplied by -l and the l-1 part by l+1.                               *)
(***************************************************************************)
EXTENDS Rat, Sequences, FiniteSets, TLC

RECURSIVE Pow10(_)
Pow10(k) == IF k = 0 THEN 1 ELSE 10 * Pow10(k - 1)
RECURSIVE Digits(_)
Digits(m) == IF m < 10 THEN 1 ELSE 1 + Digits(m \div 10)
\* m rounded half-up to d significant digits, as an integer with d digits (d+1 digits when 99..9 rounds up)
RoundMant(m, d) == LET k == Digits(m) IN IF k <= d THEN m * Pow10(d - k) ELSE (m + 5 * Pow10(k - d - 1)) \div Pow10(k - d)
\* the digit pattern is a tie (exactly half-way): decided by the binary expansion of x, not by the decimal model
IsTie(m, d) == LET k == Digits(m) IN k > d /\ m % Pow10(k - d) = 5 * Pow10(k - d - 1)

\* ---- decision tables; value classes are small integers standing for doubles: -2,-1,1,2 themselves, 0 = +0.0, 10 = -0.0, 3 = tiny (1e-300), -3 = -tiny, 4 = huge (1e300), -4 = -huge
Classes == {-4, -3, -2, -1, 0, 10, 1, 2, 3, 4}
SgnC(c) == IF c \in {0, 10} THEN 0 ELSE IF c < 0 THEN -1 ELSE 1
StepC(c) == IF SgnC(c) >= 0 THEN 1 ELSE 0                                \* x >= 0 (both zeros)
Sign2Keeps(cx, cy) == SgnC(cx) = SgnC(cy)                                \* Sign(x,y) = x when the signs agree, -x otherwise
SameValue(a, b) == a = b \/ ({a, b} = {0, 10})
\* Relative_Difference(a,b) = |a-b| / max(|a|,|b|) is 0 for equal arguments (also for two zeros) and in (0, 2] otherwise
RelDiffZero(a, b) == SameValue(a, b)
FloatsEqualSpec(a, b) == SameValue(a, b)                                 \* on these well separated classes, with the default tolerance

\* ---- VSH coefficient rules: <<phase, <<num, den>> >> with phase in {"0", "+1", "-1", "+i", "-i"}; the coefficient is phase * sqrt(num/den)
Zero == <<"0", RZero>>
A2(l, m) == Frac((l - m + 1) * (l + m + 1), (2 * l + 1) * (2 * l + 3))           \* cos th Y_lm -> Y_{l+1,m}; the l-1 part is A2(l-1, m)
Bp2(l, m) == Frac((l + m + 1) * (l + m + 2), (2 * l + 1) * (2 * l + 3))          \* sin th e^{+i phi} Y_lm -> -sqrt(Bp2) Y_{l+1,m+1}
Cp2(l, m) == Frac((l - m) * (l - m - 1), (2 * l - 1) * (2 * l + 1))              \*                         -> +sqrt(Cp2) Y_{l-1,m+1}
Bm2(l, m) == Frac((l - m + 1) * (l - m + 2), (2 * l + 1) * (2 * l + 3))          \* sin th e^{-i phi} Y_lm -> +sqrt(Bm2) Y_{l+1,m-1}
Cm2(l, m) == Frac((l + m) * (l + m - 1), (2 * l - 1) * (2 * l + 1))              \*                         -> -sqrt(Cm2) Y_{l-1,m-1}
Quarter(q) == RMul(q, Frac(1, 4))
\* x = (E+ + E-)/2, y = (E+ - E-)/(2i), z = cos th
YCoef(comp, l, m, lh, mh) ==
  IF (lh # l - 1 /\ lh # l + 1) THEN Zero
  ELSE IF comp = 2 THEN (IF mh # m THEN Zero ELSE IF lh = l + 1 THEN <<"+1", A2(l, m)>> ELSE <<"+1", A2(l - 1, m)>>)
  ELSE IF mh = m + 1 THEN (IF lh = l + 1 THEN <<IF comp = 0 THEN "-1" ELSE "+i", Quarter(Bp2(l, m))>>          \* -B+/2 ; -B+/(2i) = +i B+/2
                                         ELSE <<IF comp = 0 THEN "+1" ELSE "-i", Quarter(Cp2(l, m))>>)         \* +C+/2 ; +C+/(2i) = -i C+/2
  ELSE IF mh = m - 1 THEN (IF lh = l + 1 THEN <<IF comp = 0 THEN "+1" ELSE "+i", Quarter(Bm2(l, m))>>          \* +B-/2 ; -B-/(2i) = +i B-/2
                                         ELSE <<IF comp = 0 THEN "-1" ELSE "-i", Quarter(Cm2(l, m))>>)         \* -C-/2 ; +C-/(2i) = -i C-/2
  ELSE Zero
Norm0(c) == IF c[2] = RZero THEN Zero ELSE c
Neg(ph) == CASE ph = "+1" -> "-1" [] ph = "-1" -> "+1" [] ph = "+i" -> "-i" [] ph = "-i" -> "+i" [] OTHER -> "0"
\* Psi = r grad Y_lm: the l+1 part of rhat Y_lm times -l, the l-1 part times l+1
PsiCoef(comp, l, m, lh, mh) ==
  LET y == Norm0(YCoef(comp, l, m, lh, mh)) IN
  IF y = Zero THEN Zero
  ELSE IF lh = l + 1 THEN Norm0(<<Neg(y[1]), RMul(y[2], R(l * l))>>)
  ELSE <<y[1], RMul(y[2], R((l + 1) * (l + 1)))>>
=============================================================================
