CONSTANT NMAX = 512
INIT Map_Init
NEXT Map_Next
INVARIANT Map_Inv
CHECK_DEADLOCK FALSE
