------------------------------ MODULE Trace_Dist ------------------------------
(***************************************************************************)
(* Trace validation for C07.                                               *)
(*  Binom   : masses / CDF for dyadic p against C(n,x) p^x (1-p)^(n-x)     *)
(*            with exact C(n,x) (Pascal machine), sum to one, monotone.    *)
(*  Pois    : PMF and CDF at rational means against the exact series of    *)
(*            Distributions.tla; likelihood = mass at signal + background. *)
(*  PoisSum : CDF_Poisson = running sum of PMF_Poisson, non-decreasing.    *)
(*  InvPois : CDF_Poisson(Inv_CDF_Poisson(n, c), n) = c.                   *)
(*  Lik     : binned likelihood = product over bins, log = logarithm.      *)
(*  Grid    : a continuous family on an ascending grid (support boundary,  *)
(*            tails, branch conditions): density >= 0, CDF in [0,1],       *)
(*            non-decreasing, 0 and 1 in the far tails, increments equal   *)
(*            to the integral of the library's own density.                *)
(*  Gauss2D : PDF_Gauss_2D = PDF_Gauss(x) * PDF_Gauss(y), non-negative.     *)
(*  The tolerance class (tol) must be the one the family / parameter calls *)
(*  for: 1e-12 closed forms, 1e-9 incomplete-gamma based (a <= 100), 2e-3  *)
(*  above, as C06 states for the underlying functions.                     *)
(***************************************************************************)
EXTENDS Integers, Sequences, TLC, Json, IOUtils
VARIABLE l
Log == ndJsonDeserialize(IOEnv.TRACE)
Reject(i) == TLCSet(7, Append(TLCGet(7), i))
Judge(ok) == IF ok THEN TRUE ELSE Reject(l)
Init == l = 1 /\ TLCSet(7, <<>>)
Ev(e) == l <= Len(Log) /\ Log[l].e = e /\ l' = l + 1
TolOf(fam) == CASE fam \in {"uniform", "normal", "exponential", "maxwell"} -> "1e-12"
                [] fam \in {"chi2", "chibar"} -> "1e-9"
                [] fam = "chi2hi" -> "2e-3"
TBinom == Ev("Binom") /\ LET ev == Log[l] IN Judge(ev.pq <= 1 /\ ev.cq <= 1 /\ ev.sumq <= 1 /\ ev.nonneg /\ ev.mono /\ ev.outside /\ ev.last1)
TPois == Ev("Pois") /\ LET ev == Log[l] IN Judge(
           /\ ev.tol = (IF ev.cnt + 1 > 100 THEN "1e-3" ELSE "1e-12")
           /\ ev.pq <= 1 /\ ev.cq <= 1 /\ ev.range /\ ev.likq <= 1 /\ ev.loglikq <= 1)
TPoisSum == Ev("PoisSum") /\ LET ev == Log[l] IN Judge(ev.q <= 1 /\ ev.mono /\ ev.range)
TInvPois == Ev("InvPois") /\ LET ev == Log[l] IN Judge(ev.tol = (IF ev.hi THEN "1e-3" ELSE "1e-7") /\ ev.fin /\ ev.q <= 1)
TLik == Ev("Lik") /\ LET ev == Log[l] IN Judge(ev.q <= 1 /\ ev.lq <= 1)
TGrid == Ev("Grid") /\ LET ev == Log[l] IN Judge(
           /\ ev.tol = TolOf(ev.fam)
           /\ ev.fin /\ ev.nonneg /\ ev.range /\ ev.monoq <= 1 /\ ev.incq <= 1 /\ ev.lo0 /\ ev.hi1)
TEdge == Ev("Edge") /\ Judge(Log[l].ok)
TQuantile == Ev("Quantile") /\ Judge(Log[l].ok)
\* two-dimensional normal density = product of the one-dimensional densities (independent coordinates), non-negative
TGauss2D == Ev("Gauss2D") /\ LET ev == Log[l] IN Judge(ev.q <= 1 /\ ev.nonneg)
TKDE == Ev("KDE") /\ LET ev == Log[l] IN Judge(ev.nonneg /\ ev.intq <= 1)
\* far tails (levels down to 1e-11 on either side, counts below 100): the level reached is the requested one to 1e-4 of the tail probability
TInvPoisTail == Ev("InvPoisTail") /\ LET ev == Log[l] IN Judge(ev.side \in {0, 1} /\ ev.fin /\ ev.q <= 1)
Next == TBinom \/ TPois \/ TPoisSum \/ TInvPois \/ TInvPoisTail \/ TLik \/ TGrid \/ TEdge \/ TQuantile \/ TGauss2D \/ TKDE
Spec == Init /\ [][Next]_l
TraceAccepted == /\ TLCGet("stats").diameter - 1 = Len(Log)
                 /\ PrintT(<<"REJECTED-EVENTS", TLCGet(7)>>)
                 /\ TLCGet(7) = <<>>
=============================================================================
