---------------------------- MODULE Trace_Guards ----------------------------
(***************************************************************************)
(* Trace validation for C10: each event is one request of the decision     *)
(* table executed by the real library in a child process, with the         *)
(* observed outcome (returned / exit status / diagnostic / memory error).  *)
(***************************************************************************)
EXTENDS Guards, TLC, Json, IOUtils, Sequences
VARIABLE l
Log == ndJsonDeserialize(IOEnv.TRACE)
Init == l = 1
TReq == /\ l <= Len(Log) /\ Log[l].e = "Req" /\ l' = l + 1
        /\ LET ev == Log[l]
               r  == Req(ev.ep, ev.a, ev.b, ev.c, ev.d, ev.e2) IN
           /\ r \in Requests
           /\ ~ev.mem                                        \* never a memory error, whatever the request
           /\ Either(r) \/ (ev.ret <=> Meaningful(r))        \* meaningful requests return, meaningless ones do not
           /\ ~ev.ret => (ev.status # 0 /\ ev.diag)          \* a refusal is a failure status with a non-empty diagnostic
Next == TReq
Spec == Init /\ [][Next]_l
TraceAccepted == TLCGet("stats").diameter - 1 = Len(Log)
=============================================================================
