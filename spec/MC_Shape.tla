------------------------------ MODULE MC_Shape ------------------------------
(* Checks Rep over the bounded machine of Shape and exports behaviours for replay in the real objects.                     *)
(*   MODE=leaves : every behaviour of length Depth (BFS without a view: all action sequences)                             *)
(*   MODE=trans  : with VIEW st: one behaviour for every transition out of every distinct state reachable in < Depth steps *)
(*   MODE=walk   : under -simulate: the random behaviours of length Depth                                                  *)
EXTENDS Shape, TLC, Json, CSV, IOUtils
Mode == IF "MODE" \in DOMAIN IOEnv THEN IOEnv.MODE ELSE "none"
Export == IF Mode = "none" THEN TRUE
          ELSE IF Mode = "trans" \/ Len(hist') = Depth
               THEN CSVWrite("%1$s", <<ToJson([h |-> hist', walk |-> (Mode = "walk")])>>, IOEnv.OUT)
               ELSE TRUE
StView == st
=============================================================================
