----------------------------- MODULE Trace_Shape -----------------------------
(***************************************************************************)
(* Trace validation for the shape machine.  Events are independent:        *)
(*   Tr    {pre, a, x, y, z, post}: the real objects, observed through the *)
(*         public interface before and after one action.  Accepted iff pre *)
(*         is a well-formed state, the action is one Shape enables there   *)
(*         and post is exactly Apply(pre, action): counters, the true      *)
(*         width of every row, every entry, and the round trips (tt).      *)
(*   Probe {st, p, i, j, ret, diag, mem}: a request made in a child        *)
(*         process of the objects in state st.  Accepted iff it returned   *)
(*         exactly when Shape!Meaningful says it has a meaning, a refusal  *)
(*         carried a diagnostic, and no memory error was seen.             *)
(* Rejected event numbers are collected in TLC register 7.                 *)
(***************************************************************************)
EXTENDS Shape, TLC, Json, IOUtils
VARIABLE l
Log == ndJsonDeserialize(IOEnv.TRACE)
Reject(i) == TLCSet(7, Append(TLCGet(7), i))
Judge(ok) == IF ok THEN TRUE ELSE Reject(l)
TInit == l = 1 /\ st = InitState /\ hist = <<>> /\ TLCSet(7, <<>>)     \* st, hist of Shape are not used here
Ev(e) == l <= Len(Log) /\ Log[l].e = e /\ l' = l + 1 /\ UNCHANGED vars

WellFormed(o) == /\ Len(o.w) = o.r /\ Len(o.m) = o.r /\ Len(o.v) = o.n
                 /\ \A i \in 1..o.r : o.w[i] = o.c /\ Len(o.m[i]) = o.c
                 /\ o.tt
StateOf(o) == State(o.r, o.c, o.m, o.n, o.v)
Shows(o, s) == /\ WellFormed(o)
               /\ o.r = s.rows /\ o.c = s.cols /\ o.n = s.vdim
               /\ \A i \in 1..o.r : \A j \in 1..o.c : o.m[i][j] = s.comp[i][j]
               /\ \A k \in 1..o.n : o.v[k] = s.vcomp[k]

TTr == Ev("Tr") /\ LET ev == Log[l]  act == Act(ev.a, ev.x, ev.y, ev.z) IN
         Judge(/\ WellFormed(ev.pre)
               /\ act \in Acts(StateOf(ev.pre))
               /\ Shows(ev.post, Apply(StateOf(ev.pre), act)))
TProbe == Ev("Probe") /\ LET ev == Log[l] IN
         Judge(/\ WellFormed(ev.st)
               /\ ev.p \in ProbeKinds
               /\ ~ev.mem
               /\ ev.ret <=> Meaningful(StateOf(ev.st), ev.p, ev.i, ev.j)
               /\ ~ev.ret => ev.diag)
TNext == TTr \/ TProbe
TSpec == TInit /\ [][TNext]_<<l, vars>>
TraceAccepted == /\ TLCGet("stats").diameter - 1 = Len(Log)
                 /\ PrintT(<<"REJECTED-EVENTS", TLCGet(7)>>)
                 /\ TLCGet(7) = <<>>
=============================================================================
