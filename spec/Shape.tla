------------------------------- MODULE Shape -------------------------------
(***************************************************************************)
(* State machine of one Matrix object M and one Vector object v under the  *)
(* size-changing part of the public interface (constructors, operator=,    *)
(* Resize, Assign, Delete_Row/Column, Transpose, Sub_Matrix, element       *)
(* access, Return_Row/Column, M*v, v*M, +=, *, ...).                       *)
(*                                                                         *)
(* The state is the REPRESENTATION of the two objects as the class         *)
(* declares it (Linear_Algebra.hpp:77-79): counters rows, columns and the  *)
(* row-major storage comp (a sequence of sequences); dimension vdim and    *)
(* storage vcomp.  Each action is a transcription of what the member does  *)
(* to these three fields.  The property-level statement is                 *)
(*    Rep  : Len(comp) = rows and every row has cols entries,              *)
(*           Len(vcomp) = vdim      (the anchor invariant of C04)          *)
(*    Meaningful(st, probe): which index / conformability requests have a  *)
(*           meaning for the object AS IT IS NOW (C10).                    *)
(* TLC checks Rep over the whole bounded machine and exports behaviours;   *)
(* harness/shape.cpp drives the real objects along them and records        *)
(* (pre, action, post); Trace_Shape accepts a record iff post is the       *)
(* state Apply(pre, action) of this module.                                *)
(***************************************************************************)
EXTENDS Integers, Sequences, FiniteSets

CONSTANTS MaxDim,        \* largest number of rows / columns / vector entries
          Depth          \* length of the exported behaviours
Fill == 7
UMAX == 9999

Remove(s, i)     == [k \in 1..(Len(s) - 1) |-> IF k < i THEN s[k] ELSE s[k + 1]]
ResizeSeq(s, n)  == [k \in 1..n |-> IF k <= Len(s) THEN s[k] ELSE 0]
ConstSeq(n, e)   == [k \in 1..n |-> e]
ConstMat(r, c, e) == [i \in 1..r |-> ConstSeq(c, e)]
RECURSIVE SumTo(_, _)
SumTo(f, n) == IF n = 0 THEN 0 ELSE f[n] + SumTo(f, n - 1)

State(r, c, m, n, v) == [rows |-> r, cols |-> c, comp |-> m, vdim |-> n, vcomp |-> v]
\* Matrix() is the 3x3 identity, Vector() three zeros
InitState == State(3, 3, <<<<1, 0, 0>>, <<0, 1, 0>>, <<0, 0, 1>>>>, 3, <<0, 0, 0>>)

Rep(st) == /\ Len(st.comp) = st.rows
           /\ \A i \in 1..Len(st.comp) : Len(st.comp[i]) = st.cols
           /\ Len(st.vcomp) = st.vdim
NonEmpty(st) == st.rows >= 1 /\ st.cols >= 1

Act(a, x, y, z) == [a |-> a, x |-> x, y |-> y, z |-> z]
\* the actions enabled in a state.  Actions whose C++ spelling goes through Matrix(vector<vector<double>>) need at least one row
\* (that constructor reads entries[0]); the statement of the properties says nothing about empty matrices, so they are left out there.
Acts(st) ==
      {Act("MConst", r, c, Fill) : r \in 0..MaxDim, c \in 0..MaxDim}
 \cup {Act("MPattern", r, c, 0) : r \in 1..MaxDim, c \in 1..MaxDim}
 \cup {Act("MDiag", r, 0, 0) : r \in 1..MaxDim}
 \cup {Act("MResize", r, c, 0) : r \in 0..MaxDim, c \in 0..MaxDim}
 \cup {Act("MAssign", r, c, Fill + 1) : r \in 0..MaxDim, c \in 0..MaxDim}
 \cup {Act("MDelRow", i, 0, 0) : i \in 1..st.rows}
 \cup {Act("MDelCol", j, 0, 0) : j \in 1..st.cols}
 \cup (IF NonEmpty(st) THEN {Act("MTranspose", 0, 0, 0)} \cup {Act("MSub", i, j, 0) : i \in 1..st.rows, j \in 1..st.cols}
                            \cup {Act("MSet", i, j, 5) : i \in 1..st.rows, j \in 1..st.cols}
                            \cup {Act("MAddOne", 0, 0, k) : k \in 0..2} \cup {Act("MScale", 0, 0, k) : k \in 0..2}
                       ELSE {})
 \cup {Act("VConst", n, 0, Fill) : n \in 0..MaxDim}
 \cup {Act("VList", n, 0, 0) : n \in 0..MaxDim}
 \cup {Act("VResize", n, 0, 0) : n \in 0..MaxDim}
 \cup {Act("VAssign", n, 0, Fill + 1) : n \in 0..MaxDim}
 \cup {Act("VSet", i, 0, 5) : i \in 1..st.vdim}
 \cup {Act("VRow", i, 0, 0) : i \in 1..st.rows}
 \cup {Act("VCol", j, 0, 0) : j \in 1..st.cols}
 \cup (IF st.cols = st.vdim THEN {Act("VMatVec", 0, 0, k) : k \in 0..1} ELSE {})
 \cup (IF st.rows = st.vdim THEN {Act("VVecMat", 0, 0, 0)} ELSE {})
 \cup {Act("VAddOne", 0, 0, k) : k \in 0..1}

SetM(st, r, c, m) == [st EXCEPT !.rows = r, !.cols = c, !.comp = m]
SetV(st, n, v)    == [st EXCEPT !.vdim = n, !.vcomp = v]
DelRowOf(r, c, m, i) == <<r - 1, c, Remove(m, i)>>
\* the loop of Delete_Column runs over i < rows
DelColOf(r, c, m, j) == <<r, c - 1, [i \in 1..Len(m) |-> IF i <= r THEN Remove(m[i], j) ELSE m[i]]>>

Apply(st, act) ==
  LET r == st.rows  c == st.cols  m == st.comp  n == st.vdim  v == st.vcomp IN
  CASE act.a = "MConst"   -> SetM(st, act.x, act.y, ConstMat(act.x, act.y, act.z))
    [] act.a = "MPattern" -> SetM(st, act.x, act.y, [i \in 1..act.x |-> [j \in 1..act.y |-> 10 * i + j]])
    [] act.a = "MDiag"    -> SetM(st, act.x, act.x, [i \in 1..act.x |-> [j \in 1..act.x |-> IF i = j THEN i ELSE 0]])
    \* components.resize(row); for(i < rows) components[i].resize(col)    (rows already holds the new value)
    [] act.a = "MResize"  -> SetM(st, act.x, act.y, [i \in 1..act.x |-> ResizeSeq(IF i <= Len(m) THEN m[i] ELSE <<>>, act.y)])
    [] act.a = "MAssign"  -> SetM(st, act.x, act.y, ConstMat(act.x, act.y, act.z))
    [] act.a = "MDelRow"  -> LET d == DelRowOf(r, c, m, act.x) IN SetM(st, d[1], d[2], d[3])
    [] act.a = "MDelCol"  -> LET d == DelColOf(r, c, m, act.x) IN SetM(st, d[1], d[2], d[3])
    [] act.a = "MTranspose" -> SetM(st, c, r, [j \in 1..c |-> [i \in 1..r |-> m[i][j]]])
    \* Sub_Matrix: copy, Delete_Row, Delete_Column
    [] act.a = "MSub"     -> LET d == DelRowOf(r, c, m, act.x)  e == DelColOf(d[1], d[2], d[3], act.y) IN SetM(st, e[1], e[2], e[3])
    [] act.a = "MSet"     -> SetM(st, r, c, [m EXCEPT ![act.x][act.y] = act.z])
    [] act.a = "MAddOne"  -> SetM(st, r, c, [i \in 1..r |-> [j \in 1..c |-> m[i][j] + 1]])
    [] act.a = "MScale"   -> SetM(st, r, c, [i \in 1..r |-> [j \in 1..c |-> 2 * m[i][j]]])
    [] act.a = "VConst"   -> SetV(st, act.x, ConstSeq(act.x, act.z))
    [] act.a = "VList"    -> SetV(st, act.x, [k \in 1..act.x |-> 100 + k])
    [] act.a = "VResize"  -> SetV(st, act.x, ResizeSeq(v, act.x))
    [] act.a = "VAssign"  -> SetV(st, act.x, ConstSeq(act.x, act.z))
    [] act.a = "VSet"     -> SetV(st, n, [v EXCEPT ![act.x] = act.z])
    [] act.a = "VRow"     -> SetV(st, Len(m[act.x]), m[act.x])                                   \* Vector(components[row])
    [] act.a = "VCol"     -> SetV(st, r, [i \in 1..r |-> m[i][act.x]])                           \* Transpose().Return_Row(column)
    [] act.a = "VMatVec"  -> SetV(st, r, [i \in 1..r |-> SumTo([j \in 1..c |-> m[i][j] * v[j]], c)])
    [] act.a = "VVecMat"  -> SetV(st, c, [j \in 1..c |-> SumTo([i \in 1..r |-> v[i] * m[i][j]], r)])
    [] act.a = "VAddOne"  -> SetV(st, n, [k \in 1..n |-> v[k] + 1])

(***************************************************************************)
(* Requests made of the object as it is now (C10): 0-based index i.        *)
(***************************************************************************)
ProbeKinds == {"MIdx", "MIdxC", "RetRow", "RetCol", "DelRow", "DelCol", "VIdx", "VIdxC", "PlusSame", "PlusT", "MinusEqT", "MatVec", "VecMat", "TraceDet", "SubM",
               "VPlusSame", "VPlusOther", "VMinusEqSame", "VMinusEqOther", "VDotSame", "VDotOther"}
Meaningful(st, p, i, j) ==
  CASE p \in {"MIdx", "MIdxC", "RetRow", "DelRow"} -> i < st.rows
    [] p \in {"RetCol", "DelCol"} -> i < st.cols
    [] p \in {"VIdx", "VIdxC"}    -> i < st.vdim
    [] p = "PlusSame"             -> TRUE                     \* an operand of the same shape
    [] p \in {"PlusT", "MinusEqT"} -> st.rows = st.cols       \* an operand of the transposed shape
    [] p = "MatVec"               -> st.cols = st.vdim
    [] p = "VecMat"               -> st.rows = st.vdim
    [] p = "TraceDet"             -> st.rows = st.cols
    [] p = "SubM"                 -> i < st.rows /\ j < st.cols
    [] p \in {"VPlusSame", "VMinusEqSame", "VDotSame"}    -> TRUE      \* an operand of the dimension the vector has NOW
    [] p \in {"VPlusOther", "VMinusEqOther", "VDotOther"} -> FALSE     \* an operand with one entry more

VARIABLES st, hist
vars == <<st, hist>>
Init == st = InitState /\ hist = <<>>
Next == /\ Len(hist) < Depth
        /\ \E act \in Acts(st) : st' = Apply(st, act) /\ hist' = Append(hist, act)
Spec == Init /\ [][Next]_vars

RepInv == Rep(st)
Bounded == st.rows \in 0..MaxDim /\ st.cols \in 0..MaxDim /\ st.vdim \in 0..MaxDim
=============================================================================
