------------------------------- MODULE Steffen -------------------------------
(***************************************************************************)
(* C01/C08: Steffen's monotone cubic interpolation, transcribed from       *)
(* Interpolation::Compute_Steffen_Coefficients / Interpolate / Derivative  *)
(* / Integrate (Numerics.cpp) in exact rational arithmetic.                *)
(* A table is a pair of integer sequences X (strictly increasing), Y.      *)
(* Index conventions are 1-based: interval i joins knots i and i+1.        *)
(***************************************************************************)
EXTENDS Integers, Sequences, Rat

two == R(2)
three == R(3)

\* ---- A: the algorithm
H(X)    == [i \in 1..(Len(X)-1) |-> R(X[i+1] - X[i])]
S(X, Y) == [i \in 1..(Len(X)-1) |-> Frac(Y[i+1] - Y[i], X[i+1] - X[i])]

\* parabolic slope estimate at knot i (one-sided formulas at the two ends)
P(X, Y) == LET N == Len(X)  h == H(X)  s == S(X, Y) IN
  [i \in 1..N |->
     IF i = 1 THEN RSub(RMul(s[1], RAdd(ROne, RDiv(h[1], RAdd(h[1], h[2])))), RMul(s[2], RDiv(h[1], RAdd(h[1], h[2]))))
     ELSE IF i = N THEN RSub(RMul(s[N-1], RAdd(ROne, RDiv(h[N-1], RAdd(h[N-1], h[N-2])))), RMul(s[N-2], RDiv(h[N-1], RAdd(h[N-1], h[N-2]))))
     ELSE RDiv(RAdd(RMul(s[i-1], h[i]), RMul(s[i], h[i-1])), RAdd(h[i-1], h[i]))]

\* limited slopes dy
DY(X, Y) == LET N == Len(X)  s == S(X, Y)  p == P(X, Y) IN
  [i \in 1..N |->
     IF i = 1 THEN RMul(R(RSgn(p[1]) + RSgn(s[1])), RMin(RAbs(s[1]), RDiv(RAbs(p[1]), two)))
     ELSE IF i = N THEN RMul(R(RSgn(p[N]) + RSgn(s[N-1])), RMin(RAbs(s[N-1]), RDiv(RAbs(p[N]), two)))
     ELSE RMul(R(RSgn(s[i-1]) + RSgn(s[i])), RMin(RDiv(RAbs(p[i]), two), RMin(RAbs(s[i]), RAbs(s[i-1]))))]

\* the limiter is inactive at knot i when the limited slope is the parabolic estimate itself
Coefs(X, Y) == LET N == Len(X)  h == H(X)  s == S(X, Y)  dy == DY(X, Y) IN
  [h |-> h, s |-> s, dy |-> dy, p |-> P(X, Y),
   a |-> [i \in 1..(N-1) |-> RDiv(RSub(RAdd(dy[i], dy[i+1]), RMul(two, s[i])), RMul(h[i], h[i]))],
   b |-> [i \in 1..(N-1) |-> RDiv(RSub(RSub(RMul(three, s[i]), RMul(two, dy[i])), dy[i+1]), h[i])],
   c |-> [i \in 1..(N-1) |-> dy[i]],
   d |-> [i \in 1..(N-1) |-> R(Y[i])]]

Unlimited(C, i) == C.dy[i] = C.p[i]

\* value and derivatives of piece i at offset t (a rational) from its left knot
Cubic(C, i, t)  == RAdd(RAdd(RMul(C.a[i], RPow(t, 3)), RMul(C.b[i], RPow(t, 2))), RAdd(RMul(C.c[i], t), C.d[i]))
Deriv1(C, i, t) == RAdd(RAdd(RMul(RMul(three, C.a[i]), RPow(t, 2)), RMul(RMul(two, C.b[i]), t)), C.c[i])
Deriv2(C, i, t) == RAdd(RMul(RMul(R(6), C.a[i]), t), RMul(two, C.b[i]))
Deriv3(C, i)    == RMul(R(6), C.a[i])
\* antiderivative of piece i from offset t1 to t2 (the code's "stem function" difference)
Anti(C, i, t)   == RAdd(RAdd(RMul(RDiv(C.a[i], R(4)), RPow(t, 4)), RMul(RDiv(C.b[i], three), RPow(t, 3))),
                        RAdd(RMul(RDiv(C.c[i], two), RPow(t, 2)), RMul(C.d[i], t)))
PieceInt(C, i, t1, t2) == RSub(Anti(C, i, t2), Anti(C, i, t1))

\* ---- S: the property-level clauses, evaluated exactly on the model
SignOK(v, sg) == RSgn(v) = 0 \/ RSgn(v) = sg        \* v does not have the sign opposite to sg (sg # 0)
\* the derivative quadratic of piece i keeps the sign of the secant slope on [0, h]: ends and interior vertex
MonotonePiece(C, i) ==
  LET sg == RSgn(C.s[i]) IN
  IF sg = 0 THEN C.a[i] = RZero /\ C.b[i] = RZero /\ C.c[i] = RZero            \* flat data => flat piece
  ELSE /\ SignOK(Deriv1(C, i, RZero), sg)
       /\ SignOK(Deriv1(C, i, C.h[i]), sg)
       /\ (C.a[i] # RZero =>
             LET tv == RDiv(RNeg(C.b[i]), RMul(three, C.a[i])) IN                \* vertex of the quadratic
             (RLt(RZero, tv) /\ RLt(tv, C.h[i])) => SignOK(Deriv1(C, i, tv), sg))
ReproducesKnots(C, Y) == \A i \in 1..Len(C.a) : Cubic(C, i, RZero) = R(Y[i]) /\ Cubic(C, i, C.h[i]) = R(Y[i+1])
C1(C) == \A i \in 1..(Len(C.a)-1) : Deriv1(C, i, C.h[i]) = C.c[i+1]
Monotone(C) == \A i \in 1..Len(C.a) : MonotonePiece(C, i)
\* three collinear... all points on one line => every piece is that line
Collinear(X, Y) == \A i \in 1..(Len(X)-2) : (Y[i+1]-Y[i]) * (X[i+2]-X[i+1]) = (Y[i+2]-Y[i+1]) * (X[i+1]-X[i])
LineExact(C, X, Y) == Collinear(X, Y) => \A i \in 1..Len(C.a) : C.a[i] = RZero /\ C.b[i] = RZero /\ C.c[i] = C.s[1]
\* pieces whose two end slopes are unlimited reproduce parabola data exactly
IsParabola(X, Y, al, be, ga) == \A i \in 1..Len(X) : Y[i] = al * X[i] * X[i] + be * X[i] + ga
ParabolaExact(C, X, Y, al, be) ==
  \A i \in 1..Len(C.a) : (Unlimited(C, i) /\ Unlimited(C, i+1)) =>
        (C.a[i] = RZero /\ C.b[i] = R(al) /\ C.c[i] = R(2 * al * X[i] + be))
=============================================================================
