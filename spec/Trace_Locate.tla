---------------------------- MODULE Trace_Locate ----------------------------
(***************************************************************************)
(* Trace validation for C09 (and the prefactor clause shared with C08).    *)
(* A trace is a sequence of executions; each starts with Reset{N,K} (a new *)
(* table, K objects constructed from it) and then logs one event per       *)
(* public call on a *used* object, together with what a freshly            *)
(* constructed object (same table, same Set_Prefactor/Multiply calls, no   *)
(* queries) answered for that single call.                                 *)
(*                                                                         *)
(* The specification has NO cache variable: the answer to a query may      *)
(* depend on table, prefactor and argument only.  Its state is the         *)
(* prefactor of each object, kept as sign and binary exponent (the         *)
(* recorder only uses factors +-2^k, for which scaling is exact in IEEE).  *)
(***************************************************************************)
EXTENDS Integers, Sequences, TLC, Json, IOUtils

VARIABLES n,     \* knots of the current table
          pf,    \* pf[o] = [sg |-> 1|-1, ex |-> Int] : prefactor of object o is sg * 2^ex
          l      \* next event
vars == <<n, pf, l>>

Log == ndJsonDeserialize(IOEnv.TRACE)
MaxK == 8
RMAX == 1      \* residual allowance at tabulated abscissae, in the unit chosen by the recorder (64 eps * local scale)

SegOKn(nn, p, j) == /\ j \in 0..(nn-2)
                    /\ \/ (p = 0 /\ j = 0)
                       \/ (p = 2*nn /\ j = nn-2)
                       \/ (p >= 1 /\ p <= 2*nn-1 /\ 2*j+1 <= p /\ p <= 2*j+3)

Unit == [sg |-> 1, ex |-> 0]
Init == n = 3 /\ pf = [o \in 1..MaxK |-> Unit] /\ l = 1

IsEvent(e) == l <= Len(Log) /\ Log[l].e = e /\ l' = l + 1

TReset == /\ IsEvent("Reset")
          /\ n' = Log[l].N
          /\ pf' = [o \in 1..MaxK |-> Unit]

\* the public index look-up: S-level requirement only (either neighbour at a knot)
TLocate == /\ IsEvent("Locate")
           /\ Log[l].p \in 0..(2*n)
           /\ SegOKn(n, Log[l].p, Log[l].j)
           /\ UNCHANGED <<n, pf>>

\* value-returning query: history free, and scaled by exactly the prefactor in force
TQuery == /\ IsEvent("Q")
          /\ LET ev == Log[l] IN
             /\ ev.o \in 1..MaxK
             /\ ev.same \/ (ev.knot /\ ev.r <= RMAX)
             /\ ev.sg = 0 \/ (ev.sg = pf[ev.o].sg /\ ev.ex = pf[ev.o].ex)
          /\ UNCHANGED <<n, pf>>

TSetPf == /\ IsEvent("SetPf")
          /\ pf' = [pf EXCEPT ![Log[l].o] = [sg |-> Log[l].sg, ex |-> Log[l].ex]]
          /\ UNCHANGED n
TMul   == /\ IsEvent("Mul")
          /\ pf' = [pf EXCEPT ![Log[l].o] = [sg |-> @.sg * Log[l].sg, ex |-> @.ex + Log[l].ex]]
          /\ UNCHANGED n
TCopy  == /\ IsEvent("Copy")
          /\ pf' = [pf EXCEPT ![Log[l].dst] = pf[Log[l].src]]
          /\ UNCHANGED n

\* an argument outside the domain by more than the tolerance, asked of a used object (in a child process): it stops with a diagnostic
\* whatever the history was -- and the object itself is not affected
TOutside == /\ IsEvent("Outside")
            /\ ~Log[l].ret /\ Log[l].diag /\ ~Log[l].mem
            /\ UNCHANGED <<pf, n>>
Next == TReset \/ TLocate \/ TQuery \/ TSetPf \/ TMul \/ TCopy \/ TOutside
Spec == Init /\ [][Next]_vars

TraceAccepted == TLCGet("stats").diameter - 1 = Len(Log)
=============================================================================
