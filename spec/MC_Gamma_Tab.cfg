CONSTANTS HLEN = 3 NMAX = 400 NCHK = 60 ABIG = {}
INIT Tab_Init
NEXT Tab_Next
INVARIANT Tab_Laws
INVARIANT Tab_Export
CHECK_DEADLOCK FALSE
