----------------------------- MODULE MC_Spline -----------------------------
(***************************************************************************)
(* C08 on the exact model: the piecewise antiderivative summed the way     *)
(* Interpolation::Integrate does it, and the extrema taken the way         *)
(* Local_/Global_Minimum/Maximum do (end values and tabulated points in    *)
(* range, times the prefactor), satisfy the property-level clauses for     *)
(* every lattice table, every pair of lattice limits (knots and quarter    *)
(* points, either order) and every prefactor reachable by a history of     *)
(* Set_Prefactor / Multiply calls.                                         *)
(***************************************************************************)
EXTENDS Steffen, TLC
CONSTANTS NMAX, SPACINGS, YVALS, MAXOPS, G     \* G = lattice points per piece
VARIABLES X, Y, pf, ops
vars == <<X, Y, pf, ops>>
Factors == {<<-2, 1>>, <<-1, 2>>, <<1, 4>>, <<3, 1>>}
Init == X = <<0>> /\ Y \in {<<y>> : y \in YVALS} /\ pf = ROne /\ ops = 0
AppendKnot == /\ Len(X) < NMAX /\ ops = 0
              /\ \E h \in SPACINGS, y \in YVALS : X' = Append(X, X[Len(X)] + h) /\ Y' = Append(Y, y)
              /\ UNCHANGED <<pf, ops>>
SetPrefactor == Len(X) >= 3 /\ ops < MAXOPS /\ \E f \in Factors : pf' = f /\ ops' = ops + 1 /\ UNCHANGED <<X, Y>>
Multiply     == Len(X) >= 3 /\ ops < MAXOPS /\ \E f \in Factors : pf' = RMul(pf, f) /\ ops' = ops + 1 /\ UNCHANGED <<X, Y>>
Next == AppendKnot \/ SetPrefactor \/ Multiply

\* lattice positions q = 0 .. G(N-1): piece (1-based) and offset
NQ == G * (Len(X) - 1)
PieceOf(q) == IF q = NQ THEN Len(X) - 1 ELSE (q \div G) + 1            \* right-continuous Locate
Off(C, q)  == LET i == PieceOf(q) IN RDiv(RMul(R(q - G * (i - 1)), C.h[i]), R(G))
Pos(C, q)  == RAdd(R(X[PieceOf(q)]), Off(C, q))
Val(C, q)  == RMul(pf, Cubic(C, PieceOf(q), Off(C, q)))               \* Interpolate

RECURSIVE SumPieces(_,_,_,_,_)
SumPieces(C, j, i1, i2, lim) ==   \* lim = <<off1, off2>> offsets of the limits in pieces i1, i2
  IF j > i2 THEN RZero
  ELSE RAdd(PieceInt(C, j, IF j = i1 THEN lim[1] ELSE RZero, IF j = i2 THEN lim[2] ELSE C.h[j]), SumPieces(C, j + 1, i1, i2, lim))
IntegOrdered(C, q1, q2) == RMul(pf, SumPieces(C, PieceOf(q1), PieceOf(q1), PieceOf(q2), <<Off(C, q1), Off(C, q2)>>))
Integrate(C, q1, q2) == IF q1 > q2 THEN RNeg(IntegOrdered(C, q2, q1)) ELSE IntegOrdered(C, q1, q2)

KnotsIn(q1, q2) == {k \in 1..Len(X) : G * (k - 1) >= q1 /\ G * (k - 1) <= q2}
Cands(C, q1, q2) == {Val(C, q1), Val(C, q2)} \cup {RMul(pf, R(Y[k])) : k \in KnotsIn(q1, q2)}
LocalMin(C, q1, q2) == CHOOSE m \in Cands(C, q1, q2) : \A v \in Cands(C, q1, q2) : RLe(m, v)
LocalMax(C, q1, q2) == CHOOSE m \in Cands(C, q1, q2) : \A v \in Cands(C, q1, q2) : RLe(v, m)

\* cumulative integral of the unit-prefactor curve from the first knot to lattice position q, piece by piece
RECURSIVE Cum(_,_)
Cum(C, q) == IF q = 0 THEN RZero
             ELSE LET i == IF q % G = 0 THEN q \div G ELSE (q \div G) + 1          \* piece containing (q-1, q]
                      k == q - G * (i - 1) IN
                  RAdd(Cum(C, q - 1), PieceInt(C, i, RDiv(RMul(R(k - 1), C.h[i]), R(G)), RDiv(RMul(R(k), C.h[i]), R(G))))

Props == Len(X) >= 3 => LET C == Coefs(X, Y)
                            F == [q \in 0..NQ |-> Cum(C, q)]
                            V == [q \in 0..NQ |-> Val(C, q)] IN
  \* A => S for Integrate: the sum over pieces with partial end pieces is the difference of the cumulative integral,
  \* hence additive and antisymmetric; it carries the prefactor
  /\ \A q1 \in 0..NQ, q2 \in 0..NQ : Integrate(C, q1, q2) = RMul(pf, RSub(F[q2], F[q1]))
  /\ \A q1 \in 0..NQ : \A q2 \in q1..NQ :
        LET cands == {V[q1], V[q2]} \cup {RMul(pf, R(Y[k])) : k \in KnotsIn(q1, q2)}
            mn == CHOOSE m \in cands : \A v \in cands : RLe(m, v)
            mx == CHOOSE m \in cands : \A v \in cands : RLe(v, m)
            width == RSub(Pos(C, q2), Pos(C, q1))
            ig == RMul(pf, RSub(F[q2], F[q1])) IN
        /\ \A q \in q1..q2 : RLe(mn, V[q]) /\ RLe(V[q], mx)                  \* no evaluation outside the reported extrema
        /\ RLe(RMul(mn, width), ig) /\ RLe(ig, RMul(mx, width))              \* integral bounded by extrema x length
=============================================================================
