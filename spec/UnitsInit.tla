------------------------------ MODULE UnitsInit ------------------------------
(***************************************************************************)
(* C20, second half: the unit constants of src/Natural_Units.cpp.          *)
(* The orchestrator parses every `const double NAME = EXPR;` into a record *)
(* (lib/units_parse.py; file named by IOEnv.DEFS): textual order, whether  *)
(* the initialiser calls a function, the names it reads, and EXPR as       *)
(*      prod(decimal literals) / prod(decimal literals) * prod(name^k).    *)
(*                                                                         *)
(* (a) Initialisation machine.  Definitions are visited in textual order.  *)
(* One whose initialiser calls no function and reads only names that are   *)
(* already defined and static is initialised statically (the compiler can  *)
(* fold it); every other one is initialised dynamically, in textual order, *)
(* after all static ones.  Safe: no dynamic initialiser reads a dynamic    *)
(* name defined later -- otherwise the value depends on the build.         *)
(*                                                                         *)
(* (b) Unit algebra.  Every definition is expanded to an exact decimal     *)
(* coefficient (Big numerator / denominator, power of ten) times a power   *)
(* of GeV, and compared with its SI definition (table SI below, written    *)
(* from the definitions of the units, not from the code) expanded through  *)
(* the same base conversions.                                              *)
(***************************************************************************)
EXTENDS Big, Sequences, FiniteSets, TLC, Json, IOUtils

Defs == ndJsonDeserialize(IOEnv.DEFS)
N == Len(Defs)
Names == {Defs[i].name : i \in 1..N}
Idx(name) == CHOOSE i \in 1..N : Defs[i].name = name
DepsOf(i) == {Defs[i].deps[j] : j \in 1..Len(Defs[i].deps)}

\* ------------------------------------------------------------------ (a) initialisation
VARIABLES pos, kind
vars == <<pos, kind>>
Init == pos = 0 /\ kind = <<>>
Foldable(i, kd) == /\ ~Defs[i].call
                   /\ \A nm \in DepsOf(i) : nm \in Names /\ Idx(nm) < i /\ kd[Idx(nm)] = "static"
Classify == /\ pos < N /\ pos' = pos + 1
            /\ kind' = Append(kind, IF Foldable(pos + 1, kind) THEN "static" ELSE "dynamic")
Next == Classify
Spec == Init /\ [][Next]_vars
\* every name read is defined somewhere in the translation unit
AllDefined == \A i \in 1..N : DepsOf(i) \subseteq Names
\* the order-of-initialisation hazard
InitOrderSafe == pos = N =>
   \A i \in 1..N : kind[i] = "dynamic" =>
      \A nm \in DepsOf(i) : nm \in Names => (kind[Idx(nm)] = "static" \/ Idx(nm) < i)
UniqueNames == \A i, j \in 1..N : Defs[i].name = Defs[j].name => i = j

\* ------------------------------------------------------------------ (b) exact expansion   value = n/d * 10^e * GeV^k
One == [n |-> <<1>>, d |-> <<1>>, e |-> 0, k |-> 0, op |-> FALSE]
QMul(a, b) == [n |-> BMul(a.n, b.n), d |-> BMul(a.d, b.d), e |-> a.e + b.e, k |-> a.k + b.k, op |-> a.op \/ b.op]
QInv(a) == [n |-> a.d, d |-> a.n, e |-> -a.e, k |-> -a.k, op |-> a.op]
RECURSIVE QPow(_,_)
QPow(a, p) == IF p = 0 THEN One ELSE IF p < 0 THEN QPow(QInv(a), -p) ELSE QMul(a, QPow(a, p - 1))
Lit(l) == [n |-> IF l[1] = <<>> THEN <<>> ELSE l[1], d |-> <<1>>, e |-> l[2], k |-> 0, op |-> FALSE]
RECURSIVE LitProd(_,_)
LitProd(ls, i) == IF i > Len(ls) THEN One ELSE QMul(Lit(ls[i]), LitProd(ls, i + 1))
RECURSIVE Expand(_)
RECURSIVE FacProd(_,_)
FacProd(fs, j) == IF j > Len(fs) THEN One ELSE QMul(QPow(Expand(fs[j][1]), fs[j][2]), FacProd(fs, j + 1))
Expand(name) ==
  IF name = "GeV" THEN [One EXCEPT !.k = 1]
  ELSE LET df == Defs[Idx(name)]
           c  == QMul(LitProd(df.num, 1), QInv(LitProd(df.den, 1)))
           r  == QMul(c, FacProd(df.factors, 1))
       IN [r EXCEPT !.op = r.op \/ df.opaque]
\* equality of exact values
QEqual(a, b) == /\ a.k = b.k
                /\ LET lo == IF a.e <= b.e THEN a.e ELSE b.e
                       A  == BMul(BMul(a.n, b.d), BPowS(10, a.e - lo))
                       Bv == BMul(BMul(b.n, a.d), BPowS(10, b.e - lo))
                   IN A = Bv

\* ---- SI definitions: <<mantissa, power of ten, <<base, exponent>>...>>; bases: kg, meter, sec, Coulomb, gram, cm, GeV, and units already listed
Base(name) == CASE name = "kg"      -> QMul(Lit(<<<<1>>, 3>>), Expand("gram"))
                [] name = "meter"   -> QMul(Lit(<<<<1>>, 2>>), Expand("cm"))
                [] name = "sec"     -> QMul(Lit(<<<<2458, 9979, 2>>, 2>>), Expand("cm"))        \* 299792458 m, c = 1
                [] name = "Coulomb" -> Expand("Coulomb")
                [] OTHER            -> Expand(name)
SI == [ kg |-> <<1, 3, <<<<"gram", 1>>>> >>, tonne |-> <<1, 3, <<<<"kg", 1>>>> >>, lbs |-> <<453592, -6, <<<<"kg", 1>>>> >>,
        mm |-> <<1, -3, <<<<"meter", 1>>>> >>, meter |-> <<1, 2, <<<<"cm", 1>>>> >>, km |-> <<1, 3, <<<<"meter", 1>>>> >>, fm |-> <<1, -15, <<<<"meter", 1>>>> >>,
        inch |-> <<254, -4, <<<<"meter", 1>>>> >>, foot |-> <<3048, -4, <<<<"meter", 1>>>> >>, yard |-> <<9144, -4, <<<<"meter", 1>>>> >>,
        mile |-> <<1609344, -3, <<<<"meter", 1>>>> >>, Angstrom |-> <<1, -10, <<<<"meter", 1>>>> >>,
        barn |-> <<1, -28, <<<<"meter", 2>>>> >>, pb |-> <<1, -40, <<<<"meter", 2>>>> >>, acre |-> <<404686, -2, <<<<"meter", 2>>>> >>, hectare |-> <<1, 4, <<<<"meter", 2>>>> >>,
        sec |-> <<299792458, 0, <<<<"meter", 1>>>> >>, ms |-> <<1, -3, <<<<"sec", 1>>>> >>, ns |-> <<1, -9, <<<<"sec", 1>>>> >>, minute |-> <<60, 0, <<<<"sec", 1>>>> >>,
        hr |-> <<3600, 0, <<<<"sec", 1>>>> >>, day |-> <<86400, 0, <<<<"sec", 1>>>> >>, week |-> <<604800, 0, <<<<"sec", 1>>>> >>, year |-> <<31557600, 0, <<<<"sec", 1>>>> >>,
        Hz |-> <<1, 0, <<<<"sec", -1>>>> >>,
        Joule |-> <<1, 0, <<<<"kg", 1>>, <<"meter", 2>>, <<"sec", -2>>>> >>, erg |-> <<1, -7, <<<<"kg", 1>>, <<"meter", 2>>, <<"sec", -2>>>> >>,
        cal |-> <<4184, -3, <<<<"kg", 1>>, <<"meter", 2>>, <<"sec", -2>>>> >>,
        Newton |-> <<1, 0, <<<<"kg", 1>>, <<"meter", 1>>, <<"sec", -2>>>> >>, dyne |-> <<1, -5, <<<<"kg", 1>>, <<"meter", 1>>, <<"sec", -2>>>> >>,
        Watt |-> <<1, 0, <<<<"kg", 1>>, <<"meter", 2>>, <<"sec", -3>>>> >>,
        Pa |-> <<1, 0, <<<<"kg", 1>>, <<"meter", -1>>, <<"sec", -2>>>> >>, hPa |-> <<1, 2, <<<<"kg", 1>>, <<"meter", -1>>, <<"sec", -2>>>> >>,
        kPa |-> <<1, 3, <<<<"kg", 1>>, <<"meter", -1>>, <<"sec", -2>>>> >>, bar |-> <<1, 5, <<<<"kg", 1>>, <<"meter", -1>>, <<"sec", -2>>>> >>,
        barye |-> <<1, -1, <<<<"kg", 1>>, <<"meter", -1>>, <<"sec", -2>>>> >>,
        Volt |-> <<1, 0, <<<<"kg", 1>>, <<"meter", 2>>, <<"sec", -2>>, <<"Coulomb", -1>>>> >>,
        Ampere |-> <<1, 0, <<<<"Coulomb", 1>>, <<"sec", -1>>>> >>,
        Farad |-> <<1, 0, <<<<"Coulomb", 2>>, <<"sec", 2>>, <<"kg", -1>>, <<"meter", -2>>>> >>,
        Ohm |-> <<1, 0, <<<<"kg", 1>>, <<"meter", 2>>, <<"sec", -1>>, <<"Coulomb", -2>>>> >>,
        Siemens |-> <<1, 0, <<<<"kg", -1>>, <<"meter", -2>>, <<"sec", 1>>, <<"Coulomb", 2>>>> >>,
        Tesla |-> <<1, 0, <<<<"kg", 1>>, <<"sec", -1>>, <<"Coulomb", -1>>>> >>, Gauss |-> <<1, -4, <<<<"kg", 1>>, <<"sec", -1>>, <<"Coulomb", -1>>>> >>,
        Weber |-> <<1, 0, <<<<"kg", 1>>, <<"meter", 2>>, <<"sec", -1>>, <<"Coulomb", -1>>>> >>,
        meV |-> <<1, -12, <<<<"GeV", 1>>>> >>, eV |-> <<1, -9, <<<<"GeV", 1>>>> >>, keV |-> <<1, -6, <<<<"GeV", 1>>>> >>, MeV |-> <<1, -3, <<<<"GeV", 1>>>> >>,
        TeV |-> <<1, 3, <<<<"GeV", 1>>>> >>, PeV |-> <<1, 6, <<<<"GeV", 1>>>> >>,
        kpc |-> <<1, 3, <<<<"pc", 1>>>> >>, Mpc |-> <<1, 6, <<<<"pc", 1>>>> >>, AU |-> <<1495978707, 2, <<<<"meter", 1>>>> >>, ly |-> <<31557600, 0, <<<<"sec", 1>>>> >> ]
RECURSIVE SIProd(_,_)
SIProd(fs, j) == IF j > Len(fs) THEN One ELSE QMul(QPow(Base(fs[j][1]), fs[j][2]), SIProd(fs, j + 1))
SIValue(name) == QMul(Lit(<<BOfInt(SI[name][1]), SI[name][2]>>), SIProd(SI[name][3], 1))
\* every derived unit named in the table that the source defines equals its SI definition exactly (as decimals)
UnitsExact == \A name \in (DOMAIN SI) \cap Names : ~Expand(name).op => QEqual(Expand(name), SIValue(name))
\* mass dimension (power of GeV) of every constant the table knows, including the opaque ones
Dim == [ deg |-> 0, arcmin |-> 0, arcsec |-> 0, Rydberg |-> 1, gram |-> 1, AMU |-> 1, cm |-> -1, Bohr_Radius |-> -1, Kelvin |-> 1, Elementary_Charge |-> 0, Coulomb |-> 0,
         mole |-> 0, mProton |-> 1, mNeutron |-> 1, mNucleon |-> 1, mElectron |-> 1, mMuon |-> 1, mTau |-> 1, mZ |-> 1, mW |-> 1, mHiggs |-> 1, aEM |-> 0, mPlanck |-> 1,
         mPlanck_reduced |-> 1, G_Newton |-> -2, G_Fermi |-> -2, QCD_scale |-> 1, mEarth |-> 1, mSun |-> 1, rEarth |-> -1, rSun |-> -1, pc |-> -1 ]
DimsRight == /\ \A name \in (DOMAIN Dim) \cap Names : Expand(name).k = Dim[name]
             /\ \A name \in (DOMAIN SI) \cap Names : Expand(name).k = SIValue(name).k
\* nothing is zero or undefined: every literal is positive
NonZero == \A i \in 1..N : \A j \in 1..Len(Defs[i].num) : Defs[i].num[j][1] # <<>>
=============================================================================
