----------------------------- MODULE MC_Geometry -----------------------------
EXTENDS Geometry, Json, CSV, IOUtils
Out(rec) == IF "OUT" \in DOMAIN IOEnv THEN CSVWrite("%1$s", <<ToJson(rec)>>, IOEnv.OUT) ELSE TRUE
Triples == {<<3, 4, 5>>, <<5, 12, 13>>, <<8, 15, 17>>, <<1, 0, 1>>, <<0, 1, 1>>}
Angles == UNION {{<<Frac(sc * t[1], t[3]), Frac(ss * t[2], t[3])>>, <<Frac(sc * t[2], t[3]), Frac(ss * t[1], t[3])>>} : t \in Triples, sc \in {-1, 1}, ss \in {-1, 1}}
Quads == {<<1, 2, 2, 3>>, <<2, 3, 6, 7>>, <<3, 4, 12, 13>>, <<1, 0, 0, 1>>, <<0, 1, 0, 1>>, <<0, 0, 1, 1>>, <<2, 1, 2, 3>>, <<6, 2, 3, 7>>, <<4, 4, 7, 9>>}
Axes == UNION {{V3(Frac(s1 * q[1], q[4]), Frac(s2 * q[2], q[4]), Frac(s3 * q[3], q[4]))} : q \in Quads, s1 \in {-1, 1}, s2 \in {-1, 1}, s3 \in {-1, 1}}
Vecs == {V3(R(1), R(2), R(-1)), V3(R(0), R(1), R(3)), V3(Frac(1, 2), R(-2), R(1))}
VARIABLES cs, n, cs2
vars == <<cs, n, cs2>>
CS2 == {<<Frac(3, 5), Frac(4, 5)>>, <<Frac(-5, 13), Frac(12, 13)>>, <<R(0), R(-1)>>}
Init == cs \in Angles /\ n = <<>> /\ cs2 = <<>>
Next == \/ (n = <<>> /\ n' \in Axes /\ UNCHANGED <<cs, cs2>>)
        \/ (n # <<>> /\ cs2 = <<>> /\ cs2' \in CS2 /\ UNCHANGED <<cs, n>>)
Laws == cs2 # <<>> => \A v \in Vecs : RotationLaws(cs, cs2, n, v)
SphLaws == cs2 # <<>> => SphericalLaws(R(3), cs, cs2) /\ SphericalLaws(Frac(7, 2), cs2, cs)
\* export (one line per angle x axis): exact matrix entries as <<num, den>>
Export == (n # <<>> /\ cs2 = <<>>) => Out([k |-> "rot", c |-> cs[1], s |-> cs[2], n |-> n, m |-> Rodrigues(cs, n)])
=============================================================================
