INIT Init
NEXT Next
INVARIANT NonVacuous
POSTCONDITION TraceAccepted
CHECK_DEADLOCK FALSE
