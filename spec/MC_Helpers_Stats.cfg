CONSTANTS WMAX = 128 TMAX = 1024 RLIM = 12 SMAX = 13 LMAX = 5 VMAX = 4 DLEN = 5 DHI = 2 RNDLEN = 200
INIT St_Init
NEXT St_Next
INVARIANT St_Laws
INVARIANT St_Export
CHECK_DEADLOCK FALSE
