CONSTANTS RESET = FALSE MAXHIST = 2
INIT Init
NEXT Next
INVARIANT HistoryFree
CHECK_DEADLOCK FALSE
