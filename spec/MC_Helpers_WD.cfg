CONSTANTS WMAX = 128 TMAX = 1024 RLIM = 12 SMAX = 13 LMAX = 5 VMAX = 4 DLEN = 5 DHI = 2 RNDLEN = 200
INIT WD_Init
NEXT WD_Next
INVARIANT WD_Refines
CHECK_DEADLOCK FALSE
