---------------------------- MODULE Trace_Helpers ----------------------------
(***************************************************************************)
(* Trace validation for C19: every event is one call of a helper recorded  *)
(* from the real library with its arguments and result; the specification  *)
(* accepts it iff the result meets the helper's property-level spec.       *)
(***************************************************************************)
EXTENDS Helpers, TLC, Json, IOUtils
VARIABLE l
Log == ndJsonDeserialize(IOEnv.TRACE)
Init == l = 1
Ev(e) == l <= Len(Log) /\ Log[l].e = e /\ l' = l + 1

TWD == Ev("WD") /\ WD_S(Log[l].out, Log[l].w, Log[l].t)
TRange == Ev("Range") /\ Log[l].out = RangeSpec(Log[l].min, Log[l].max, Log[l].step)
TClosest == Ev("Closest") /\ Sorted(Log[l].list) /\ ClosestOK(Log[l].list, Log[l].t, Log[l].idx)
\* Linear_Space / Log_Space: count, first point is min exactly, last point is max within rounding,
\* strictly monotone in the direction of max-min, equally spaced (in the logarithm)
TSpace == Ev("Space") /\ LET ev == Log[l] IN
            /\ ev.n = SpaceCount(ev.steps, ev.degenerate)
            /\ ev.firstSame
            /\ ev.n > 1 => (ev.lastq <= 4 /\ ev.mono /\ ev.spq <= 16)
\* relations between outputs of the statistics helpers on real-valued data (translation, scaling, permutation,
\* Standard_Deviation^2 = Variance, equal weights => plain mean and s/sqrt(N)); q = residual in units of 64 eps * scale
TRel == Ev("Rel") /\ Log[l].q <= 1
Next == TWD \/ TRange \/ TClosest \/ TSpace \/ TRel
Spec == Init /\ [][Next]_l
TraceAccepted == TLCGet("stats").diameter - 1 = Len(Log)
=============================================================================
