---------------------------- MODULE VegasStatics ----------------------------
(***************************************************************************)
(* C14, algorithm level: why Integrate_MC_Vegas forgets earlier calls when *)
(* it is entered with init = 0 although all its working storage is         *)
(* function-local static ("allowing restarts").                            *)
(*                                                                         *)
(* Every static object (array parts are split into the part indexed below  *)
(* the current dimension, "...A", and the rest, "...B") is either `stale`  *)
(* (still holds what an earlier call left) or `fresh` (written during the  *)
(* current call).  The body of the function is a sequence of blocks; each  *)
(* block reads some objects and writes some.  A read of a stale object     *)
(* makes the result depend on the call history.                            *)
(*                                                                         *)
(* The read and write sets below are transcribed from src/Integration.cpp  *)
(* (block labels in comments).  TLC checks: for init = 0 no block reads a  *)
(* stale object, whatever the previous calls were (dimension, budget,      *)
(* printing on or off) -- except the print-out of `it` before the first    *)
(* iteration when nprn >= 0, and the entries x[ndim..9] of the vector      *)
(* handed to the integrand, which the specification flags separately; for  *)
(* init = 1 and 2 (restarts) stale reads are the documented intent.        *)
(***************************************************************************)
EXTENDS Integers, FiniteSets, Sequences, TLC
CONSTANTS MAXCALLS

Scalars == {"mds", "ndo", "si", "swgt", "schi", "nd", "ng", "npg", "calls", "dxg", "dv2g", "xnd", "xjac", "it", "ti", "tsi", "fb", "f2b", "wgt", "xn", "xo", "rc", "f", "f2", "i", "j", "k"}
Arrays  == {"xi0A", "xiA", "xiB", "dxA", "dxB", "rA", "xinA", "kgA", "kgB", "iaA", "iaB", "xA", "xB", "dA", "dB", "diA", "diB", "dtA", "dtB"}
Objects == Scalars \cup Arrays

\* blocks in program order: <<label, condition on (init, nprn), reads, writes>>
Blocks == <<
  [l |-> "init0",    c |-> "i0", r |-> {},                                         w |-> {"mds", "ndo", "xi0A", "j"}],
  [l |-> "init1",    c |-> "i1", r |-> {},                                         w |-> {"si", "swgt", "schi"}],
  [l |-> "init2a",   c |-> "i2", r |-> {"mds"},                                    w |-> {"nd", "ng", "mds", "npg", "k", "i", "calls", "dxg", "dv2g", "xnd", "xjac", "dxA", "j"}],
  [l |-> "init2b",   c |-> "i2", r |-> {"nd", "ndo", "xnd", "xi0A"},               w |-> {"rA", "xinA", "xiA", "ndo", "i", "j", "k"}],          \* if(nd != ndo) Rebin from the one-bin grid
  [l |-> "print",    c |-> "pr", r |-> {"it", "calls", "mds", "nd"},               w |-> {}],                                                 \* header print-out (nprn >= 0)
  [l |-> "iter0",    c |-> "al", r |-> {"nd"},                                     w |-> {"it", "ti", "tsi", "kgA", "dA", "diA", "i", "j"}],
  [l |-> "sample",   c |-> "al", r |-> {"xjac", "kgA", "dxg", "xiA", "dxA", "xnd", "npg"}, w |-> {"fb", "f2b", "wgt", "xn", "iaA", "xo", "rc", "xA", "f", "f2", "diA", "dA", "k", "j"}],
  [l |-> "cell",     c |-> "al", r |-> {"f2b", "fb", "npg", "mds", "iaA", "ng", "kgA", "ti", "tsi"}, w |-> {"f2b", "ti", "tsi", "dA", "kgA", "k"}],
  [l |-> "combine",  c |-> "al", r |-> {"tsi", "dv2g", "ti", "si", "schi", "swgt", "it"}, w |-> {"tsi", "wgt", "si", "schi", "swgt"}],
  [l |-> "refine",   c |-> "al", r |-> {"dA", "nd", "xnd", "xiA"},                 w |-> {"xo", "xn", "dA", "dtA", "rc", "rA", "xinA", "xiA", "i", "j"}]
>>
Applies(c, init, nprn) == CASE c = "i0" -> init <= 0 [] c = "i1" -> init <= 1 [] c = "i2" -> init <= 2 [] c = "pr" -> init <= 2 /\ nprn >= 0 [] c = "al" -> TRUE

VARIABLES fresh, pc, init, nprn, calls_made, stale_reads, loops
vars == <<fresh, pc, init, nprn, calls_made, stale_reads, loops>>
Init == fresh = {} /\ pc = 0 /\ init = 0 /\ nprn = -1 /\ calls_made = 0 /\ stale_reads = {} /\ loops = 0
\* a new call: everything the previous call wrote is now history; the first call of the process must use init = 0
Enter == /\ pc = 0 /\ calls_made < MAXCALLS
         /\ init' \in (IF calls_made = 0 THEN {0} ELSE {0, 1, 2}) /\ nprn' \in {-1, 0}
         /\ fresh' = {} /\ stale_reads' = {} /\ pc' = 1 /\ loops' = 0 /\ calls_made' = calls_made + 1
Step == /\ pc >= 1 /\ pc <= Len(Blocks)
        /\ LET b == Blocks[pc] IN
           IF Applies(b.c, init, nprn)
           THEN /\ stale_reads' = stale_reads \cup {<<b.l, o>> : o \in (b.r \ fresh)}
                /\ fresh' = fresh \cup b.w
           ELSE UNCHANGED <<fresh, stale_reads>>
        \* the iteration loop: after "refine" go round once more (two passes show the fixed point), then return
        /\ IF pc = Len(Blocks) /\ loops = 0 THEN pc' = 6 /\ loops' = 1
           ELSE IF pc = Len(Blocks) THEN pc' = 0 /\ UNCHANGED loops
           ELSE pc' = pc + 1 /\ UNCHANGED loops
        /\ UNCHANGED <<init, nprn, calls_made>>
Next == Enter \/ Step
Spec == Init /\ [][Next]_vars

\* entered with init = 0 and printing off (what Integrate_MC does), nothing stale is ever read
ForgetsHistory == (init = 0 /\ nprn = -1) => stale_reads = {}
\* with printing on, the only stale object read is the iteration counter in the header
OnlyHeaderIt == (init = 0 /\ nprn = 0) => stale_reads \subseteq {<<"print", "it">>}
\* restarts read the grid and the accumulators of the previous call: that is their purpose (non-vacuity of the taint analysis)
RestartReads == (init = 2 /\ pc = 0 /\ calls_made > 1) => \E p \in stale_reads : p[2] \in {"mds", "xiA", "si"}
\* the part of the static work vector beyond the current dimension is never written by the call: the integrand receives it stale
TailOfXNeverFresh == "xB" \notin fresh
=============================================================================
