------------------------------ MODULE Trace_GL ------------------------------
(***************************************************************************)
(* Trace validation for C12.  The recorder computes one rule per event     *)
(* with the real Compute_Gauss_Legendre_Roots_and_Weights; the state       *)
(* machine demands that the orders 1..NEX arrive in order without gaps     *)
(* (exhaustive over n, odd and even) on the standard interval, and accepts *)
(* every rule only if it is a valid quadrature rule (RuleAccepted).        *)
(***************************************************************************)
EXTENDS GaussLegendre, Json, IOUtils
CONSTANT NEX
VARIABLES l, nextn, nbig, nrev, lens
vars == <<l, nextn, nbig, nrev, lens>>
Log == ndJsonDeserialize(IOEnv.TRACE)
Init == l = 1 /\ nextn = 1 /\ nbig = 0 /\ nrev = 0 /\ lens = {}
Ev(e) == l <= Len(Log) /\ Log[l].e = e /\ l' = l + 1
TRule == /\ Ev("Rule") /\ LET ev == Log[l] IN
            /\ RuleAccepted(ev)
            /\ CASE ev.cls = "std" -> ev.n = nextn /\ ~ev.rev /\ nextn' = nextn + 1 /\ UNCHANGED <<nbig, nrev>>
                 [] ev.cls = "rnd" -> ev.n < nextn /\ nrev' = nrev + (IF ev.rev THEN 1 ELSE 0) /\ UNCHANGED <<nextn, nbig>>
                 [] ev.cls = "big" -> ev.n > NEX /\ nbig' = nbig + 1 /\ UNCHANGED <<nextn, nrev>>
         /\ UNCHANGED lens
TMoment == /\ Ev("Moment") /\ (Log[l].exact => Log[l].q <= 1) /\ UNCHANGED <<nextn, nbig, nrev, lens>>
\* values and rule of different lengths are rejected (exit with diagnostic), equal lengths are served
TLengths == /\ Ev("Lengths") /\ LET ev == Log[l] IN
               /\ ev.returned = (ev.lv = ev.lr) /\ ~ev.mem
               /\ (~ev.returned => ev.status # 0 /\ ev.diag)
               /\ lens' = lens \cup {<<ev.lv, ev.lr>>}
            /\ UNCHANGED <<nextn, nbig, nrev>>
Next == TRule \/ TMoment \/ TLengths
Spec == Init /\ [][Next]_vars
\* accepted = every line consumed, all orders 1..NEX seen, some reversed intervals, some large orders, both sides of the length guard
TraceAccepted == /\ TLCGet("stats").diameter - 1 = Len(Log)
Complete == l > Len(Log) => nextn = NEX + 1 /\ nbig >= 5 /\ nrev >= 20 /\ \E p \in lens : p[1] # p[2]
=============================================================================
