-------------------------------- MODULE MC_GL --------------------------------
EXTENDS GaussLegendre, Json, CSV, IOUtils
CONSTANTS NMAX
Out(rec) == IF "OUT" \in DOMAIN IOEnv THEN CSVWrite("%1$s", <<ToJson(rec)>>, IOEnv.OUT) ELSE TRUE
VARIABLES n, i, written, both
vars == <<n, i, written, both>>
\* ---- Fill machine for every n
Fill_Init == n \in 1..NMAX /\ i = 0 /\ written = {} /\ both = TRUE
Fill_Next == /\ i < MidCount(n)
             /\ written' = written \cup SlotsOfStep(n, i)
             /\ both' = (both /\ (i \in written') /\ ((n - 1 - i) \in written'))
             /\ i' = i + 1 /\ UNCHANGED n
Fill_Inv == /\ FillOK(n, written, i)
            /\ written \subseteq 0..(n - 1)                                    \* never writes outside the table
            /\ (i = MidCount(n) => written = 0..(n - 1) /\ both)              \* at the end every slot is written
            /\ \A s \in written : (n - 1 - s) \in written                      \* mirrored slots are filled together
\* ---- affine map on stand-in rules: n = 1..5, nodes and weights rational, every interval over small integers, both orientations
Halves == [k \in 1..5 |-> CASE k = 1 -> << <<R(0), R(2)>> >>
                             [] k = 2 -> << <<Frac(1, 2), R(1)>> >>
                             [] k = 3 -> << <<Frac(3, 4), Frac(5, 9)>>, <<R(0), Frac(8, 9)>> >>
                             [] k = 4 -> << <<Frac(6, 7), Frac(1, 3)>>, <<Frac(1, 3), Frac(2, 3)>> >>
                             [] k = 5 -> << <<Frac(9, 10), Frac(1, 4)>>, <<Frac(1, 2), Frac(1, 2)>>, <<R(0), Frac(1, 2)>> >>]
Map_Init == n \in 1..5 /\ i \in -3..3 /\ written \in -3..3 /\ both = TRUE /\ i # written
Map_Next == UNCHANGED vars
Map_Inv == RuleLaws(n, Halves[n], R(i), R(written))
\* ---- exact moments: interval [a,b] integer (i = a, written = b), rule order n, degrees 0..2n+1 (the last two beyond exactness)
Mom_Init == n \in {1, 2, 3, 5, 8, 13, 21, 30} /\ i \in {-3, 0, 2} /\ written \in {1, 4, 7} /\ both = TRUE /\ i < written
Mom_Next == UNCHANGED vars
Mom_Export == \A k \in 0..(IF 2 * n - 1 < 60 THEN 2 * n - 1 ELSE 60) :
                 Out([k |-> "moment", n |-> n, a |-> i, b |-> written, deg |-> k, num |-> BPowS(written - i, k + 1), den |-> k + 1])
=============================================================================
