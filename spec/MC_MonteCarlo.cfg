CONSTANTS RESET = TRUE MAXHIST = 2
INIT Init
NEXT Next
INVARIANT HistoryFree
INVARIANT ValidDims
INVARIANT MemoLaw
CHECK_DEADLOCK FALSE
