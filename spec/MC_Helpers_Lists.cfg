CONSTANTS WMAX = 128 TMAX = 1024 RLIM = 12 SMAX = 13 LMAX = 5 VMAX = 4 DLEN = 5 DHI = 2 RNDLEN = 200
INIT Li_Init
NEXT Li_Next
INVARIANT Li_Laws
INVARIANT Li_Export
CHECK_DEADLOCK FALSE
