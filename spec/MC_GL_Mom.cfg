CONSTANT NMAX = 512
INIT Mom_Init
NEXT Mom_Next
INVARIANT Mom_Export
CHECK_DEADLOCK FALSE
