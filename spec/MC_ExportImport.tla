--------------------------- MODULE MC_ExportImport ---------------------------
EXTENDS ExportImport
CONSTANTS RMAX, CMAX, HMAX
VARIABLES rows, cols, h
vars == <<rows, cols, h>>
Init == rows \in 1..RMAX /\ cols \in 1..CMAX /\ h \in 0..HMAX
Next == UNCHANGED vars
RoundTrip == RoundTripOK(rows, cols, h) /\ ListRoundTripOK(rows, h) /\ \A hb \in 0..(2 ^ h - 1) : RoundTripBlankOK(rows, cols, h, hb)
\* skipping fewer lines than the header has never yields the table back (the reader stops at the header text)
WrongSkip == h >= 1 => LET r == ImportTable(FileOf(rows, cols, h), h - 1) IN r = Undefined \/ r[2] # cols \/ r[1] # rows
\* Save_Function as an exporter (beyond the listed properties): shape and x-major order of the saved grid
ASSUME \A xp \in 2..4 : SavedOK(1, xp, 0) /\ \A yp \in {0, 2, 3, 4} : SavedOK(2, xp, yp)
=============================================================================
