----------------------------- MODULE MC_Scalars -----------------------------
EXTENDS Scalars, Json, CSV, IOUtils
CONSTANTS LMAX
Out(rec) == IF "OUT" \in DOMAIN IOEnv THEN CSVWrite("%1$s", <<ToJson(rec)>>, IOEnv.OUT) ELSE TRUE
VARIABLES a, b, c
vars == <<a, b, c>>
\* ---- Round: mantissas (incl. 9..9 just below powers of ten) x digits 1..7
Mants == {1, 5, 9, 15, 25, 99, 149, 150, 151, 994, 995, 999, 1234, 9995, 9999, 12345, 54321, 99994, 99995, 99999, 123456, 999999, 1234567, 9999994, 9999995, 9999999,
          12345678, 99999994, 99999995, 99999999, 31415926, 27182818, 10000001, 19999999, 44444445, 55555555, 14999999, 15000001}
TieInts == {1, 2, 7, 9, 12, 25, 99, 123, 650, 999, 1234, 4999, 9999, 12345, 99999, 123456, 999999, 1234567, 9999999}
RInit == a \in (Mants \cup {10 * i + 5 : i \in TieInts}) /\ b \in 1..7 /\ c = 0
RNext == UNCHANGED vars
RLaws == LET r == RoundMant(a, b) IN
         /\ Digits(r) \in {b, b + 1} /\ (Digits(r) = b + 1 => r = Pow10(b))                                   \* d significant digits (or the next power of ten)
         /\ (Digits(a) > b => LET u == Pow10(Digits(a) - b) IN 2 * (r * u - a) <= u /\ 2 * (a - r * u) <= u)   \* within half a unit of the d-th digit
         /\ RoundMant(r, b) * (IF Digits(r) > b THEN Pow10(Digits(r) - b) ELSE 1) = r                         \* idempotent: rounding the result again gives the same value
RExport == ~IsTie(a, b) => Out([k |-> "round", m |-> a, d |-> b, r |-> RoundMant(a, b), shift |-> Digits(a) - b])
\* ties that are exact in binary: x = I + 1/2 with I of d digits (mantissa 10 I + 5, exponent -1): half-up gives I + 1, and -x gives -(I + 1)
TExportTie == (a \in {10 * i + 5 : i \in TieInts} /\ b = Digits(a) - 1) => Out([k |-> "roundtie", m |-> a, d |-> b, r |-> RoundMant(a, b)])
\* ---- decision tables
TInit == a \in Classes /\ b \in Classes /\ c = 0
TNext == UNCHANGED vars
TLaws == /\ FloatsEqualSpec(a, a) /\ (FloatsEqualSpec(a, b) <=> FloatsEqualSpec(b, a))                        \* reflexive, symmetric
         /\ (Sign2Keeps(a, b) <=> SgnC(a) = SgnC(b)) /\ (StepC(a) = 1 <=> SgnC(a) >= 0)
TExport == Out([k |-> "table", x |-> a, y |-> b, sgn |-> SgnC(a), step |-> StepC(a), keeps |-> Sign2Keeps(a, b), rdzero |-> RelDiffZero(a, b), feq |-> FloatsEqualSpec(a, b)])
\* ---- VSH: a = l, b = m, c = component
VInit == a \in 0..LMAX /\ b \in -LMAX..LMAX /\ b >= -a /\ b <= a /\ c \in 0..2
VNext == UNCHANGED vars
Targets == {<<lh, mh>> : lh \in {a - 1, a + 1}, mh \in {b - 1, b, b + 1}}
VLaws == \* sum of the squares of the coefficients of one component over all targets, summed over the three components, is 1 (|rhat|^2 = 1, orthonormality of the Y's)
         LET S(comp) == LET T == {t \in Targets : t[1] >= 0} IN
                        LET F[k \in 0..6] == IF k = 0 THEN RZero
                                             ELSE LET t == <<IF k <= 3 THEN a - 1 ELSE a + 1, b - 1 + ((k - 1) % 3)>> IN
                                                  RAdd(F[k - 1], IF t[1] < 0 \/ t[2] < -t[1] \/ t[2] > t[1] THEN RZero ELSE Norm0(YCoef(comp, a, b, t[1], t[2]))[2])
                        IN F[6]
         IN c = 0 => RAdd(RAdd(S(0), S(1)), S(2)) = ROne
VExport == \A t \in Targets : Out([k |-> "vsh", comp |-> c, l |-> a, m |-> b, lh |-> t[1], mh |-> t[2],
                                   y |-> Norm0(YCoef(c, a, b, t[1], t[2])), psi |-> PsiCoef(c, a, b, t[1], t[2])])
=============================================================================
