---------------------------- MODULE Trace_Spline ----------------------------
(***************************************************************************)
(* Trace validation for C08: integrals and extrema of the interpolated     *)
(* curve under an arbitrary history of Set_Prefactor / Multiply calls.     *)
(* State: the prefactor in force as sign and binary exponent (the recorder *)
(* uses factors +-2^k, exact in IEEE).  Every integral / extremum event    *)
(* carries the relation (sg, ex) the recorder found between the answer and *)
(* the answer of a unit-prefactor object for the same question (for        *)
(* extrema under a negative prefactor: for the *opposite* extremum); the   *)
(* specification demands that it is exactly the prefactor it tracked.      *)
(***************************************************************************)
EXTENDS Integers, Sequences, TLC, Json, IOUtils
VARIABLES pf, l
vars == <<pf, l>>
Log == ndJsonDeserialize(IOEnv.TRACE)
Unit == [sg |-> 1, ex |-> 0]
Init == pf = Unit /\ l = 1
Ev(e) == l <= Len(Log) /\ Log[l].e = e /\ l' = l + 1
Scaled(ev) == ev.sg = 0 \/ (ev.sg = pf.sg /\ ev.ex = pf.ex)

TReset == Ev("Reset") /\ pf' = Unit
TSetPf == Ev("SetPf") /\ pf' = [sg |-> Log[l].sg, ex |-> Log[l].ex]
TMul   == Ev("Mul")   /\ pf' = [sg |-> pf.sg * Log[l].sg, ex |-> pf.ex + Log[l].ex]
TInteg == /\ Ev("Integ")
          /\ LET ev == Log[l] IN
             /\ ev.addq <= 1         \* additive over adjacent intervals
             /\ ev.anti              \* antisymmetric under exchange of the limits (exactly)
             /\ ev.simpq <= 1        \* the exact integral of the curve returned by Interpolate (Simpson is exact per cubic piece)
             /\ ev.bnd               \* min * length <= integral <= max * length
             /\ Scaled(ev)
          /\ UNCHANGED pf
TExt == /\ Ev("Ext")
        /\ LET ev == Log[l] IN
           /\ ev.below = 0 /\ ev.above = 0      \* no evaluation falls outside the reported extrema
           /\ ev.attq <= 1                      \* and they are attained on [x1,x2]
           /\ Scaled(ev)
        /\ UNCHANGED pf
Next == TReset \/ TSetPf \/ TMul \/ TInteg \/ TExt
Spec == Init /\ [][Next]_vars
TraceAccepted == TLCGet("stats").diameter - 1 = Len(Log)
=============================================================================
