----------------------------- MODULE MC_Guards -----------------------------
(* Enumerates the request set of Guards, checks its non-vacuity and exports it for execution by the real library. *)
EXTENDS Guards, TLC, Json, CSV, IOUtils, Sequences
VARIABLE r
Init == r \in Requests
Next == UNCHANGED r
ASSUME BothSides
Export == IF "OUT" \in DOMAIN IOEnv
          THEN CSVWrite("%1$s", <<ToJson([ep |-> r.ep, a |-> r.a, b |-> r.b, c |-> r.c, d |-> r.d, e |-> r.e,
                                           m |-> Meaningful(r), either |-> Either(r)])>>, IOEnv.OUT)
          ELSE TRUE
=============================================================================
