CONSTANT MAXCALLS = 3
INIT Init
NEXT Next
INVARIANT ForgetsHistory
INVARIANT OnlyHeaderIt
INVARIANT RestartReads
INVARIANT TailOfXNeverFresh
CHECK_DEADLOCK FALSE
