-------------------------------- MODULE Brent --------------------------------
(***************************************************************************)
(* C11, one-dimensional part: Brent's minimiser (Brent::Minimize) on an    *)
(* ordered grid 0..N, for a strictly unimodal objective with its minimum   *)
(* at position m.  The parabolic / golden-section arithmetic is abstracted *)
(* to what it guarantees: the trial point u lies inside the bracket [a,b]  *)
(* and at least tol1 = T away from the current best point x.  The          *)
(* bookkeeping is the code's: bracket update, the three best points        *)
(* x, w, v, and the stopping test |x - xm| <= 2 T - (b - a)/2.             *)
(*                                                                         *)
(* TLC proves for every choice of u: the minimiser stays inside the        *)
(* bracket, x is the best point evaluated so far and f(x) <= f(w) <= f(v), *)
(* and on return |x - m| <= 2 T.                                           *)
(***************************************************************************)
EXTENDS Integers, FiniteSets, TLC, BrentCore
CONSTANTS N, TS
VARIABLES m, T, a, b, x, w, v, pc, seen
vars == <<m, T, a, b, x, w, v, pc, seen>>
Abs(z) == IF z < 0 THEN -z ELSE z
\* strictly unimodal, all values distinct
F(p) == IF p <= m THEN 2 * (m - p) ELSE 2 * (p - m) - 1
\* a bracketing triple a0 < b0 < c0 with f(b0) below both ends, as Bracket() hands it over
Init == /\ m \in 0..N /\ T \in TS
        /\ \E a0, b0, c0 \in 0..N : /\ a0 < b0 /\ b0 < c0 /\ F(b0) <= F(a0) /\ F(b0) <= F(c0)
                                    /\ a = a0 /\ b = c0 /\ x = b0 /\ w = b0 /\ v = b0
        /\ pc = "loop" /\ seen = {x}
Done == 2 * Abs(2 * x - (a + b)) <= 8 * T - 2 * (b - a)          \* |x - xm| <= 2T - (b-a)/2, times 4
Stop == pc = "loop" /\ Done /\ pc' = "done" /\ UNCHANGED <<m, T, a, b, x, w, v, seen>>
Trial == /\ pc = "loop" /\ ~Done
         /\ \E u \in a..b : /\ Abs(u - x) >= T
                            /\ seen' = seen \cup {u}
                            /\ LET n == BUpdate(BState(a, b, x, w, v, F(x), F(w), F(v)), u, F(u)) IN       \* the code's bookkeeping (BrentCore.tla)
                               a' = n.a /\ b' = n.b /\ x' = n.x /\ w' = n.w /\ v' = n.v
         /\ UNCHANGED <<m, T, pc>>
Next == Stop \/ Trial
Spec == Init /\ [][Next]_vars
BracketHolds == a <= m /\ m <= b /\ a <= x /\ x <= b                     \* the minimiser never leaves the bracket
BestSoFar == \A p \in seen : F(x) <= F(p)                                \* x is the best point evaluated
Ordered == F(x) <= F(w) /\ (w # x => F(w) <= F(v) \/ v = x \/ v = w)     \* the three best points are ordered
Accurate == pc = "done" => Abs(x - m) <= 2 * T                           \* within the distance the tolerance implies
=============================================================================
