------------------------------- MODULE Guards -------------------------------
(***************************************************************************)
(* C10: decision table "which requests have a mathematical meaning".       *)
(* A request is a record [ep, a, b, c, d, e]: an entry point and small     *)
(* abstract arguments chosen to straddle every guard.  Meaningful(r) is    *)
(* written from the mathematics, not from the code.  The single rule of    *)
(* the specification (Trace_Guards) is                                     *)
(*       Meaningful(r)  <=>  the call returns                              *)
(*       ~Meaningful(r) =>   process ends with failure status and a        *)
(*                           non-empty diagnostic                          *)
(*       never a memory error (signal, libstdc++ assertion, sanitizer).    *)
(* For a few rows the statement leaves both outcomes open: Either(r).      *)
(***************************************************************************)
EXTENDS Integers, FiniteSets

UMAX == 9999                  \* stands for UINT_MAX (unsigned) resp. -1 (signed) on the C++ side
Req(ep, a, b, c, d, e) == [ep |-> ep, a |-> a, b |-> b, c |-> c, d |-> d, e |-> e]
IdxSet(n) == {0, n, n + 1, UMAX} \cup (IF n > 0 THEN {n - 1} ELSE {})

Requests ==
     {Req(ep, dim, i, 0, 0, 0) : ep \in {"VecIdx", "VecIdxC"}, dim \in 0..3, i \in 0..4} \cup
     {Req(ep, dim, UMAX, 0, 0, 0) : ep \in {"VecIdx", "VecIdxC"}, dim \in 0..3}
\* an object whose size was changed by an earlier call (history): how = 0 assignment, 1 Resize, 2 Assign(dim, entry); old size m, new size n, then index i
\cup {Req("VecIdxAfter", how, m, n, i, 0) : how \in 0..2, m \in 1..4, n \in 1..4, i \in 0..5}
\* matrix rows: how = 0 assignment, 1 Resize, 2 Assign, 3 Delete_Row (new = old - 1)
\cup {Req("MatIdxAfter", how, m, n, i, 0) : how \in 0..3, m \in 1..3, n \in 1..3, i \in 0..4}
\cup {Req("VecBin", op, m, n, 0, 0) : op \in 0..5, m \in 1..4, n \in 1..4}
\cup {Req("Cross", m, n, 0, 0, 0) : m \in 2..4, n \in 2..4}
\cup {Req(ep, rows, i, 0, 0, 0) : ep \in {"MatIdx", "MatIdxC"}, rows \in 0..3, i \in 0..4}
\cup {Req(ep, rows, UMAX, 0, 0, 0) : ep \in {"MatIdx", "MatIdxC"}, rows \in 0..3}
\cup {Req("MatBin", op, m, n, p, q) : op \in 0..5, m \in 1..3, n \in 1..3, p \in 1..3, q \in 1..3}
\cup {Req("MatProd", op, m, n, p, q) : op \in 0..1, m \in 1..3, n \in 1..3, p \in 1..3, q \in 1..3}
\cup {Req(ep, op, m, n, d, 0) : ep \in {"MatVec", "VecMat"}, op \in 0..1, m \in 1..3, n \in 1..3, d \in 1..3}
\cup {Req(ep, 0, m, n, 0, 0) : ep \in {"Trace", "Det"}, m \in 1..3, n \in 1..3}
\cup {Req("Inverse", 0, m, n, s, 0) : m \in 1..3, n \in 1..3, s \in 0..1}
\cup {Req(ep, 0, i, 0, 0, 0) : ep \in {"DelRow", "RetRow", "DelCol", "RetCol"}, i \in {0, 1, 2, 3, 4, UMAX}}
\cup {Req("SubMatrix", 0, i, j, 0, 0) : i \in {0, 1, 2, 3, UMAX}, j \in {0, 2, 3, 4, UMAX}}
\cup {Req("Ragged", 0, m, n, 0, 0) : m \in 1..3, n \in 1..3}
\cup {Req("Block", k, 0, 0, 0, 0) : k \in 0..2}
\cup {Req("Rotation", dim, ax, 0, 0, 0) : dim \in 1..4, ax \in 2..4}
\cup {Req("Interp1D", m, n, o, 0, 0) : m \in 0..4, n \in 0..4, o \in 0..2}
\cup {Req("Interp1DRows", w, 0, 0, 0, 0) : w \in 1..3}
\cup {Req("Interp2DTable", m, n, k, 0, 0) : m \in 1..3, n \in 1..3, k \in 0..4}
\cup {Req("Interp2DLists", k, 0, 0, 0, 0) : k \in 0..3}
\cup {Req("InterpArg", entry, end, cls, 0, 0) : entry \in 0..7, end \in 0..1, cls \in 0..3}
\cup {Req("LocalOrder", f, o, 0, 0, 0) : f \in 0..1, o \in 0..2}
\* sign pattern of the values at the bracket ends, and their magnitude (1, 1e-170, 1e170, 1e-310): the meaning depends on the signs only
\* (patterns 9, 10: NaN at one end and an exact zero at the other: NaN ends stop the program)
\cup {Req("FindRoot", pat, mag, 0, 0, 0) : pat \in 0..10, mag \in 0..3}
\* second field 1: the (outermost) integration range is empty, a = b: the value is 0 by definition, but the name is still judged
\* (Monte Carlo names over a box without volume are left out: that request is outside the quantifier of C14)
\cup {Req("Method1D", k, e, 0, 0, 0) : k \in 0..7, e \in 0..1}
\* (third field of Method3D: 0 Cartesian integrand f(x,y,z), 1 spherical integrand f(Vector))
\cup ({Req("Method2D", k, e, 0, 0, 0) : k \in 0..10, e \in 0..1} \ {Req("Method2D", k, 1, 0, 0, 0) : k \in 6..8})
\cup ({Req("Method3D", k, e, o, 0, 0) : k \in 0..10, e \in 0..1, o \in 0..1} \ {Req("Method3D", k, 1, o, 0, 0) : k \in 6..8, o \in 0..1})
\cup {Req("MethodMC", k, 0, 0, 0, 0) : k \in 0..5}
\cup {Req("GLSize", m, n, 0, 0, 0) : m \in 0..3, n \in 0..3}
\cup {Req("Binomial", f, p, 0, 0, 0) : f \in 0..1, p \in 0..4}
\cup {Req("Poisson", f, mu, 0, 0, 0) : f \in 0..1, mu \in 0..2}
\cup {Req("InvCDFPoisson", 0, c, obs, 0, 0) : c \in 0..4, obs \in {0, 3}}
\cup {Req("ExpMB", f, p, 0, 0, 0) : f \in 0..3, p \in 0..2}
\cup {Req("LikelihoodBinned", m, n, k, lg, 0) : m \in 1..3, n \in 1..3, k \in 0..3, lg \in 0..1}
\cup {Req("Metropolis", two, sz, 0, 0, 0) : two \in 0..1, sz \in 0..5}
\cup {Req("Rejection", k, 0, 0, 0, 0) : k \in 0..4}
\cup {Req("Round", dg, 0, 0, 0, 0) : dg \in {1, 7, 8, UMAX}}
\cup {Req("Factorial", n, 0, 0, 0, 0) : n \in {0, 170, 171, UMAX}}
\* the same guard after the memo table has been filled by an earlier call (how = 0: Factorial(m), 1: Binomial_Coefficient(m, m/2))
\cup {Req("FactorialAfter", how, m, n, 0, 0) : how \in 0..1, m \in {5, 169, 170}, n \in {170, 171, 172}}
\cup {Req("BinomCoef", n, k, 0, 0, 0) : n \in 0..2, k \in 0..2}
\* around the switch-over from the factorial table to lnGamma (n = 170 | 171) and far beyond: every 0 <= k <= n has a meaning;
\* f = 0 the coefficient, 1 / 2 the binomial mass function / CDF with that number of trials
\cup {Req("BinomBig", f, n, kc, 0, 0) : f \in 0..2, n \in {169, 170, 171, 172, 400}, kc \in 0..3}
\cup {Req(ep, x, 0, 0, 0, 0) : ep \in {"GammaLn", "Gamma"}, x \in 0..3}
\cup {Req("GammaPQ", f, x, a, 0, 0) : f \in 0..3, x \in 0..2, a \in 0..2}
\cup {Req("InvGamma", f, a, 0, 0, 0) : f \in 0..1, a \in 0..2}
\cup {Req("InvErf", p, 0, 0, 0, 0) : p \in 0..5}
\cup {Req("VSH", f, comp, 0, 0, 0) : f \in 0..1, comp \in 0..4}
\cup {Req("TransposeLists", k, 0, 0, 0, 0) : k \in 0..1}
\cup {Req("SubList", i1, i2, 0, 0, 0) : i1 \in 0..2, i2 \in 0..2}
\cup {Req("DimsMismatch", f, k, 0, 0, 0) : f \in 0..2, k \in 0..2}
\cup {Req("ImportFile", f, k, 0, 0, 0) : f \in 0..1, k \in 0..1}
\cup {Req("ClosestSorted", k, 0, 0, 0, 0) : k \in 0..1}
\cup {Req("CheckForError", k, 0, 0, 0, 0) : k \in 0..1}

Meaningful(r) ==
  CASE r.ep \in {"VecIdx", "VecIdxC", "MatIdx", "MatIdxC"} -> r.b < r.a          \* index inside the object
    [] r.ep = "VecIdxAfter" -> r.d < r.c                                           \* index inside the object as it is NOW
    [] r.ep = "MatIdxAfter" -> r.d < (IF r.a = 3 THEN r.b - 1 ELSE r.c) /\ (r.a = 3 => r.b >= 2)
    [] r.ep = "VecBin"   -> r.b = r.c                                              \* equal dimensions (Dot,*,+,-,+=,-=)
    [] r.ep = "Cross"    -> r.a = 3 /\ r.b = 3
    [] r.ep = "MatBin"   -> r.b = r.d /\ r.c = r.e                                 \* equal shapes
    [] r.ep = "MatProd"  -> r.c = r.d                                              \* (b x c)(d x e)
    [] r.ep = "MatVec"   -> r.c = r.d                                              \* (b x c) v_d
    [] r.ep = "VecMat"   -> r.d = r.b                                              \* v_d (b x c)
    [] r.ep \in {"Trace", "Det"} -> r.b = r.c
    [] r.ep = "Inverse"  -> r.b = r.c /\ r.d = 0                                   \* square and non-singular
    [] r.ep \in {"DelRow", "RetRow"} -> r.b < 2                                    \* the test matrix is 2 x 3
    [] r.ep \in {"DelCol", "RetCol"} -> r.b < 3
    [] r.ep = "SubMatrix" -> r.b < 2 /\ r.c < 3
    [] r.ep = "Ragged"   -> r.b = r.c
    [] r.ep = "Block"    -> r.a = 0
    [] r.ep = "Rotation" -> r.a = 2 \/ (r.a = 3 /\ r.b = 3)
    [] r.ep = "Interp1D" -> r.a = r.b /\ r.a >= 3 /\ r.c = 0
    [] r.ep = "Interp1DRows" -> r.a = 2
    [] r.ep = "Interp2DTable" -> r.c = 0 /\ r.a >= 2 /\ r.b >= 2
    [] r.ep = "Interp2DLists" -> r.a = 0
    [] r.ep = "InterpArg" -> r.c <= 1                                              \* inside the domain or its 1% zone
    [] r.ep = "LocalOrder" -> r.b <= 1
    [] r.ep = "FindRoot" -> r.a \in {0, 1, 4, 5, 6}                                \* sign change or a zero at an end, no NaN
    [] r.ep = "Method1D" -> r.a <= 5
    [] r.ep \in {"Method2D", "Method3D"} -> r.a <= 8
    [] r.ep = "MethodMC" -> r.a <= 2
    [] r.ep = "GLSize"   -> r.a = r.b
    [] r.ep = "Binomial" -> r.b \in 1..3                                           \* p in {0, .5, 1}
    [] r.ep = "Poisson"  -> r.b >= 1                                               \* mean in {0, 1}
    [] r.ep = "InvCDFPoisson" -> r.b \in 1..3
    [] r.ep = "ExpMB"    -> r.b = 2                                                \* parameter > 0
    [] r.ep = "LikelihoodBinned" -> r.a = r.b /\ (r.c = 0 \/ r.c = r.a)
    [] r.ep = "Metropolis" -> IF r.a = 0 THEN r.b \in {0, 2} ELSE r.b \in {0, 4}
    [] r.ep = "Rejection" -> r.a \in {0, 4}
    [] r.ep = "Round"    -> r.a <= 7
    [] r.ep = "Factorial" -> r.a <= 170
    [] r.ep = "FactorialAfter" -> r.c <= 170                                       \* whatever was asked before
    [] r.ep = "BinomBig" -> TRUE
    [] r.ep = "BinomCoef" -> r.a >= 1 /\ r.b >= 1                                  \* codes 0,1,2 stand for -1,0,1
    [] r.ep \in {"GammaLn", "Gamma"} -> r.a >= 2                                   \* codes: -1, 0, tiny, 1
    [] r.ep = "GammaPQ"  -> r.b >= 1 /\ r.c = 2                                    \* x >= 0 and a > 0
    [] r.ep = "InvGamma" -> r.b = 2
    [] r.ep = "InvErf"   -> r.a \in {2, 3, 4}                                      \* |p| < 1 (and the documented cap at p = 1)
    [] r.ep = "VSH"      -> r.b \in 1..3                                           \* component codes 0..4 stand for -1..3
    [] r.ep = "TransposeLists" -> r.a = 0
    [] r.ep = "SubList"  -> TRUE                                                   \* clamped, never out of bounds
    [] r.ep = "DimsMismatch" -> r.b = 0
    [] r.ep = "ImportFile" -> r.b = 0
    [] r.ep = "ClosestSorted" -> r.a = 0
    [] r.ep = "CheckForError" -> r.a = 0

\* rows where the statement does not fix the outcome (still: never a memory error)
Either(r) ==
  \/ (r.ep = "Interp2DTable" /\ r.c = 0 /\ r.a >= 2 /\ r.b >= 2 /\ (r.a = 2 \/ r.b = 2))   \* a two-point axis: bilinear is defined, the helper spline is not
  \/ (r.ep = "InvCDFPoisson" /\ r.b \in {1, 3})                                            \* cdf = 0 or 1: the solution is 0 or infinity
  \/ (r.ep = "InvErf" /\ r.a = 4)                                                          \* p = 1: documented cap
  \/ (r.ep = "Rejection" /\ r.a = 4)                                                       \* envelope exceeded by less than the documented 1%
  \/ (r.ep \in {"VecIdx", "VecIdxC", "MatIdx", "MatIdxC"} /\ r.a = 0 /\ FALSE)

EntryPoints == {r.ep : r \in Requests}
\* non-vacuity of the table: every guarded entry point is enumerated on both sides of its guard
BothSides == \A ep \in EntryPoints \ {"SubList", "BinomBig"} :      \* (BinomBig: the accepted side of a switch-over inside the implementation)
                /\ \E r \in Requests : r.ep = ep /\ Meaningful(r) /\ ~Either(r)
                /\ \E r \in Requests : r.ep = ep /\ ~Meaningful(r) /\ ~Either(r)
=============================================================================
