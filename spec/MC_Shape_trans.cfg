CONSTANTS MaxDim = 3
          Depth = 3
SPECIFICATION Spec
INVARIANTS RepInv Bounded
ACTION_CONSTRAINT Export
VIEW StView
CHECK_DEADLOCK FALSE
