------------------------------ MODULE Trace_Min ------------------------------
(***************************************************************************)
(* Trace validation for C11.                                               *)
(*  NM    : a run exported by MC_NelderMead replayed through the real      *)
(*          Minimization::minimize.  S: never worse than the start, state  *)
(*          consistent with the objective.  A (CHECK_A): the sequence of   *)
(*          evaluated points, the returned vertex and nfunc are the        *)
(*          model's (reported as model drift only).                        *)
(*  Min1D : Find_Minimum / Find_Maximum.                                   *)
(*  MinND : minimize on bowls and multimodal objectives, three overloads.  *)
(***************************************************************************)
EXTENDS Integers, Sequences, TLC, Json, IOUtils
CONSTANT CHECK_A
VARIABLE l
Log == ndJsonDeserialize(IOEnv.TRACE)
\* The events of this trace are independent of each other, so a rejected event need not stop the validation: the line numbers of
\* all rejected events are collected in a TLC register and reported at the end (one TLC run whatever the number of rejections).
Reject(i) == TLCSet(7, Append(TLCGet(7), i))
Judge(ok) == IF ok THEN TRUE ELSE Reject(l)
Init == l = 1 /\ TLCSet(7, <<>>)
Ev(e) == l <= Len(Log) /\ Log[l].e = e /\ l' = l + 1
TNM == Ev("NM") /\ LET ev == Log[l] IN Judge(
         /\ ev.notworse /\ ev.stateok
         /\ (CHECK_A => ev.seqok /\ ev.retok /\ ev.nfuncok))
TMin1D == Ev("Min1D") /\ LET ev == Log[l] IN Judge(
            /\ ev.fin /\ ev.notworse                        \* not worse than the two initial abscissae, whatever the objective
            /\ ev.maxeq                                     \* Find_Maximum of -f is Find_Minimum of f
            /\ (ev.cls = "unimodal" => ev.dq >= 0 /\ ev.dq <= 1)   \* within the distance implied by the tolerance (and the flatness of f)
            /\ (CHECK_A => ev.bestok /\ ev.nev <= 250))            \* A (Brent.tla): the point returned is the best one evaluated; evaluations are bounded
TMinND == Ev("MinND") /\ LET ev == Log[l] IN Judge(
            /\ ev.returned                                  \* a meaningful request returns (NMAX exceeded exits)
            /\ ev.notworse /\ ev.stateok
            /\ (ev.cls = "bowl" => ev.dq >= 0 /\ ev.dq <= 1))
\* one object used for a sequence of calls: every call returns, and returns what a fresh object returns (the calls are independent);
\* the sequence is long enough to matter (more evaluations in total than the per-call limit NMAX = 5000)
TMinReuse == Ev("MinReuse") /\ LET ev == Log[l] IN Judge(
            /\ ev.returned /\ ev.ncalls >= 40 /\ ev.evals > 5000
            /\ ev.ndiff = 0 /\ ev.nbadstate = 0)
Next == TNM \/ TMin1D \/ TMinND \/ TMinReuse
Spec == Init /\ [][Next]_l
TraceAccepted == /\ TLCGet("stats").diameter - 1 = Len(Log)
                 /\ PrintT(<<"REJECTED-EVENTS", TLCGet(7)>>)
                 /\ TLCGet(7) = <<>>
=============================================================================
