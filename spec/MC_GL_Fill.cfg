CONSTANT NMAX = 512
INIT Fill_Init
NEXT Fill_Next
INVARIANT Fill_Inv
CHECK_DEADLOCK FALSE
