--------------------------- MODULE Distributions ---------------------------
(***************************************************************************)
(* C07: the discrete families in exact arithmetic.                         *)
(*  Binomial with dyadic p = k/8: PMF(n,p,x) = C(n,x) p^x (1-p)^(n-x) with *)
(*    C(n,x) from the Pascal machine of MC_Gamma; CDF = sum of the masses. *)
(*  Poisson with mean mu = m/8:  PMF * e^mu = mu^k / k!,                   *)
(*    CDF * e^mu = sum_{j<=k} mu^j / j!  (Horner machine of Gamma.tla).    *)
(* The continuous families are decided on recorded observations            *)
(* (Trace_Dist.tla): non-negative density, CDF non-decreasing from 0 to 1, *)
(* CDF increments equal to the integral of the library's own density.      *)
(***************************************************************************)
EXTENDS Gamma

Den8(k) == 8 * k                                   \* mu/k = m/(8k)
PoisStart(K) == HornerStart(K)
PoisStep(st, m) == HornerStep(st, m, Den8)
\* mu^k / k! = m^k / (8^k k!)
RECURSIVE PoisTerm(_,_)
PoisTerm(m, k) == IF k = 0 THEN <<<<1>>, <<1>>>> ELSE LET t == PoisTerm(m, k - 1) IN <<LMulS(t[1], m), LMulS(t[2], 8 * k)>>
=============================================================================
