--------------------------- MODULE MC_TimeDisplay ---------------------------
EXTENDS TimeDisplay, TLC, Json, CSV, IOUtils
VARIABLES s, m
Init == s \in {x \in Cases : x >= 0} /\ m \in {0, 250, 500, 750}
Next == UNCHANGED <<s, m>>
ASSUME Laws
Export == IF "OUT" \in DOMAIN IOEnv
          THEN CSVWrite("%1$s", <<ToJson([k |-> "Time", S |-> s, M |-> m, i |-> Shown(s, m).i, f |-> Shown(s, m).f])>>, IOEnv.OUT)
          ELSE TRUE
=============================================================================
