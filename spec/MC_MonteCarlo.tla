---------------------------- MODULE MC_MonteCarlo ----------------------------
EXTENDS MonteCarlo
CONSTANTS RESET, MAXHIST
\* two runs of the same observed call (ndim, flatness pattern, depth) after different histories of other Miser calls
VARIABLES iranA, iranB, nA, nB, ndim, flats
vars == <<iranA, iranB, nA, nB, ndim, flats>>
Flats == {<<f1, f2, f3>> : f1, f2, f3 \in BOOLEAN}
Init == iranA = 0 /\ iranB = 0 /\ nA = 0 /\ nB = 0 /\ ndim \in 1..4 /\ flats \in Flats
\* an earlier call of any dimension with a tree of some size advances the generator
Earlier(ir, d, nodes) == Advance(ir, d * nodes)
HistA == nA < MAXHIST /\ \E d \in 1..3, k \in 1..3 : iranA' = Earlier(iranA, d, k) /\ nA' = nA + 1 /\ UNCHANGED <<iranB, nB, ndim, flats>>
HistB == nB < MAXHIST /\ \E d \in 1..3, k \in 1..3 : iranB' = Earlier(iranB, d, k) /\ nB' = nB + 1 /\ UNCHANGED <<iranA, nA, ndim, flats>>
Next == HistA \/ HistB
Start(ir) == IF RESET THEN 0 ELSE ir
\* the observed call builds the same tree whatever preceded it
HistoryFree == Tree(ndim, Start(iranA), flats, 2)[1] = Tree(ndim, Start(iranB), flats, 2)[1]
\* split dimensions are always valid indices
ValidDims == \A i \in 1..Len(Tree(ndim, Start(iranA), flats, 2)[1]) : Tree(ndim, Start(iranA), flats, 2)[1][i] \in 0..(ndim - 1)
\* memo machine sanity: functional
MemoLaw == LET m1 == MemoPut(<<>>, "k", "b1") IN MemoAccepts(m1, "k", "b1", 0) /\ ~MemoAccepts(m1, "k", "b2", 0) /\ ~MemoAccepts(m1, "j", "b1", 1) /\ MemoAccepts(m1, "j", "b2", 0)
=============================================================================
