INIT Init
NEXT Next
INVARIANT Laws
INVARIANT SphLaws
INVARIANT Export
CHECK_DEADLOCK FALSE
