CONSTANT N = 5
CONSTANT K = 2
INIT Init
NEXT Next
INVARIANT CachesInRange
INVARIANT AllCallsOK
