INIT Init
NEXT Next
INVARIANT Export
CHECK_DEADLOCK FALSE
