------------------------------- MODULE Bracket -------------------------------
(***************************************************************************)
(* C11, one-dimensional part, first phase: Bracket_Method::Bracket (the    *)
(* downhill bracketing of Find_Minimum / Find_Maximum), one action per     *)
(* evaluation of the objective.  Positions and values are integers (a grid *)
(* in the design model, ranks of the recorded doubles in the trace spec):  *)
(* every decision of the code is a comparison between positions or between *)
(* values.  The arithmetic that proposes the next abscissa (parabolic      *)
(* extrapolation, golden-ratio step, the limit GLIMIT) is abstracted to    *)
(* what it guarantees about the position of the point:                     *)
(*   Inside   u strictly between bx and cx          (first  branch)        *)
(*   Outside  u strictly beyond cx, at most ulim    (second, third, fourth *)
(*            branch: parabolic step, the limit itself, default step)      *)
(*   Golden   after an undecided inner point: a point strictly beyond cx   *)
(*   Extra    after a successful outer parabolic step: one more point      *)
(*            strictly beyond it                                           *)
(* The bookkeeping (initial swap, the two early returns, the shifts) is    *)
(* the code's.  Which of the outer branches was taken is not observable    *)
(* from positions alone, so Outside may or may not be followed by Extra    *)
(* when the new value is below fc.                                         *)
(*                                                                         *)
(* S: on return bx lies strictly between ax and cx and f(bx) is not above  *)
(* f(ax) or f(cx); inside the loop the triple is strictly monotone, f(bx)  *)
(* <= f(ax), and every iteration moves cx strictly outwards.               *)
(***************************************************************************)
EXTENDS Integers

\* (the @type comments are for Apalache, spec/apalache/Bracket_Ind.tla; TLC and TLAPS ignore them)
VARIABLES
  \* @type: Int;
  ax,
  \* @type: Int;
  bx,
  \* @type: Int;
  cx,                                 \* the triple ...
  \* @type: Int;
  fa,
  \* @type: Int;
  fb,
  \* @type: Int;
  fc,                                 \* ... and its values
  \* @type: Str;
  pc,                                 \* "a", "b", "c": initial evaluations; "loop"; "g1": Golden pending; "s2": Extra pending; "done"
  \* @type: Int;
  tu,
  \* @type: Int;
  tfu                                 \* the outer point waiting for Extra
bvars == <<ax, bx, cx, fa, fb, fc, pc, tu, tfu>>

BInit == ax = 0 /\ bx = 0 /\ cx = 0 /\ fa = 0 /\ fb = 0 /\ fc = 0 /\ pc = "a" /\ tu = 0 /\ tfu = 0

\* (position tests in linear form: the code multiplies two differences and looks at the sign, which is the same thing)
Dir == IF cx > bx THEN 1 ELSE -1
Further(u, p) == IF cx > bx THEN u > p ELSE u < p          \* u lies beyond p in the direction of the search
BeyondC(u) == Further(u, cx)
Between(u) == (bx < u /\ u < cx) \/ (cx < u /\ u < bx)

EvalA(u, fu) == /\ pc = "a" /\ ax' = u /\ fa' = fu /\ pc' = "b" /\ UNCHANGED <<bx, cx, fb, fc, tu, tfu>>
EvalB(u, fu) == /\ pc = "b" /\ u # ax
                /\ IF fu > fa THEN ax' = u /\ fa' = fu /\ bx' = ax /\ fb' = fa      \* swap: go downhill from a to b
                             ELSE bx' = u /\ fb' = fu /\ UNCHANGED <<ax, fa>>
                /\ pc' = "c" /\ UNCHANGED <<cx, fc, tu, tfu>>
EvalC(u, fu) == /\ pc = "c" /\ ((bx > ax /\ u > bx) \/ (bx < ax /\ u < bx))               \* beyond bx, away from ax
                /\ cx' = u /\ fc' = fu /\ pc' = "loop" /\ UNCHANGED <<ax, bx, fa, fb, tu, tfu>>
Exit == /\ pc = "loop" /\ ~(fb > fc) /\ pc' = "done" /\ UNCHANGED <<ax, bx, cx, fa, fb, fc, tu, tfu>>
Shift(u, fu) == ax' = bx /\ bx' = cx /\ cx' = u /\ fa' = fb /\ fb' = fc /\ fc' = fu
Inside(u, fu) == /\ pc = "loop" /\ fb > fc /\ Between(u)
                 /\ IF fu < fc THEN ax' = bx /\ bx' = u /\ fa' = fb /\ fb' = fu /\ pc' = "done" /\ UNCHANGED <<cx, fc>>
                    ELSE IF fu > fb THEN cx' = u /\ fc' = fu /\ pc' = "done" /\ UNCHANGED <<ax, bx, fa, fb>>
                    ELSE pc' = "g1" /\ UNCHANGED <<ax, bx, cx, fa, fb, fc>>
                 /\ UNCHANGED <<tu, tfu>>
Golden(u, fu) == /\ pc = "g1" /\ BeyondC(u) /\ Shift(u, fu) /\ pc' = "loop" /\ UNCHANGED <<tu, tfu>>
OutsideShift(u, fu) == /\ pc = "loop" /\ fb > fc /\ BeyondC(u) /\ Shift(u, fu) /\ pc' = "loop" /\ UNCHANGED <<tu, tfu>>
OutsideMore(u, fu) == /\ pc = "loop" /\ fb > fc /\ BeyondC(u) /\ fu < fc                 \* second branch, the step was a success
                      /\ tu' = u /\ tfu' = fu /\ pc' = "s2" /\ UNCHANGED <<ax, bx, cx, fa, fb, fc>>
Extra(u, fu) == /\ pc = "s2" /\ Further(u, tu)
                /\ ax' = cx /\ bx' = tu /\ cx' = u /\ fa' = fc /\ fb' = tfu /\ fc' = fu          \* Shift3(bx,cx,u,..); Shift3(ax,bx,cx,u)
                /\ pc' = "loop" /\ UNCHANGED <<tu, tfu>>
Eval(u, fu) == EvalA(u, fu) \/ EvalB(u, fu) \/ EvalC(u, fu) \/ Inside(u, fu) \/ Golden(u, fu) \/ OutsideShift(u, fu) \/ OutsideMore(u, fu) \/ Extra(u, fu)

\* ---- S
Monotone == pc \in {"loop", "g1", "s2", "done"} => ((ax < bx /\ bx < cx) \/ (ax > bx /\ bx > cx))
Downhill == pc \in {"loop", "g1", "s2"} => fb <= fa
Bracketed == pc = "done" => /\ (ax < bx /\ bx < cx) \/ (ax > bx /\ bx > cx)
                            /\ fb <= fa /\ fb <= fc
=============================================================================
