------------------------------ MODULE BrentCore ------------------------------
(***************************************************************************)
(* The bookkeeping of Brent::Minimize after one trial point u with value   *)
(* fu: the bracket [a, b] and the three best points x, w, v with their     *)
(* values.  Shared by Brent.tla (design model on a grid, fu = F(u)) and     *)
(* Trace_FindMin.tla (recorded executions, positions and values as ranks). *)
(***************************************************************************)
EXTENDS Integers
BState(a, b, x, w, v, fx, fw, fv) == [a |-> a, b |-> b, x |-> x, w |-> w, v |-> v, fx |-> fx, fw |-> fw, fv |-> fv]
BUpdate(s, u, fu) ==
  IF fu <= s.fx
  THEN [s EXCEPT !.a = IF u >= s.x THEN s.x ELSE s.a, !.b = IF u >= s.x THEN s.b ELSE s.x,
                 !.v = s.w, !.fv = s.fw, !.w = s.x, !.fw = s.fx, !.x = u, !.fx = fu]
  ELSE LET t == [s EXCEPT !.a = IF u < s.x THEN u ELSE s.a, !.b = IF u < s.x THEN s.b ELSE u] IN
       IF fu <= s.fw \/ s.w = s.x THEN [t EXCEPT !.v = s.w, !.fv = s.fw, !.w = u, !.fw = fu]
       ELSE IF fu <= s.fv \/ s.v = s.x \/ s.v = s.w THEN [t EXCEPT !.v = u, !.fv = fu]
       ELSE t
=============================================================================
