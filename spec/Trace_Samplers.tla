--------------------------- MODULE Trace_Samplers ---------------------------
(***************************************************************************)
(* Trace validation for C18: the state is the memo of Samplers.tla.        *)
(***************************************************************************)
EXTENDS Samplers, Json, IOUtils
VARIABLES l, memo, hits
vars == <<l, memo, hits>>
Log == ndJsonDeserialize(IOEnv.TRACE)
Init == l = 1 /\ memo = <<>> /\ hits = 0
Ev(e) == l <= Len(Log) /\ Log[l].e = e /\ l' = l + 1
\* one call of a sampler on a generator whose state was `before`
TSample == /\ Ev("Sample") /\ LET ev == Log[l]  key == <<ev.fn, ev.par, ev.before>>  val == <<ev.out, ev.after>> IN
              /\ ev.n = ev.nreq                                  \* exactly the requested number of samples
              /\ ev.insup                                        \* inside the support / requested domain
              /\ (ev.consumes => ev.after # ev.before)           \* randomness comes from the generator passed
              /\ MemoAccepts(memo, key, val)                     \* equal generator states give identical outputs and leave equal states behind
              /\ memo' = MemoPut(memo, key, val)
              /\ hits' = hits + (IF key \in DOMAIN memo THEN 1 ELSE 0)
\* burn-in / thinning grid
TCount == /\ Ev("Count") /\ LET ev == Log[l] IN ev.thin >= 1 /\ ev.n = ev.sample /\ ev.n2 = ev.sample /\ ev.insup
          /\ UNCHANGED <<memo, hits>>
\* empirical law: p-value exponent of the goodness-of-fit statistic computed by the recorder
TLaw == /\ Ev("Law") /\ Log[l].pexp >= -9 /\ Log[l].nsamp >= 1000 /\ UNCHANGED <<memo, hits>>
Next == TSample \/ TCount \/ TLaw
Spec == Init /\ [][Next]_vars
TraceAccepted == TLCGet("stats").diameter - 1 = Len(Log)
NonVacuous == l > Len(Log) => hits >= 50          \* the memo was actually consulted
=============================================================================
