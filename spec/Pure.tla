-------------------------------- MODULE Pure --------------------------------
(***************************************************************************)
(* Every free function of the library whose arguments are values is a      *)
(* FUNCTION of them: what a call returns does not depend on the calls made *)
(* earlier in the same process (no cache keyed on the wrong thing, no      *)
(* static that survives a call, no table that is filled once and reused    *)
(* for other arguments).  This is implicit in every "for all inputs"       *)
(* clause of the properties: a value that is right in a fresh process and  *)
(* different after some history is wrong after that history.               *)
(*                                                                         *)
(* State: ref, the partial map (function name, argument tuple) -> result   *)
(* observed in a process without history, and the set of pairs seen again  *)
(* after a history.  Actions:                                              *)
(*   Fresh(fn, a, out): the call is the first library call of its process  *)
(*   Call(fn, a, out) : the call is made after an arbitrary history; it is *)
(*                      allowed iff out = ref[fn, a]                       *)
(*   a call after a history never ends the process when the fresh one      *)
(*   returned (Died is never allowed for such a pair).                     *)
(***************************************************************************)
EXTENDS Sequences, FiniteSets
VARIABLES ref, seen
Key(fn, a) == <<fn, a>>
PInit == ref = [k \in {} |-> ""] /\ seen = {}
Fresh(fn, a, out) == /\ Key(fn, a) \notin DOMAIN ref
                     /\ ref' = [k \in DOMAIN ref \cup {Key(fn, a)} |-> IF k = Key(fn, a) THEN out ELSE ref[k]]
                     /\ UNCHANGED seen
CallOK(fn, a, out) == Key(fn, a) \in DOMAIN ref /\ ref[Key(fn, a)] = out
Call(fn, a, out) == /\ CallOK(fn, a, out)
                    /\ seen' = seen \cup {Key(fn, a)} /\ UNCHANGED ref
\* every pair for which there is a reference was also exercised after a history
AllSeen == seen = DOMAIN ref
=============================================================================
