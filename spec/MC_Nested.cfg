CONSTANT SALTS = 1
INIT Init
NEXT Next
INVARIANT WiringInv
INVARIANT Export
INVARIANT Laws
CHECK_DEADLOCK FALSE
