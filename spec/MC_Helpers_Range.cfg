CONSTANTS WMAX = 128 TMAX = 1024 RLIM = 12 SMAX = 13 LMAX = 5 VMAX = 4 DLEN = 5 DHI = 2 RNDLEN = 200
INIT Range_Init
NEXT Range_Next
INVARIANT Range_OK
INVARIANT Range_Export
CHECK_DEADLOCK FALSE
