------------------------------ MODULE MC_Gamma ------------------------------
(***************************************************************************)
(* Bounded models for C06; one .cfg per machine.                           *)
(*   Memo   : every call history of length <= HLEN over CALLS; A => S      *)
(*   Tables : n! (0..170) and Gamma(n+1/2)/sqrt(pi), exported              *)
(*   Pascal : rows 0..NMAX of Pascal's triangle, symmetry, agreement with  *)
(*            n!/(k!(n-k)!), exported                                      *)
(*   QSer   : exact series of Q on the (a, x) lattice, recurrence law in   *)
(*            a, monotonicity in a, exported                               *)
(***************************************************************************)
EXTENDS Gamma, Json, CSV, IOUtils, FiniteSets
CONSTANTS HLEN, NMAX, NCHK, ABIG
Out(rec) == IF "OUT" \in DOMAIN IOEnv THEN CSVWrite("%1$s", <<ToJson(rec)>>, IOEnv.OUT) ELSE TRUE
VARIABLES a, b, c
vars == <<a, b, c>>

\* ------------------------------------------------------------------ Memo:  a = history, b = table (A-level), c = last return
CALLS == {0, 1, 2, 3, 12, 13, 20, 21, 169, 170}
Memo_Init == a = <<>> /\ b = <<<<1>>>> /\ c = <<>>
Memo_Next == /\ Len(a) < HLEN
             /\ \E n \in CALLS : /\ FactDefined(n)
                                 /\ a' = Append(a, n)
                                 /\ b' = FactCallTable(b, n)
                                 /\ c' = FactCallRet(b, n)
Memo_S == /\ b[1] = <<1>> /\ \A i \in 2..Len(b) : b[i] = BMulSmall(b[i - 1], i - 1)   \* the table is 0!..(L-1)! (defining recurrence)
          /\ (a # <<>> => c = b[a[Len(a)] + 1])                                   \* the value returned is n!, whatever the table held before
          /\ Len(b) = 1 + (IF a = <<>> THEN 0 ELSE LET S == {a[i] : i \in 1..Len(a)} IN CHOOSE x \in S : \A y \in S : y <= x)
Memo_Stable == [][\A i \in 1..Len(b) : b'[i] = b[i]]_vars                        \* entries never change once written
Memo_Export == Len(a) = HLEN => Out([k |-> "hist", calls |-> a,
                                     L |-> [i \in 1..Len(a) |-> LET S == {a[j] : j \in 1..i} IN 1 + (CHOOSE x \in S : \A y \in S : y <= x)]])

\* ------------------------------------------------------------------ Tables: a = n
Tab_Init == a \in 0..15 /\ b = 0 /\ c = 0
Tab_Next == a + 16 <= 170 /\ a' = a + 16 /\ UNCHANGED <<b, c>>
Tab_Export == /\ Out([k |-> "fact", n |-> a, v |-> BFact(a)])
              /\ Out([k |-> "half", n |-> a, num |-> BFact(2 * a), den |-> BMul(BPowS(4, a), BFact(a))])
Tab_Laws == /\ (a >= 1 => BFact(a) = BMulSmall(BFact(a - 1), a))
            /\ (a >= 1 => \* Gamma(n+1/2) = (n-1/2) Gamma(n-1/2):  (2n)!/(4^n n!) * 2 = (2n-1) * (2n-2)!/(4^(n-1) (n-1)!)
                  BMulSmall(BMul(BFact(2 * a), BMul(BPowS(4, a - 1), BFact(a - 1))), 2)
                  = BMulSmall(BMul(BFact(2 * a - 2), BMul(BPowS(4, a), BFact(a))), 2 * a - 1))

\* ------------------------------------------------------------------ Pascal: a = n, b = row n
Pas_Init == a = 0 /\ b = <<<<1>>>> /\ c = 0
Pas_Next == a < NMAX /\ a' = a + 1 /\ b' = PascalNext(b) /\ UNCHANGED c
Pas_Laws == /\ Len(b) = a + 1
            /\ \A k \in 1..(a + 1) : b[k] = b[a + 2 - k]                                            \* symmetry
            /\ (a <= NCHK => \A k \in 0..a : BMul(b[k + 1], BMul(BFact(k), BFact(a - k))) = BFact(a))   \* C(n,k) k! (n-k)! = n!
Pas_Export == Out([k |-> "row", n |-> a, c |-> [k \in 1..(a \div 2 + 1) |-> b[k]]])

\* ------------------------------------------------------------------ QSer: a = 2a (0 = root), b = m = 2x
A2S == {2 * i : i \in 1..12} \cup {2 * i - 1 : i \in 1..12} \cup {40, 100, 198, 199, 200, 201, 202, 203, 204, 300, 400, 800} \cup ABIG
XS(a2) == LET aa == a2 \div 2   r == ISqrt(aa) + 1 IN
          {x \in ({1, 2, 3} \cup {a2 + 2 + d : d \in -6..6}
                  \cup {a2 + s * 2 * cc * r : s \in {-1, 1}, cc \in {1, 2, 3, 5, 7, 10, 15, 20, 30, 40}}
                  \cup {a2 + 80 * r + 80}) : x > 0}
\* c = <<>> until a point is chosen, then the Horner state [lev, n, d]; one level per step
QS_Init == a = 0 /\ b = 0 /\ c = <<>>
QS_Next == \/ (a = 0 /\ a' \in A2S /\ b' = 0 /\ UNCHANGED c)
           \/ (a # 0 /\ b = 0 /\ b' \in XS(a) /\ c' = HornerStart(HornerLevels(a)) /\ UNCHANGED a)
           \/ (a # 0 /\ b # 0 /\ c.lev > 1 /\ c' = (IF a % 2 = 0 THEN HornerStep(c, b, DenInt) ELSE HornerStep(c, b, DenHalf)) /\ UNCHANGED <<a, b>>)
QS_Done == a # 0 /\ b # 0 /\ c.lev = 1
\* scale: the half-integer series carries a factor 2 (a2 = 1 has no rational part at all: scale 0)
QS_Export == QS_Done => Out([k |-> "q", a2 |-> a, m |-> b, num |-> c.n, den |-> c.d, scale |-> IF a % 2 = 0 THEN 1 ELSE IF a = 1 THEN 0 ELSE 2])
QS_Bounded == (a # 0 /\ b # 0) => LimbsBelow(c.n, 20000) /\ LimbsBelow(c.d, 20000)       \* the redundant limbs never approach 2^31 / 5000
QS_Laws == (QS_Done /\ a <= 26) =>
             LET s == QSeries(a, b)   s2 == QSeries(a + 2, b)
                 t == IF a % 2 = 0 THEN TermInt(b, a \div 2) ELSE TermHalf(b, (a - 1) \div 2)
             IN /\ (a # 1 => BNorm(c.d) = s[2] /\ BNorm(IF a % 2 = 0 THEN c.n ELSE LMulS(c.n, 2)) = s[1])     \* the iteration computes the recursive definition
                /\ QEq(s2, QAdd(s, t))                \* Q(x,a+1) - Q(x,a) = x^a e^-x / Gamma(a+1)   (rational part)
                /\ QLt(s, s2)                         \* Q increases with a
=============================================================================
