------------------------------- MODULE Bilinear -------------------------------
(* C01 (2D part): bilinear interpolation inside one grid cell, exact rationals.  *)
(* Corner values f0=(i,j) f1=(i+1,j) f2=(i+1,j+1) f3=(i,j+1); t,u in [0,1].      *)
EXTENDS Integers, Sequences, Rat
Bil(f0, f1, f2, f3, t, u) ==
   RAdd(RAdd(RMul(RMul(RSub(ROne, t), RSub(ROne, u)), R(f0)), RMul(RMul(t, RSub(ROne, u)), R(f1))),
        RAdd(RMul(RMul(t, u), R(f2)), RMul(RMul(RSub(ROne, t), u), R(f3))))
Min4(a, b, c, d) == LET m(x, y) == IF x <= y THEN x ELSE y IN m(m(a, b), m(c, d))
Max4(a, b, c, d) == LET m(x, y) == IF x >= y THEN x ELSE y IN m(m(a, b), m(c, d))
Lattice == {Frac(k, 4) : k \in 0..4}
CellOK(f0, f1, f2, f3) ==
  /\ Bil(f0, f1, f2, f3, RZero, RZero) = R(f0) /\ Bil(f0, f1, f2, f3, ROne, RZero) = R(f1)
  /\ Bil(f0, f1, f2, f3, ROne, ROne) = R(f2)   /\ Bil(f0, f1, f2, f3, RZero, ROne) = R(f3)
  /\ \A t \in Lattice, u \in Lattice :
        LET v == Bil(f0, f1, f2, f3, t, u) IN
        /\ RLe(R(Min4(f0, f1, f2, f3)), v) /\ RLe(v, R(Max4(f0, f1, f2, f3)))
  \* the restriction to an edge depends on the two nodes of that edge only => continuity across cell edges
  /\ \A t \in Lattice : /\ Bil(f0, f1, f2, f3, t, RZero) = RAdd(RMul(RSub(ROne, t), R(f0)), RMul(t, R(f1)))
                        /\ Bil(f0, f1, f2, f3, t, ROne)  = RAdd(RMul(RSub(ROne, t), R(f3)), RMul(t, R(f2)))
                        /\ Bil(f0, f1, f2, f3, RZero, t) = RAdd(RMul(RSub(ROne, t), R(f0)), RMul(t, R(f3)))
                        /\ Bil(f0, f1, f2, f3, ROne, t)  = RAdd(RMul(RSub(ROne, t), R(f1)), RMul(t, R(f2)))
\* a bilinear function al + be x + ga y + de x y on the cell [x0,x1] x [y0,y1] is reproduced
BilinearFn(al, be, ga, de, x, y) == al + be * x + ga * y + de * x * y
ReproducesBilinear(al, be, ga, de, x0, x1, y0, y1) ==
  \A t \in Lattice, u \in Lattice :
    LET x == RAdd(R(x0), RMul(t, R(x1 - x0)))
        y == RAdd(R(y0), RMul(u, R(y1 - y0))) IN
    Bil(BilinearFn(al, be, ga, de, x0, y0), BilinearFn(al, be, ga, de, x1, y0),
        BilinearFn(al, be, ga, de, x1, y1), BilinearFn(al, be, ga, de, x0, y1), t, u)
      = RAdd(RAdd(R(al), RMul(R(be), x)), RAdd(RMul(R(ga), y), RMul(R(de), RMul(x, y))))
=============================================================================
